#!/bin/sh
# Nothing to build: checks are pure Python run by /venv/bin/python against /repo's working tree.
set -e
cd "$(dirname "$0")"
/venv/bin/python -c "import sys; assert sys.version_info >= (3, 12); import orjson, pyrsistent, boltons, zope.interface"
mkdir -p evidence replays
echo setup ok
