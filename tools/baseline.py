#!/usr/bin/env python3
"""Run the repository's pinned test command (guard off: there are no hooks) and compare with /root/.vp/BASELINE.json."""
import json, os, subprocess, sys, tempfile, xml.etree.ElementTree as ET
repo = sys.argv[1] if len(sys.argv) > 1 else "/repo"
base = json.load(open("/root/.vp/BASELINE.json"))
fd, out = tempfile.mkstemp(suffix=".xml"); os.close(fd)
env = dict(os.environ); env.pop("ELIOT_VERIF", None)
subprocess.run(["/venv/bin/python", "-m", "pytest", "-ra", "-q", "-p", "no:cacheprovider", "--timeout=900",
                "--continue-on-collection-errors", "--junitxml=" + out], cwd=repo, env=env, stdout=subprocess.DEVNULL, stderr=subprocess.DEVNULL)
passed = set()
for tc in ET.parse(out).getroot().iter("testcase"):
    if not any(ch.tag in ("failure", "error", "skipped") for ch in tc):
        passed.add("%s::%s" % (tc.get("classname"), tc.get("name")))
os.unlink(out)
want = set(base["stable_pass"])
missing = sorted(want - passed)
print("baseline stable_pass=%d  passed now=%d  missing=%d" % (len(want), len(passed), len(missing)))
for m in missing[:20]:
    print("  MISSING", m)
sys.exit(1 if missing else 0)
