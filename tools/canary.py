#!/usr/bin/env python3
"""
Apply property-breaking edits (string replacements) to a scratch copy of the repository outside
/repo and /verif, run the owning check's quick tier against it (VERIF_REPO), and confirm a VIOLATION.

usage: tools/canary.py [--tests] [name ...]      (no names: all)
--tests additionally runs the repository's own test-suite on the mutant (slow) to confirm it still passes.
"""
import json
import os
import shutil
import subprocess
import sys
import tempfile

HERE = os.path.dirname(os.path.abspath(__file__))
VERIF = os.path.dirname(HERE)
REPO = os.environ.get("VERIF_REPO", "/repo")


def load():
    with open(os.path.join(HERE, "canaries.json")) as f:
        return json.load(f)


def run_one(c, with_tests=False, tier="quick"):
    tmp = tempfile.mkdtemp(prefix="vf-canary-")
    try:
        dst = os.path.join(tmp, "repo")
        shutil.copytree(REPO, dst, ignore=shutil.ignore_patterns(".git", "__pycache__", "*.pyc", "docs", "benchmarks", "presentations"))
        for ed in c["edits"]:
            p = os.path.join(dst, ed["file"])
            s = open(p).read()
            if s.count(ed["old"]) != 1:
                return "BROKEN-CANARY (old text occurs %d times in %s)" % (s.count(ed["old"]), ed["file"])
            open(p, "w").write(s.replace(ed["old"], ed["new"]))
        env = dict(os.environ, VERIF_REPO=dst, VERIF_EVIDENCE_DIR=os.path.join(tmp, "ev"))
        results = []
        for prop in c["props"]:
            r = subprocess.run([os.path.join(VERIF, "check"), prop, "--tier", tier], env=env, capture_output=True, text=True, timeout=3600)
            line = [l for l in r.stdout.splitlines() if l.startswith(("VIOLATION", "INCONCLUSIVE", "HELD"))]
            results.append("%s:exit%d:%s" % (prop, r.returncode, (line[-1] if line else r.stdout[-300:] + r.stderr[-300:])[:160]))
        ok = any(":exit1:VIOLATION" in r for r in results)
        status = ("CAUGHT " if ok else "MISSED ") + " | ".join(results)
        if with_tests:
            r = subprocess.run(["/venv/bin/python", "-m", "pytest", "-q", "-x", "-p", "no:cacheprovider", "--timeout=900",
                                "--deselect", "eliot/tests/test_journald.py", "eliot/tests"],
                               cwd=dst, capture_output=True, text=True)
            tail = r.stdout.strip().splitlines()[-1] if r.stdout.strip() else ""
            status += " || own tests: " + tail
        return status
    finally:
        shutil.rmtree(tmp, ignore_errors=True)


def main():
    args = sys.argv[1:]
    with_tests = "--tests" in args
    tier = "quick"
    args = [a for a in args if a != "--tests"]
    cs = load()
    if args:
        cs = [c for c in cs if c["name"] in args or any(p in args for p in c["props"])]
    missed = 0
    for c in cs:
        st = run_one(c, with_tests, tier)
        print("%-34s %s" % (c["name"], st), flush=True)
        if not st.startswith("CAUGHT"):
            missed += 1
    print("%d canaries, %d not caught" % (len(cs), missed))
    return 1 if missed else 0


if __name__ == "__main__":
    sys.exit(main())
