#!/usr/bin/env python3
"""Regenerate /verif/MANIFEST.json from the table below (checks that exist under vf/checks are claimed)."""
import json
import os

HERE = os.path.dirname(os.path.dirname(os.path.abspath(__file__)))

T = {
 "C01": ("exploration", "5/C01", "reference-model monitor: generated programs run on the real API, JSON file read back, parser output vs interpreter ground truth",
         "Holds on the generated logging programs explored (thousands per run, all API styles, remote sub-tasks, BaseException failures, three file modes); a runtime oracle, not a proof.",
         "Trusts the interpreter's ground-truth bookkeeping and the stdlib json decoder; values limited to the JSON-native domain; timestamps/uuids not compared."),
 "C02": ("exploration", "5/C02", "offline tape checker (uniqueness, 1..n contiguity, allocation order, end-is-last) under destination fault masks, await-point and thread schedules, chains of destinations that log, and a logging signal handler delivered at every eval-breaker point inside the logging calls (sys.monitoring INSTRUCTION/PY_START events)",
         "Holds on every tape recorded by a healthy destination over the explored programs, fault masks and schedules.",
         "Programs are well-formed (no logging into finished actions; each id continued once); order rule applied to first use of a position, and not judged in the signal-handler part."),
 "C03": ("exploration", "5/C03", "exactly-once / truthful-end tape checker plus exception identity at the with-boundary, extractor registrations enumerated along MROs and made concurrently under the line-granular scheduler (all 1-preemption schedules, switch points also after call instructions)",
         "Holds for every (exception class x nesting depth x style) of the matrix and the random programs explored, including BaseException classes and raising extractors.",
         "Extractors return dicts and raise Exception subclasses; fork-per-case isolates the global extractor registry."),
 "C04": ("exploration", "5/C04", "current_action() probes against a shadow stack before/inside/after every scoping construct (also on other threads, in forked children and in hand-written scenarios); parsed tape vs ground truth",
         "Holds on all probes (hundreds of thousands per run) over random nestings up to depth 8 with exceptional exits, re-entry and generator-held blocks.",
         "Generator-held blocks are closed under proper nesting only (documented use)."),
 "C05": ("exploration", "5/C05", "context probes inside every thread / asyncio task under a line-granular thread scheduler (sys.monitoring) and an await-point scheduler; schedule-independence of the parsed forest",
         "Holds on the interleavings explored (all 1-preemption schedules at statement granularity for small programs, sampled deeper ones, seeded await orders).",
         "Programs are structured (work joined before the enclosing action ends); CPython statement granularity."),
 "C06": ("exploration", "5/C06", "placement checker on merged logs of threads and real child processes in several merge orders; at-most-once monitor for preserve_context under all 1-preemption schedules; multi-hop chains as one-thread schedules (lock held across a hop = deadlock verdict); fork while another thread is inside the file destination",
         "Holds on the explored hand-off programs (multi-hop, bytes/text ids, fork and subprocess children) and race schedules.",
         "Each serialized id is continued once; merge orders sampled plus worst cases."),
 "C07": ("fault_enumeration", "5/C07", "API-boundary monitor (call returned normally / same exception object / same return object) under hostile values and masked failing serializers, extractors, destinations",
         "Holds on every monitored API call of the explored programs with faults hitting every message kind (reach-checked).",
         "Injected faults are Exception subclasses; extractors return dicts."),
 "C08": ("fault_enumeration", "5/C08", "per-destination accounting (identical offer sequences, one report per failed non-report delivery, none for reports) incl. exhaustive small fault masks; the same accounting under line-granular thread schedules, for re-delivered start-up buffers, for destinations that log re-entrantly (one-thread schedule: self-deadlock = violation) and for reports cut short by a non-Exception",
         "Holds for all enumerated masks (D destinations x first K calls), the sampled masks/programs/schedules and the re-entrant / interrupted-report scenarios; bounded recursion checked with 1000-message storms.",
         "Destinations raise Exception subclasses (one scenario lets a destination raise a non-Exception while it is offered a report); under threads only per-destination sets, per-thread order and report counts are judged."),
 "C09": ("exploration", "5/C09", "order-independence / exact-completeness checker on parser results: all permutations and subsets of small real tasks, sampled orders and subsets of large ones",
         "Exhaustive over permutations and subsets of every generated task with <=6 (quick) / <=7 (thorough) messages; sampled beyond.",
         "Message sets come from well-formed tasks produced by really running programs."),
 "C10": ("exploration", "5/C10", "recording file object (write/flush tape) + independent stdlib JSON decoder, binary vs text differential; file objects whose write/flush raise; a share of the messages encoded in a fresh interpreter without orjson",
         "Holds on every message rendered (tens of thousands per run) over boundary numbers, escape corners, nesting and rich types.",
         "Value domain bounded by orjson's own limits; stdlib json is the reference decoder."),
 "C11": ("fault_enumeration", "5/C11", "post-mortem checker on the file left by a SIGKILLed child vs its acknowledgements; crash injected at every file operation phase",
         "Complete enumeration of (file operation, phase) crash points per program plus random external SIGKILLs; process death only.",
         "Kernel keeps written data of a dead process; power loss out of scope."),
 "C12": ("exploration", "5/C12", "sequential reference model of the destination registry over random op histories; no-loss/no-dup checker for the hand-over under line-granular schedules (switch points also between a call instruction and the use of its result; arbitrarily slow replay in logical time); a logging signal handler delivered at every eval-breaker point of the start-up phase and the first add_destinations",
         "Holds on the explored histories and on all 1-preemption schedules of logger thread(s) vs first add_destinations.",
         "CPython statement granularity; the hand-over race found here is fixed in /repo (KNOWN_FINDINGS: fixed); equal-comparing destination objects are never passed to remove_destination."),
 "C13": ("fault_enumeration", "5/C13", "serializer call counters + delivered-value check + caller-data snapshot diff + report placement check, failing-serializer subsets enumerated by mask",
         "Holds on every (message kind x serializer kinds x failing subset / missing field) case explored.",
         "Serializers raise Exception subclasses or, in one failing case in eight, KeyboardInterrupt/SystemExit/GeneratorExit/an application BaseException class; Logger.write with explicit serializer uses the library's own serializer object."),
 "C14": ("exploration", "5/C14", "independent acceptance predicate vs MemoryLogger.validate()/check_for_errors(); default-logger identity and behavioural probe after decorated unittest runs",
         "Holds on all conforming logs and single-point deviations generated, and on all (outcome x assertion x body x decorator) test runs.",
         "'Reported' = an exception from validate()/check_for_errors(); unittest semantics for cleanups."),
 "C15": ("exploration", "5/C15", "context probes inside generator bodies and in drivers; transparency differential vs the undecorated generator; clean-up probes of generators abandoned in reference cycles and finalised by the cyclic collector from other contexts",
         "Holds on the explored bodies x driver scripts (send/throw/close, interleaved generators, surrounding actions).",
         "Twisted absent: the generator wrapper itself is monitored, not inlineCallbacks on top. One known finding (gc-finalises-generator-before-wrapper) is attributed by input class."),
 "C16": ("exploration", "5/C16", "invariant evaluated under the logger's own lock at every release + final-state alignment check under line-granular schedules (incl. a slow lock holder with logical lock timeouts, the production Logger, two json_default functions without orjson); torn-line checker on a shared file under stress",
         "Holds on all 1-preemption schedules at statement granularity of the output layer plus sampled deeper ones, and on the stress runs.",
         "CPython statement granularity; intra-statement atomicity is CPython's."),
 "C17": ("exploration", "5/C17", "differential monitor: LoggedAction/LoggedMessage helpers vs interpreter ground truth and vs parser trees",
         "Holds on the explored captured programs (repeated types at several depths, remote sub-tasks, failed actions).",
         "All actions finished before helpers are used."),
 "C18": ("exploration", "5/C18", "differential monitor decorated vs undecorated call + start-message check against Python's own argument binding",
         "Holds on the explored signatures x argument lists x options except for the listed known findings (reported as KNOWN-FINDING).",
         "Reference binding = locals observed by the undecorated function."),
 "C19": ("exploration", "5/C19", "producer/consumer history checker (exactly-once, FIFO, single foreign thread, stop barrier, offers never wait) under line-granular schedules with logical timeouts and Twisted stubbed; signal-handler offers in a forked child under OS scheduling",
         "Holds on all 1-preemption schedules of producers/reader/stop and sampled deeper ones, with destination fault masks and start/stop cycles.",
         "twisted is absent: Service and deferToThreadPool are minimal stand-ins."),
 "C20": ("exploration", "5/C20", "renderer completeness checker (independent re-parse of compact/pretty output) + CLI stream monitor in subprocesses",
         "Holds on every message rendered and every mixed stream piped through the real entry points.",
         "Field names without whitespace or '='; UTF-8 standard streams."),
}

NA_REASON = "check not built yet (build in progress); see DESIGN.md"


def main():
    checks = []
    na = []
    for pid in sorted(T):
        level, ref, technique, text, note = T[pid]
        if os.path.exists(os.path.join(HERE, "vf", "checks", pid.lower() + ".py")):
            checks.append({
                "property_id": pid,
                "quick_cmd": "./check %s --tier quick" % pid,
                "thorough_cmd": "./check %s --tier thorough" % pid,
                "evidence_file": "evidence/%s.json" % pid,
                "replay_cmd_template": "./check %s --replay {path}" % pid,
                "engine": "vf",
                "level_claimed": {"category": level, "text": text, "design_ref": "DESIGN.md section " + ref},
                "level_note": note,
                "technique": "runtime monitoring: " + technique,
            })
        else:
            na.append({"property_id": pid, "reason": NA_REASON})
    m = {
        "version": 1,
        "setup_cmd": "./setup.sh",
        "hooks": {
            "guard": "ELIOT_VERIF",
            "enable": "no in-repo hooks exist: checks import /repo's working tree (VERIF_REPO, default /repo) in a fresh process; sys.monitoring and "
                      "stdlib factory replacement provide the observation points",
            "baseline_off_cmd": "cd /repo && /venv/bin/python -m pytest -ra -q -p no:cacheprovider --timeout=900 --continue-on-collection-errors",
            "source_commits": [],
            "add_only": True,
        },
        "engines": [{"name": "vf", "path": "vf/", "serves_properties": [c["property_id"] for c in checks],
                     "kind_free_text": "runtime monitors: generated workloads on the real code, recorded tapes/histories, offline oracles, "
                                       "sys.monitoring line scheduler (switch points also after call instructions), await-point scheduler, signal-handler re-entrancy explorer (sys.monitoring INSTRUCTION/PY_START events), crash injector, fault masks"}],
        "checks": checks,
        "not_applicable": na,
        "notes": "Exit codes: 0 held on what was observed, 1 VIOLATION, 2 INCONCLUSIVE (watchdog / reach counter). KNOWN_FINDINGS.json lists genuine "
                 "defects (known / fixed). tools/canary.py re-checks that seeded property-breaking edits are caught.",
    }
    with open(os.path.join(HERE, "MANIFEST.json"), "w") as f:
        json.dump(m, f, indent=1)
        f.write("\n")
    print("claimed:", [c["property_id"] for c in checks])
    print("not yet:", [n["property_id"] for n in na])


if __name__ == "__main__":
    main()
