#!/usr/bin/env python3
"""tools/rows.py <needs.json> : copy the 'needs' texts into seeded/<name>/meta.json and print one DESIGN section-10.5 table row per
change (name | what it needs in order to manifest | quick checks that reported a VIOLATION in the last tools/seeded.py run)."""
import json, os, sys
here = os.path.dirname(os.path.dirname(os.path.abspath(__file__)))
needs = json.load(open(sys.argv[1]))
for name in sorted(needs):
    mp = os.path.join(here, "seeded", name, "meta.json")
    if not os.path.exists(mp):
        continue
    m = json.load(open(mp))
    m["needs"] = needs[name]
    json.dump(m, open(mp, "w"), indent=1)
    res = m.get("ran", {}).get("checks_quick", {})
    caught = [k for k, v in res.items() if v.get("exit") == 1]
    print("| %s | %s | %s |" % (name, needs[name], ", ".join(caught) if caught else "- (not caught)"))
