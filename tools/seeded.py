#!/usr/bin/env python3
"""
Evaluate independently written property-breaking changes kept under /verif/seeded/<name>/ (patch.diff + demo.py).

usage: tools/seeded.py import <property> <src dir with patch.diff demo.py notes.md> <name>   copy into /verif/seeded/<name>/
       tools/seeded.py run [--tests] [--tier quick|thorough] [name ...]                       confirm + run the owning checks

For each mutant: a scratch copy of /repo (outside /repo and /verif) gets the patch (git apply); the demonstration must
fail on the copy and pass on /repo; with --tests the repository's own suite is run on the copy and compared with
/root/.vp/BASELINE.json; then the checks listed in meta.json run against the copy (VERIF_REPO). meta.json is updated.
"""
import json
import os
import shutil
import subprocess
import sys
import tempfile

HERE = os.path.dirname(os.path.abspath(__file__))
VERIF = os.path.dirname(HERE)
SEEDED = os.path.join(VERIF, "seeded")
REPO = "/repo"


def sh(cmd, **kw):
    return subprocess.run(cmd, capture_output=True, text=True, **kw)


def do_import(prop, src, name):
    dst = os.path.join(SEEDED, name)
    os.makedirs(dst, exist_ok=True)
    for f in ("patch.diff", "demo.py", "notes.md"):
        if os.path.exists(os.path.join(src, f)):
            shutil.copy(os.path.join(src, f), os.path.join(dst, f))
    meta = {"property": prop, "checks": [prop], "origin": "written by a sub-agent that was given only the property text and a scratch worktree",
            "needs": "", "ran": {}}
    mp = os.path.join(dst, "meta.json")
    if os.path.exists(mp):
        old = json.load(open(mp))
        old.update({k: v for k, v in meta.items() if k not in old})
        meta = old
    json.dump(meta, open(mp, "w"), indent=1)
    print("imported", dst)


def run_one(name, with_tests, tier, no_checks=False):
    d = os.path.join(SEEDED, name)
    meta = json.load(open(os.path.join(d, "meta.json")))
    tmp = tempfile.mkdtemp(prefix="vf-seeded-")
    out = {}
    try:
        dst = os.path.join(tmp, "repo")
        shutil.copytree(REPO, dst, ignore=shutil.ignore_patterns(".git", "__pycache__", "*.pyc", "docs", "benchmarks", "presentations", "MUTANTS"))
        r = sh(["git", "apply", "--unsafe-paths", "--directory=" + dst, os.path.join(d, "patch.diff")], cwd="/")
        if r.returncode != 0:
            r = sh(["patch", "-p1", "-i", os.path.join(d, "patch.diff")], cwd=dst)
        out["patch_applies"] = r.returncode == 0
        if r.returncode != 0:
            out["patch_error"] = (r.stdout + r.stderr)[-400:]
            return out
        env = dict(os.environ, PYTHONWARNINGS="ignore")
        clean = os.path.join(tmp, "clean")  # an unpatched copy, so that a demo writing into its cwd cannot touch /repo
        shutil.copytree(REPO, clean, ignore=shutil.ignore_patterns(".git", "__pycache__", "*.pyc", "docs", "benchmarks", "presentations", "MUTANTS"))

        def run_demo(root):
            # demonstrations were written inside <tree>/MUTANTS/m<k>/ and find the tree they test relative to their own location,
            # through the current directory, PYTHONPATH or ELIOT_ROOT: reproduce that layout
            ddir = os.path.join(root, "MUTANTS", "m")
            os.makedirs(ddir, exist_ok=True)
            shutil.copy(os.path.join(d, "demo.py"), os.path.join(ddir, "demo.py"))
            return sh(["/venv/bin/python", os.path.join(ddir, "demo.py")], env=dict(env, PYTHONPATH=root, ELIOT_ROOT=root), cwd=root, timeout=900)
        r1 = run_demo(dst)
        r0 = run_demo(clean)
        out["demo_on_mutant_exit"] = r1.returncode
        out["demo_on_repo_exit"] = r0.returncode
        out["demo_confirms"] = r1.returncode != 0 and r0.returncode == 0
        out["demo_mutant_tail"] = (r1.stdout + r1.stderr).strip().splitlines()[-2:]
        if with_tests:
            r = sh(["python3", os.path.join(HERE, "baseline.py"), dst])
            out["own_tests"] = r.stdout.strip().splitlines()[:3]
            out["own_tests_pass"] = r.returncode == 0
        if no_checks:
            out["caught"] = meta.get("ran", {}).get("caught")
            return out
        res = {}
        for prop in meta.get("checks", [meta["property"]]):
            env2 = dict(os.environ, VERIF_REPO=dst, VERIF_EVIDENCE_DIR=os.path.join(tmp, "ev"))
            r = sh([os.path.join(VERIF, "check"), prop, "--tier", tier], env=env2, timeout=7200)
            line = [l for l in r.stdout.splitlines() if l.startswith(("VIOLATION", "INCONCLUSIVE", "HELD"))]
            first = [l.strip() for l in r.stdout.splitlines() if l.strip().startswith("violation[")][:2]
            res[prop] = {"exit": r.returncode, "verdict": (line[-1] if line else (r.stdout + r.stderr)[-300:])[:200], "first": [f[:300] for f in first]}
        out["checks_" + tier] = res
        out["caught"] = any(v["exit"] == 1 for v in res.values())
        return out
    finally:
        shutil.rmtree(tmp, ignore_errors=True)
        meta.setdefault("ran", {}).update(out)
        json.dump(meta, open(os.path.join(d, "meta.json"), "w"), indent=1)


def main():
    a = sys.argv[1:]
    if a and a[0] == "import":
        return do_import(a[1], a[2], a[3])
    a = a[1:] if a and a[0] == "run" else a
    with_tests = "--tests" in a
    no_checks = "--no-checks" in a
    a = [x for x in a if x != "--no-checks"]
    tier = "quick"
    if "--tier" in a:
        tier = a[a.index("--tier") + 1]
        a = [x for x in a if x not in ("--tier", tier)]
    a = [x for x in a if x != "--tests"]
    names = a or sorted(os.listdir(SEEDED))
    missed = 0
    for n in names:
        if not os.path.exists(os.path.join(SEEDED, n, "meta.json")):
            continue
        o = run_one(n, with_tests, tier, no_checks)
        st = "CAUGHT" if o.get("caught") else "MISSED"
        if not o.get("caught"):
            missed += 1
        print("%-28s %s demo_confirms=%s tests=%s %s" % (n, st, o.get("demo_confirms"), o.get("own_tests_pass", "-"),
                                                       {k: (v["exit"], v["first"][:1]) for k, v in o.get("checks_" + tier, {}).items()}), flush=True)
    print("%d seeded changes, %d not caught" % (len(names), missed))


if __name__ == "__main__":
    main()
