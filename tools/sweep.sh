#!/bin/sh
# tools/sweep.sh <tier> <seed...> : run every claimed check for each seed, print the ones that do not exit 0.
# Evidence is written to a scratch directory so that /verif/evidence keeps the last registered run.
tier=$1; shift
cd "$(dirname "$0")/.."
ids=$(python3 -c "import json;print(' '.join(c['property_id'] for c in json.load(open('MANIFEST.json'))['checks']))")
[ -n "$ONLY" ] && ids="$ONLY"
out=$(mktemp -d /tmp/vf-sweep-XXXXXX)
bad=0
for seed in "$@"; do
  for id in $ids; do
    VERIF_SEED=$seed VERIF_EVIDENCE_DIR=$out ./check $id --tier $tier > $out/$id-$seed.log 2>&1
    rc=$?
    if [ $rc -ne 0 ]; then bad=$((bad+1)); echo "seed=$seed $id exit=$rc: $(grep -E 'VIOLATION|INCONCLUSIVE' $out/$id-$seed.log | head -2)"; cp $out/$id-$seed.log /tmp/sweep-fail-$id-$seed.log; fi
  done
  echo "seed $seed done"
done
echo "sweep finished: $bad failing runs"
rm -rf "$out"
