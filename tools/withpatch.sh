#!/bin/sh
# usage: tools/withpatch.sh <seeded name> <check id> [check args...]   - run a check against a scratch copy of /repo with the seeded patch applied
set -e
name=$1; shift
tmp=$(mktemp -d /tmp/vf-wp-XXXXXX)
trap 'rm -rf "$tmp"' EXIT
mkdir "$tmp/repo"
rsync -a --exclude .git --exclude docs --exclude benchmarks /repo/ "$tmp/repo/"
(cd "$tmp/repo" && patch -p1 -s < /verif/seeded/$name/patch.diff)
VERIF_REPO="$tmp/repo" VERIF_EVIDENCE_DIR="$tmp/ev" /verif/check "$@" || true
if [ -n "$SHOW" ]; then python3 -c "
import json,glob
for f in sorted(glob.glob('$tmp/ev/replays/*.json'))[:1]:
    d=json.load(open(f)); print(json.dumps(d.get('detail'))[:int('$SHOW')])"; fi
