"""C01 - emitted logs parse back to exactly the executed tree (reference-model monitor)."""

import json
import os
import random
import tempfile

import eliot
from eliot import FileDestination, add_destinations, remove_destination
from eliot.parse import Parser

from vf import gen, oracles
from vf.interp import Interp
from vf.runner import h

ID = "C01"
LEVEL = "exploration"
RULE = ("programs from vf.gen.ProgGen (all action/message API styles, typed fields, tracebacks, remote sub-tasks via "
        "serialize_task_id/continue_task/preserve_context, failures by Exception and BaseException classes crossing 0-5 "
        "enclosing actions) are run against the real API with a FileDestination on a real file (binary, unbuffered binary, "
        "text); lines are decoded with the stdlib json module and parsed with Parser.parse_stream; the parsed forest must "
        "equal the interpreter's ground-truth forest. Part of the calls name an explicit Logger object or use the camelCase aliases, part of "
        "the Message objects are first written to a separate sink logger; a share of the programs is a chain of 20-40 nested actions or one "
        "action with 100-400 children, runs with global fields, or has a second file destination joining midway. non-trivial = depth>=2, >=2 API styles and >=1 failed action; "
        "distinct by hash of the program shape")
ASSUMPTIONS = ["timestamps and uuids are not compared", "field values restricted to the JSON-native domain",
               "no failing serializers or destinations (owned by C07/C08/C13)"]
BATCH = 50


def plan(tier, seed):
    n = 12000 if tier == "quick" else 200000
    specs = [{"seed": seed, "lo": i, "hi": min(n, i + BATCH), "tier": tier} for i in range(0, n, BATCH)]
    k = 4 if tier == "quick" else 30
    specs += [{"seed": seed, "lo": 10**7 + i * BATCH, "hi": 10**7 + (i + 1) * BATCH, "tier": tier, "interpreter": "optimize"} for i in range(k)]  # python -O
    specs += [{"seed": seed, "lo": 2 * 10**7 + i * BATCH, "hi": 2 * 10**7 + (i + 1) * BATCH, "tier": tier, "interpreter": "no_orjson"} for i in range(k)]
    return specs


def deep_or_wide(rng, g):
    """Shapes the random generator rarely reaches: a chain of 20-40 nested actions, or one action with 100-400 children."""
    if rng.random() < 0.5:
        node = g.msg()
        for _ in range(rng.randint(20, 40)):
            a = g.act(99, force_style=rng.choice(["with", "ctx_finish", "run_finish"]))
            a["children"] = [g.msg(), node] if rng.random() < 0.5 else [node]
            a["outcome"] = "ok"
            a.pop("exc", None)
            node = a
        return [node]
    a = g.act(99, force_style="with")
    a["outcome"] = "ok"
    a.pop("exc", None)
    a["children"] = [g.msg() for _ in range(rng.choice([rng.randint(100, 160), rng.randint(250, 270), rng.randint(300, 400)]))]
    return [a]


def one_program(seed, i, tier, res, gfields=None, extractors=None):
    rng = random.Random("%s:C01:%d" % (seed, i))
    big = rng.random() < (0.3 if tier == "thorough" else 0.1)
    g = gen.ProgGen(rng, max_depth=rng.choice([5, 6, 8]) if big else rng.choice([3, 4, 5]), max_nodes=150 if big else 40,
                    value_depth=rng.choice([1, 2, 3]), defer_p=0.3, extra_styles=("pre_created", "ctx_finish_inside"), reseed_p=0.03, reserved_field_p=0.1, status_field_p=0.03,
                    msg_styles=gen.MSG_STYLES + ["stdlib"])
    prog = g.program()
    shape = "random"
    if rng.random() < 0.03:
        g.budget = 10**6
        prog = deep_or_wide(rng, g)
        shape = "deep-or-wide"
    mode = rng.choice(["ab", "ab0", "a"])
    fd, path = tempfile.mkstemp(prefix="vf-c01-")
    os.close(fd)
    try:
        if mode == "ab":
            f = open(path, "ab")
        elif mode == "ab0":
            f = open(path, "ab", buffering=0)
        else:
            f = open(path, "a", encoding="utf-8", newline="\n")
        dest = FileDestination(file=f)
        add_destinations(dest)
        it = Interp()
        it.allow_defer = True
        it.explicit_loggers = True
        it.stdlib_tb = True
        if extractors is not None:
            it.extractors = extractors
            res["counters"]["programs_with_exception_extractors"] = res["counters"].get("programs_with_exception_extractors", 0) + 1
        # a second file destination joins in the middle of the program: it must receive exactly the rest
        import io
        late_file = io.BytesIO()
        late = FileDestination(file=late_file)
        join_at = rng.randrange(len(prog) + 1) if rng.random() < 0.3 else None
        mark = [None]
        try:
            if join_at is None:
                forest = it.run(prog)
            else:
                it.exec_children(prog[:join_at], None, None, top=True)
                f.flush()
                mark[0] = os.path.getsize(path)
                add_destinations(late)
                forest = it.run(prog[join_at:])
        finally:
            remove_destination(dest)
            if mark[0] is not None:
                remove_destination(late)
            f.close()
        with open(path, "rb") as rf:
            raw = rf.read()
    finally:
        os.unlink(path)
    problems = [v["msg"] for v in it.violations]
    if mark[0] is not None and late_file.getvalue() != raw[mark[0]:]:
        problems.append("a file destination added in the middle of the program received %d bytes, the first file got %d bytes from then on (contents %s)" % (
            len(late_file.getvalue()), len(raw) - mark[0], "differ" if len(late_file.getvalue()) == len(raw) - mark[0] else "differ in length"))
    lines = raw.split(b"\n")
    if lines[-1] != b"":
        problems.append("file does not end with a newline")
    msgs = []
    for ln in lines[:-1]:
        try:
            m = json.loads(ln.decode("utf-8"))
            if gfields:
                # global fields set for this process are on every message; they are not part of what the program logged
                for k, v in gfields.items():
                    if k not in m or m[k] != v:
                        problems.append("message %s lacks global field %s=%r" % (m.get("task_level"), k, v))
                        break
                    del m[k]
            msgs.append(m)
        except Exception as e:
            problems.append("line is not valid UTF-8 JSON: %r (%r)" % (ln[:200], e))
    try:
        tasks = list(Parser.parse_stream(msgs))
    except BaseException as e:
        problems.append("Parser.parse_stream raised %r" % (e,))
        tasks = []
    problems.extend(oracles.compare_forest(forest, tasks))
    st = gen.prog_stats(prog)
    res["evals"] += 1
    res["counters"]["messages_parsed"] = res["counters"].get("messages_parsed", 0) + len(msgs)
    res["counters"]["mode_" + mode] = res["counters"].get("mode_" + mode, 0) + 1
    res["counters"]["shape_" + shape] = res["counters"].get("shape_" + shape, 0) + 1
    res["counters"]["late_destination_joined"] = res["counters"].get("late_destination_joined", 0) + int(mark[0] is not None)
    res["counters"]["programs_with_global_fields"] = res["counters"].get("programs_with_global_fields", 0) + int(bool(gfields))
    res["counters"]["failed_actions"] = res["counters"].get("failed_actions", 0) + st["failed"]
    res["counters"]["base_exception_failures"] = res["counters"].get("base_exception_failures", 0) + st["basefail"]
    res["counters"]["context_probes"] = res["counters"].get("context_probes", 0) + it.probes
    for k, v in it.counters.items():
        res["counters"].setdefault("api", {})
        res["counters"]["api"][k] = res["counters"]["api"].get(k, 0) + v
    if st["depth"] >= 2 and len(st["styles"]) >= 2 and st["failed"] >= 1:
        res["nontrivial"].append(h(gen.prog_shape(prog)))
    if res.get("sample") is None and st["nodes"] >= 4 and st["nodes"] <= 9:
        res["sample"] = {"program": prog, "mode": mode, "lines": len(msgs)}
    if problems:
        res["violations"].append({"msg": problems[0], "mech": None,
                                  "detail": {"case": i, "problems": problems[:10], "program": prog}})


def run_case(spec):
    res = {"evals": 0, "nontrivial": [], "counters": {}, "violations": [], "sample": None}
    gfields = None
    if (spec["lo"] // BATCH) % 3 == 2:
        # a third of the processes have global fields set throughout
        from eliot import add_global_fields
        gfields = {"g_host": "h\u00e9st", "g_pid": 4242, "g_tags": ["a", {"b": None}]}
        add_global_fields(**gfields)
    extractors = None
    if (spec["lo"] // BATCH) % 2 == 1:
        # half of the processes register exception extractors (for Exception- and BaseException-derived classes alike): their
        # fields are field values of the failed end / traceback message like any other
        extractors = register_extractors(random.Random("%s:C01:ext:%d" % (spec["seed"], spec["lo"])))
    for i in range(spec["lo"], spec["hi"]):
        one_program(spec["seed"], i, spec["tier"], res, gfields, extractors)
    return res


EXT_CLASSES = ["SystemExit", "KeyboardInterrupt", "CancelledError", "GeneratorExit", "UserBase", "ValueError", "UserError", "LookupError", "RuntimeError"]


def register_extractors(rng):
    from eliot import register_exception_extractor
    from vf import excs
    classmap = dict(excs.POOL, LookupError=LookupError)
    registry = {}
    for name in EXT_CLASSES:
        if rng.random() < 0.6:
            cls = classmap[name]
            registry[cls] = name
            register_exception_extractor(cls, (lambda e, name=name: {"ext_" + name: [name, str(getattr(e, "code", None))], "ext_by": name}))

    def expect_fields(exc):
        for klass in type(exc).__mro__:
            name = next((n for k, n in registry.items() if k is klass), None)  # (by identity: a class object need not be hashable)
            if name is not None:
                return {"ext_" + name: [name, str(getattr(exc, "code", None))], "ext_by": name}
            if klass is OSError:
                return {"errno": exc.errno}
        return {}
    return expect_fields


def finalize(agg, tier):
    if agg["counters"].get("messages_parsed", 0) < 1000:
        return "fewer than 1000 messages were parsed"
    return None
