"""C02 - unique, contiguous placement (offline checker over a healthy destination's tape)."""

import random

from eliot import add_destinations, remove_destination

from vf import faults, gen, oracles
from vf.interp import Interp
from vf.runner import h
from vf.tape import MaskedDestination, Recorder, Tape

ID = "C02"
LEVEL = "exploration"
RULE = ("part 'faults': ProgGen programs (no failing serializers) run single-threaded with one healthy recording destination "
        "and 0-3 masked faulty destinations whose failure reports are inserted into the same trees; part 'async': coroutine "
        "programs under the await-point scheduler; part 'threads': multi-thread programs under OS scheduling with "
        "switchinterval 1e-6; part 'extractors': programs (incl. finish() inside the action's own context() and blocks entered under another "
        "action than they were created under) with exception extractors of which some raise, so eliot:traceback messages are inserted next "
        "to end messages. The healthy destination's tape (plus serialize_task_id reservation events) must satisfy: "
        "well-formed metadata, run-wide unique (task_uuid, task_level), positions exactly 1..n per action with start at 1 "
        "and end at n, first uses in increasing order, end message last. non-trivial = >=1 destination-failure report "
        "inserted into a tree of depth >=2, or >=2 concurrently active contexts; distinct by hash of (program shape, masks)")
ASSUMPTIONS = ["programs are well-formed: no logging into finished actions, each serialized id continued once",
               "emission order is compared with position order on first use (allocation), since a remote child's messages "
               "are legitimately emitted after the reservation"]
BATCH = 100


def plan(tier, seed):
    n = 20000 if tier == "quick" else 200000
    specs = [{"part": "faults", "seed": seed, "lo": i, "hi": min(n, i + BATCH), "tier": tier} for i in range(0, n, BATCH)]
    from vf import conc
    specs += conc.c02_specs(tier, seed)
    m = 3000 if tier == "quick" else 30000
    specs += [{"part": "extractors", "seed": seed, "i": i} for i in range(m)]
    return specs


def tape_entries(tape, dest="rec"):
    out = []
    for e in tape.entries:
        if e["k"] == "msg" and e["dest"] == dest:
            out.append(("msg", e["m"]))
        elif e["k"] == "reserved" and e.get("tid"):
            uuid, lvl = e["tid"].split("@")
            out.append(("reserve", uuid, [int(x) for x in lvl.split("/") if x]))
    return out


def one_faults(seed, i, tier, res):
    rng = random.Random("%s:C02:%d" % (seed, i))
    g = gen.ProgGen(rng, max_depth=rng.choice([3, 4, 5]), max_nodes=rng.choice([15, 40]), value_depth=1, reseed_p=0.05, reserved_field_p=0.15)
    prog = g.program()
    st = gen.prog_stats(prog)
    tape = Tape()
    dests = [Recorder(tape, "rec")]
    nfaulty = rng.choice([0, 1, 1, 2, 3])
    masks = []
    for j in range(nfaulty):
        desc, pred = faults.gen_mask(rng, st["nodes"] * 2)
        ename, fac = faults.exc_factory(rng)
        masks.append((desc, ename))
        dests.insert(rng.randint(0, len(dests)), MaskedDestination(tape, "bad%d" % j, pred, fac))
    add_destinations(*dests)
    it = Interp(tape=tape)
    it.explicit_loggers = True
    try:
        it.run(prog)
    finally:
        for d in dests:
            remove_destination(d)
    entries = tape_entries(tape)
    problems = oracles.check_placement(entries)
    # only API-call violations matter here (context probes belong to C04)
    problems += [v["msg"] for v in it.violations if v["msg"].startswith("eliot API call")]
    reports = [m for m in tape.msgs("rec") if m.get("message_type") == "eliot:destination_failure"]
    deep_reports = [m for m in reports if len(m["task_level"]) >= 2]
    c = res["counters"]
    c["messages_checked"] = c.get("messages_checked", 0) + len(entries)
    c["failure_reports_seen"] = c.get("failure_reports_seen", 0) + len(reports)
    c["failure_reports_inside_actions"] = c.get("failure_reports_inside_actions", 0) + len(deep_reports)
    c["reservations"] = c.get("reservations", 0) + sum(1 for e in entries if e[0] == "reserve")
    c["faulty_destinations"] = c.get("faulty_destinations", 0) + nfaulty
    res["evals"] += 1
    if deep_reports and st["depth"] >= 2:
        res["nontrivial"].append(h([gen.prog_shape(prog), masks]))
    if res.get("sample") is None and 3 <= st["nodes"] <= 7 and reports:
        res["sample"] = {"part": "faults", "program": prog, "masks": masks,
                         "tape": [{k: m.get(k) for k in ("task_level", "message_type", "action_type", "action_status")} for m in tape.msgs("rec")]}
    if problems:
        res["violations"].append({"msg": problems[0], "mech": None,
                                  "detail": {"case": i, "problems": problems[:10], "program": prog, "masks": masks}})


class _ExtractorBoom(Exception):
    pass


def one_extractors(spec, res):
    """Exception extractors (some raising) add eliot:traceback messages next to end messages: placement must still hold."""
    from eliot import register_exception_extractor
    from vf import excs
    rng = random.Random("%s:C02:x:%d" % (spec["seed"], spec["i"]))
    nraise = 0
    for name in ["Exception", "OSError", "LookupError", "ValueError", "KeyError", "UserError", "MidUserError", "RuntimeError", "BaseException"]:
        if rng.random() < 0.4:
            raising = rng.random() < 0.6
            nraise += raising
            cls = dict(excs.POOL, Exception=Exception, LookupError=LookupError, BaseException=BaseException)[name]

            def ext(e, raising=raising, name=name):
                if raising:
                    raise _ExtractorBoom("extractor for %s failed" % name)
                return {"ext": name}
            register_exception_extractor(cls, ext)
    g = gen.ProgGen(rng, max_depth=rng.choice([2, 3, 4]), max_nodes=20, value_depth=0, fail_p=0.6, allow_remote=rng.random() < 0.3,
                    extra_styles=("ctx_finish_inside", "pre_created"))
    prog = g.program()
    tape = Tape()
    rec = Recorder(tape, "rec")
    add_destinations(rec)
    it = Interp(tape=tape)
    try:
        it.run(prog)
    finally:
        remove_destination(rec)
    entries = tape_entries(tape)
    problems = oracles.check_placement(entries)
    tbs = sum(1 for m in tape.msgs("rec") if m.get("message_type") == "eliot:traceback" and "extractor for" in str(m.get("reason")))
    c = res["counters"]
    c["extractor_runs"] = c.get("extractor_runs", 0) + 1
    c["extractor_failure_tracebacks_placed"] = c.get("extractor_failure_tracebacks_placed", 0) + tbs
    c["messages_checked"] = c.get("messages_checked", 0) + len(entries)
    res["evals"] += 1
    if tbs:
        res["nontrivial"].append(h(["x", gen.prog_shape(prog), nraise]))
    if problems:
        res["violations"].append({"msg": problems[0], "mech": None, "detail": {"part": "extractors", "case": spec["i"], "problems": problems[:8], "program": prog}})


def run_case(spec):
    res = {"evals": 0, "nontrivial": [], "counters": {}, "violations": [], "sample": None}
    if spec["part"] == "extractors":
        one_extractors(spec, res)
        return res
    if spec["part"] == "faults":
        for i in range(spec["lo"], spec["hi"]):
            one_faults(spec["seed"], i, spec["tier"], res)
    else:
        from vf import conc
        conc.c02_run(spec, res)
    return res


def finalize(agg, tier):
    c = agg["counters"]
    if c.get("failure_reports_inside_actions", 0) < 50:
        return "fewer than 50 failure reports landed inside actions"
    if c.get("extractor_failure_tracebacks_placed", 0) < 50:
        return "fewer than 50 extractor-failure tracebacks were placed"
    return None
