"""C02 - unique, contiguous placement (offline checker over a healthy destination's tape)."""

import random

from eliot import add_destinations, log_message, remove_destination, start_action

from vf import excs, faults, gen, oracles
from vf.interp import Interp
from vf.runner import h
from vf.tape import MaskedDestination, Recorder, Tape

ID = "C02"
LEVEL = "exploration"
RULE = ("part 'faults': ProgGen programs (no failing serializers) run single-threaded with one healthy recording destination "
        "and 0-3 masked faulty destinations whose failure reports are inserted into the same trees; part 'async': coroutine "
        "programs under the await-point scheduler; part 'threads': multi-thread programs under OS scheduling with "
        "switchinterval 1e-6; part 'extractors': programs (incl. finish() inside the action's own context() and blocks entered under another "
        "action than they were created under) with exception extractors of which some raise, so eliot:traceback messages are inserted next "
        "to end messages; part 'foreign': a `with start_action()` block entered in one contextvars.Context and left in another (generator holding the action "
        "across a yield, advanced via copy_context().run / a thread / an asyncio task and closed, thrown into or exhausted elsewhere; __enter__/__exit__ by hand), "
        "the ValueError a refused exit raises is caught and logging goes on inside the action B open in the closing context: everything emitted satisfies the "
        "placement invariants and what was logged inside B's block is placed in B; part 'badid': continue_task misused with malformed identifiers (bare task_uuid "
        "as str/bytes, empty, no '@', two '@') in try/except, once or twice, inside the task, on a thread or after its end: refused or not, what was emitted "
        "satisfies the invariants. The healthy destination's tape (plus serialize_task_id reservation events) must satisfy: "
        "well-formed metadata, run-wide unique (task_uuid, task_level), positions exactly 1..n per action with start at 1 "
        "and end at n, first uses in increasing order, end message last. non-trivial = >=1 destination-failure report "
        "inserted into a tree of depth >=2, or >=2 concurrently active contexts; distinct by hash of (program shape, masks). part 'ordered': deterministic single-thread scenarios in which eliot emits a message while handling another (a failure report during the replay of a start-up buffer held inside an open action; a healthy field serializer that logs): the accepting destination must still see level order (recorded findings); "
        "part 'chain': destinations that answer a message by logging the next one from inside their own call, chained 1..8 messages deep (error -> alert -> page -> ticket -> "
        "invoice -> ..., and a destination answering retry(n) with retry(n-1) down to 0), set off by a message, by an action's start message or by its end message, inside 1-3 open "
        "actions or in no action, logging directly or inside an action of their own, with or without a failing destination in between: the accepting destination registered before "
        "them must satisfy all placement rules, the one registered after them all but emission order, and every logging call that returned inside an open action is on both tapes "
        "(no position consumed and never emitted); "
        "part 'late': add_success_fields / addSuccessFields called after the action (succeeded or failed, action or task, with block or finish()) has finished - one indent too "
        "few, finish() then a late call, a callback firing in the parent, inside a sibling, after the parent ended or at the very end - below 0-3 open ancestors that go on logging: "
        "placement rules hold, every end message stays at its action's last position and nothing is emitted below a finished action (whether the late fields are dropped is not judged); "
        "part 'signals': a Python signal handler that itself logs (a message, a typed message, an action with a message inside, or serialize_task_id + message) is delivered in the main "
        "thread at EVERY point inside the program's logging calls at which CPython can run a handler - after each call instruction and at each function entry inside eliot/_action.py, "
        "_output.py, _message.py, _traceback.py, _errors.py (sys.monitoring INSTRUCTION/PY_START events; signal.raise_signal from the callback), one forked process per point, complete "
        "per program and handler kind: well-formed, unique (task_uuid, task_level), positions exactly 1..n with start at 1 and end at n (serialized ids included), every call that "
        "returned has its message on the tape once, no call raises (emission order is not judged in this part)")
ASSUMPTIONS = ["programs are well-formed: no logging into finished actions, each serialized id continued once",
               "emission order is compared with position order on first use (allocation), since a remote child's messages "
               "are legitimately emitted after the reservation"]
BATCH = 100


def plan(tier, seed):
    n = 20000 if tier == "quick" else 200000
    specs = [{"part": "faults", "seed": seed, "lo": i, "hi": min(n, i + BATCH), "tier": tier} for i in range(0, n, BATCH)]
    from vf import conc
    specs += conc.c02_specs(tier, seed)
    m = 3000 if tier == "quick" else 30000
    specs += [{"part": "extractors", "seed": seed, "i": i} for i in range(m)]
    q = 600 if tier == "quick" else 6000
    specs += [{"part": part, "seed": seed, "lo": i, "hi": min(q, i + 100)} for part in ("foreign", "badid") for i in range(0, q, 100)]
    w = 960 if tier == "quick" else 9600
    specs += [{"part": part, "seed": seed, "lo": i, "hi": min(w, i + 96)} for part in ("chain", "late") for i in range(0, w, 96)]
    specs += [{"part": "ordered", "seed": seed, "i": i} for i in range(8 if tier == "quick" else 40)]  # (one fresh process each: start-up buffer)
    specs += [{"part": "signals", "seed": seed, "i": i} for i in range(16 if tier == "quick" else 160)]
    return specs


def tape_entries(tape, dest="rec"):
    out = []
    for e in tape.entries:
        if e["k"] == "msg" and e["dest"] == dest:
            out.append(("msg", e["m"]))
        elif e["k"] == "reserved" and e.get("tid"):
            uuid, lvl = e["tid"].split("@")
            out.append(("reserve", uuid, [int(x) for x in lvl.split("/") if x]))
    return out


def one_faults(seed, i, tier, res):
    rng = random.Random("%s:C02:%d" % (seed, i))
    g = gen.ProgGen(rng, max_depth=rng.choice([3, 4, 5]), max_nodes=rng.choice([15, 40]), value_depth=1, reseed_p=0.05, reserved_field_p=0.15)
    prog = g.program()
    st = gen.prog_stats(prog)
    tape = Tape()
    dests = [Recorder(tape, "rec")]
    nfaulty = rng.choice([0, 1, 1, 2, 3])
    masks = []
    for j in range(nfaulty):
        desc, pred = faults.gen_mask(rng, st["nodes"] * 2)
        ename, fac = faults.exc_factory(rng)
        masks.append((desc, ename))
        dests.insert(rng.randint(0, len(dests)), MaskedDestination(tape, "bad%d" % j, pred, fac))
    add_destinations(*dests)
    it = Interp(tape=tape)
    it.explicit_loggers = True
    try:
        it.run(prog)
    finally:
        for d in dests:
            remove_destination(d)
    entries = tape_entries(tape)
    problems = oracles.check_placement(entries)
    # only API-call violations matter here (context probes belong to C04)
    problems += [v["msg"] for v in it.violations if v["msg"].startswith("eliot API call")]
    reports = [m for m in tape.msgs("rec") if m.get("message_type") == "eliot:destination_failure"]
    deep_reports = [m for m in reports if len(m["task_level"]) >= 2]
    c = res["counters"]
    c["messages_checked"] = c.get("messages_checked", 0) + len(entries)
    c["failure_reports_seen"] = c.get("failure_reports_seen", 0) + len(reports)
    c["failure_reports_inside_actions"] = c.get("failure_reports_inside_actions", 0) + len(deep_reports)
    c["reservations"] = c.get("reservations", 0) + sum(1 for e in entries if e[0] == "reserve")
    c["faulty_destinations"] = c.get("faulty_destinations", 0) + nfaulty
    res["evals"] += 1
    if deep_reports and st["depth"] >= 2:
        res["nontrivial"].append(h([gen.prog_shape(prog), masks]))
    if res.get("sample") is None and 3 <= st["nodes"] <= 7 and reports:
        res["sample"] = {"part": "faults", "program": prog, "masks": masks,
                         "tape": [{k: m.get(k) for k in ("task_level", "message_type", "action_type", "action_status")} for m in tape.msgs("rec")]}
    if problems:
        res["violations"].append({"msg": problems[0], "mech": None,
                                  "detail": {"case": i, "problems": problems[:10], "program": prog, "masks": masks}})


class _ExtractorBoom(Exception):
    pass


def one_extractors(spec, res):
    """Exception extractors (some raising) add eliot:traceback messages next to end messages: placement must still hold."""
    from eliot import register_exception_extractor
    from vf import excs
    rng = random.Random("%s:C02:x:%d" % (spec["seed"], spec["i"]))
    nraise = 0
    for name in ["Exception", "OSError", "LookupError", "ValueError", "KeyError", "UserError", "MidUserError", "RuntimeError", "BaseException"]:
        if rng.random() < 0.4:
            raising = rng.random() < 0.6
            nraise += raising
            cls = dict(excs.POOL, Exception=Exception, LookupError=LookupError, BaseException=BaseException)[name]

            def ext(e, raising=raising, name=name):
                if raising:
                    raise _ExtractorBoom("extractor for %s failed" % name)
                return {"ext": name}
            register_exception_extractor(cls, ext)
    g = gen.ProgGen(rng, max_depth=rng.choice([2, 3, 4]), max_nodes=20, value_depth=0, fail_p=0.6, allow_remote=rng.random() < 0.3,
                    extra_styles=("ctx_finish_inside", "pre_created"))
    prog = g.program()
    tape = Tape()
    rec = Recorder(tape, "rec")
    add_destinations(rec)
    it = Interp(tape=tape)
    try:
        it.run(prog)
    finally:
        remove_destination(rec)
    entries = tape_entries(tape)
    problems = oracles.check_placement(entries)
    tbs = sum(1 for m in tape.msgs("rec") if m.get("message_type") == "eliot:traceback" and "extractor for" in str(m.get("reason")))
    c = res["counters"]
    c["extractor_runs"] = c.get("extractor_runs", 0) + 1
    c["extractor_failure_tracebacks_placed"] = c.get("extractor_failure_tracebacks_placed", 0) + tbs
    c["messages_checked"] = c.get("messages_checked", 0) + len(entries)
    res["evals"] += 1
    if tbs:
        res["nontrivial"].append(h(["x", gen.prog_shape(prog), nraise]))
    if problems:
        res["violations"].append({"msg": problems[0], "mech": None, "detail": {"part": "extractors", "case": spec["i"], "problems": problems[:8], "program": prog}})


def _from_start(m):
    return (m["task_uuid"], m["task_level"][:-1])


def one_foreign(seed, i, res):
    """A `with start_action(...)` block entered in one contextvars.Context and left in another one: a generator holding the action
    across a yield, advanced through copy_context().run / a thread / an asyncio task and closed (close, throw, exhaustion) by
    other code inside that code's own action B; or __enter__/__exit__ called by hand in two contexts. The library may refuse
    the exit (ValueError) - the program catches that and goes on logging inside B. Whatever was emitted must satisfy the
    placement invariants, and what was logged inside B's block (B is open in the closing context) must be placed in B."""
    import asyncio
    import contextvars
    import threading
    from eliot import log_message, start_action
    rng = random.Random("%s:C02:foreign:%d" % (seed, i))
    mode = ["gen", "agen", "manual", "gen_thread", "agen", "gen"][i % 6]
    same_context = rng.random() < 0.15 and mode in ("gen", "manual")  # control: left (through ctx.run) in the context it was entered in
    a_state = rng.choice(["open", "none"] if same_context else ["finished", "finished", "open", "none"])
    leave = rng.choice(["close", "close", "throw", "exhaust"])
    b_kind = rng.choice(["action", "action", "task"])
    n_after = rng.randint(1, 3)
    got = []
    problems = []
    stats = {"refused": 0, "other_exc": [], "left": 0}
    add_destinations(got.append)

    def in_b(bid, what):
        m = got[-1]
        if _from_start(m) != bid:
            problems.append("%s was logged inside the block of action B (task %s level %r, open and current in that context) but was emitted as task %s "
                            "task_level %r" % (what, bid[0][:8], bid[1], m["task_uuid"][:8], m["task_level"]))

    def after_leave(bid):
        for j in range(n_after):
            log_message(message_type="fx:b-after", n=j)
            in_b(bid, "message %d after the foreign block was left" % j)
        k0 = len(got)
        with start_action(action_type="fx:C"):
            cid = _from_start(got[k0])
            if (cid[0], cid[1][:-1]) != bid or not cid[1]:
                problems.append("action C was started inside the block of action B (task %s level %r) but its start message is task %s task_level %r" % (
                    bid[0][:8], bid[1], got[k0]["task_uuid"][:8], got[k0]["task_level"]))
            log_message(message_type="fx:c-inside")
            if _from_start(got[-1]) != cid:
                problems.append("a message logged inside C's block is not placed in C: task_level %r" % (got[-1]["task_level"],))
        log_message(message_type="fx:b-last")
        in_b(bid, "the last message of B's block")

    def open_b():
        from eliot import start_task
        return start_action(action_type="fx:B") if b_kind == "action" else start_task(action_type="fx:B")

    def guarded(op):
        stats["left"] += 1
        try:
            op()
        except ValueError:
            stats["refused"] += 1
        except (KeyError, StopIteration):
            pass
        except Exception as e:
            stats["other_exc"].append(repr(e))

    def gen():
        with start_action(action_type="fx:G"):
            log_message(message_type="fx:g1")
            yield 1
            log_message(message_type="fx:g2")
            yield 2

    def sync_leave(g, run):
        if leave == "close":
            guarded(lambda: run(g.close))
        elif leave == "throw":
            guarded(lambda: run(g.throw, KeyError("thrown into the generator")))
        else:
            guarded(lambda: (run(next, g), run(next, g)))

    def sync_program():
        manual = {}
        g = gen()
        box = {}

        def enter():
            if mode == "manual":
                manual["G"] = start_action(action_type="fx:G")
                manual["G"].__enter__()
                log_message(message_type="fx:g1")
            else:
                next(g)

        def first():
            # the context (and, for a_state "finished", the action A) in which the block is entered
            if a_state == "finished":
                with start_action(action_type="fx:A"):
                    enter()
            else:
                enter()

        def closer():
            run = box["ctx"].run if same_context else (lambda f, *a: f(*a))
            k0 = len(got)
            with open_b():
                bid = _from_start(got[k0])
                log_message(message_type="fx:b-before")
                in_b(bid, "a message before the foreign block was left")
                if mode == "manual":
                    guarded(lambda: run(manual["G"].__exit__, None, None, None))
                else:
                    sync_leave(g, run)
                after_leave(bid)

        def both():
            box["ctx"] = contextvars.copy_context()
            if mode == "gen_thread":
                t = threading.Thread(target=box["ctx"].run, args=(first,))
                t.start()
                t.join()
            else:
                box["ctx"].run(first)
            closer()
        if a_state == "open":
            with start_action(action_type="fx:A"):
                both()
        else:
            both()

    async def agen():
        with start_action(action_type="fx:G"):
            log_message(message_type="fx:g1")
            yield 1
            log_message(message_type="fx:g2")
            yield 2

    async def async_program():
        ag = agen()

        async def leave_it():
            stats["left"] += 1
            try:
                if leave == "close":
                    await ag.aclose()
                elif leave == "throw":
                    await ag.athrow(KeyError("thrown into the generator"))
                else:
                    await ag.__anext__()
                    await ag.__anext__()
            except ValueError:
                stats["refused"] += 1
            except (KeyError, StopAsyncIteration):
                pass
            except Exception as e:
                stats["other_exc"].append(repr(e))

        async def closer():
            k0 = len(got)
            with open_b():
                bid = _from_start(got[k0])
                log_message(message_type="fx:b-before")
                in_b(bid, "a message before the foreign block was left")
                await leave_it()
                after_leave(bid)

        async def task_a():
            if a_state == "finished":
                with start_action(action_type="fx:A"):
                    await ag.__anext__()
            else:
                await ag.__anext__()

        async def both():
            await asyncio.ensure_future(task_a())
            await asyncio.ensure_future(closer())
        if a_state == "open":
            with start_action(action_type="fx:A"):
                await both()
        else:
            await both()

    try:
        if mode == "agen":
            asyncio.run(async_program())
        else:
            sync_program()
    except BaseException as e:
        problems.append("the program raised %r" % (e,))
    finally:
        remove_destination(got.append)
    entries = [("msg", m) for m in got]
    problems += oracles.check_placement(entries)
    c = res["counters"]
    c["messages_checked"] = c.get("messages_checked", 0) + len(entries)
    if not same_context:
        c["foreign_context_exits"] = c.get("foreign_context_exits", 0) + stats["left"]
        c["foreign_context_exits_refused"] = c.get("foreign_context_exits_refused", 0) + stats["refused"]
    else:
        c["same_context_exits_elsewhere"] = c.get("same_context_exits_elsewhere", 0) + stats["left"]
    res["evals"] += 1
    res["nontrivial"].append(h(["foreign", mode, same_context, a_state, leave, b_kind, n_after]))
    if problems:
        res["violations"].append({"msg": problems[0], "mech": None, "detail": {
            "part": "foreign", "case": i, "mode": mode, "left_in_entering_context": same_context, "entered_under": a_state, "leave": leave,
            "B": b_kind, "refused_with_ValueError": stats["refused"], "other_exceptions": stats["other_exc"][:3], "problems": problems[:8],
            "tape": [{k: m.get(k) for k in ("task_uuid", "task_level", "message_type", "action_type", "action_status")} for m in got][:40]}})


def one_badid(seed, i, res):
    """continue_task misused with a malformed identifier (the bare task_uuid as str or bytes, an empty string, an identifier that
    lost its '@', one with two '@'), each attempt wrapped in try/except, once or twice, inside the task, on another thread or after
    the task ended. Refused or not: what was emitted must satisfy the placement invariants."""
    import threading
    from eliot import Action, log_message, start_action, start_task
    rng = random.Random("%s:C02:badid:%d" % (seed, i))
    kind = ["uuid_str", "uuid_bytes", "empty", "no_at", "two_at", "wellformed", "uuid_str", "empty_bytes", "two_at_tail", "uuid_bytes"][i % 10]
    where = rng.choice(["inside", "thread", "after"]) if kind != "wellformed" else rng.choice(["inside", "thread"])
    attempts = 1 if kind == "wellformed" else rng.randint(1, 2)
    nested = rng.random() < 0.5
    api = rng.choice(["continue_task", "continueTask"])
    got = []
    problems = []
    stats = {"refused": 0, "accepted": 0}
    add_destinations(got.append)

    def ident(source):
        if kind == "wellformed":
            return source.serialize_task_id() if rng.random() < 0.5 else source.serialize_task_id().decode("ascii")
        sid = "%s@/%d" % (source.task_uuid, rng.randint(1, 9))
        return {"uuid_str": source.task_uuid, "uuid_bytes": source.task_uuid.encode("ascii"), "empty": "", "empty_bytes": b"",
                "no_at": sid.replace("@", ""), "two_at": sid + "@/1", "two_at_tail": sid + "@"}[kind]

    def attempt(tid):
        for _ in range(attempts):
            try:
                with getattr(Action, api)(task_id=tid):
                    log_message(message_type="bc:remote")
                    with start_action(action_type="bc:remote-child"):
                        log_message(message_type="bc:remote-inner")
            except Exception:
                stats["refused"] += 1
            else:
                stats["accepted"] += 1

    def use(tid):
        if where == "thread":
            t = threading.Thread(target=attempt, args=(tid,))
            t.start()
            t.join()
        else:
            attempt(tid)

    try:
        pending = []
        with (start_task if rng.random() < 0.6 else start_action)(action_type="bc:T") as t:
            for j in range(rng.randint(0, 3)):
                log_message(message_type="bc:m", n=j)
            if nested:
                with start_action(action_type="bc:N") as n_action:
                    log_message(message_type="bc:in-n")
                    tid = ident(n_action)
                    if where == "after":
                        pending.append(tid)
                    else:
                        use(tid)
                    log_message(message_type="bc:in-n-later")
            else:
                tid = ident(t)
                if where == "after":
                    pending.append(tid)
                else:
                    use(tid)
            log_message(message_type="bc:later")
        for tid in pending:
            use(tid)
        log_message(message_type="bc:outside")
    except BaseException as e:
        problems.append("the program raised %r" % (e,))
    finally:
        remove_destination(got.append)
    entries = [("msg", m) for m in got]
    problems += oracles.check_placement(entries)
    c = res["counters"]
    c["messages_checked"] = c.get("messages_checked", 0) + len(entries)
    if kind != "wellformed":
        c["malformed_task_ids_tried"] = c.get("malformed_task_ids_tried", 0) + attempts
        c["malformed_task_ids_refused"] = c.get("malformed_task_ids_refused", 0) + stats["refused"]
    else:
        c["wellformed_task_ids_continued"] = c.get("wellformed_task_ids_continued", 0) + stats["accepted"]
    res["evals"] += 1
    res["nontrivial"].append(h(["badid", kind, where, attempts, nested, api]))
    if problems:
        res["violations"].append({"msg": problems[0], "mech": None, "detail": {
            "part": "badid", "case": i, "identifier": kind, "where": where, "attempts": attempts, "source_nested": nested, "api": api,
            "refused": stats["refused"], "accepted": stats["accepted"], "problems": problems[:8],
            "tape": [{k: m.get(k) for k in ("task_uuid", "task_level", "message_type", "action_type", "action_status")} for m in got][:40]}})


CHAIN_KINDS = ["app:error", "ops:alert", "ops:page", "ops:ticket", "ops:invoice", "ops:audit", "ops:archive", "ops:report"]


def _brief(got, n=60):
    return [{k: m.get(k) for k in ("task_uuid", "task_level", "message_type", "action_type", "action_status", "hop", "n") if k in m} for m in got][:n]


def _sorted_entries(got):
    """The same messages in (task, level) order: judges everything in check_placement except emission order."""
    first = {}
    for k, m in enumerate(got):
        first.setdefault(m.get("task_uuid"), k)
    try:
        return [("msg", m) for m in sorted(got, key=lambda m: (first[m.get("task_uuid")], list(m["task_level"])))]
    except Exception:
        return [("msg", m) for m in got]


def one_chain(seed, i, res):
    """Destinations that react to a message by logging another one, chained: a pipeline error -> alert -> page -> ticket -> invoice
    -> ... in which stage k is a destination that logs message type k+1 from inside its own call when it is offered type k, and a
    'retry(n) -> retry(n-1) -> ... -> retry(0)' destination that answers itself. 1..8 chain messages, started by a message, by the start
    message or by the end message of an action, inside 1-3 open actions or in no action; stages log directly or inside an action of
    their own. Two destinations accept every message: one registered before the stages (it is offered a message before the stage's
    answer to it exists: full placement rules incl. emission order) and one registered after them (everything but emission order).
    Every logging call that returned while an action was open used a position of that action, so it must be on both tapes."""
    from collections import Counter
    from eliot import current_action
    rng = random.Random("%s:C02:chain:%d" % (seed, i))
    mode = ["pipeline", "retry"][i % 2]
    length = 1 + (i // 2) % 8  # number of messages of one chain, the triggering one included
    where = ["action", "none", "nested"][(i // 16) % 3]
    trigger = rng.choice(["message", "message", "start", "succeeded", "failed"]) if mode == "pipeline" else "message"
    wrap = rng.random() < 0.35  # stages wrap their reaction in an action of their own
    via = rng.choice(["log_message", "log_message", "action.log"])
    ntriggers = rng.choice([1, 1, 2])
    with_bad = rng.random() < 0.25
    bad_every = rng.randint(2, 5)
    first, last = [], []
    logged = []  # (message_type, cid, hop, an action was open) for every logging call that returned
    problems = []

    def emit(mt, **fields):
        act = current_action()
        if act is not None and via == "action.log":
            act.log(message_type=mt, **fields)
        else:
            log_message(message_type=mt, **fields)
        logged.append((mt, fields.get("cid"), fields.get("hop"), act is not None))

    def react(mt, **fields):
        if wrap:
            with start_action(action_type="ops:handle", emits=mt):
                emit(mt, **fields)
        else:
            emit(mt, **fields)

    def make_stage(k):
        def stage(m):
            if k == 0 and trigger != "message":
                hit = m.get("action_type") == "app:request" and m.get("action_status") == trigger
            else:
                hit = m.get("message_type") == CHAIN_KINDS[k]
            if hit:
                react(CHAIN_KINDS[k + 1], cid=m.get("cid", -1), hop=k + 1)
        return stage

    def countdown(m):
        if m.get("message_type") == "retry" and m["n"] > 0:
            react("retry", cid=m["cid"], n=m["n"] - 1, hop=m["hop"] + 1)

    calls = [0]

    def bad(m):
        calls[0] += 1
        if calls[0] % bad_every == 0:
            raise excs.DestFault("chain part, call %d" % calls[0])

    middle = [countdown] if mode == "retry" else [make_stage(k) for k in range(length - 1)]
    if with_bad:
        middle.append(bad)
    rng.shuffle(middle)
    dests = [first.append] + middle + [last.append]

    def start_chain(cid):
        if mode == "retry":
            emit("retry", cid=cid, n=length - 1, hop=0)
        elif trigger == "message":
            emit(CHAIN_KINDS[0], cid=cid, hop=0, code=500)
        else:
            try:
                with start_action(action_type="app:request", cid=cid) as a:
                    emit("app:step", cid=cid)
                    if trigger == "succeeded":
                        a.add_success_fields(cid=cid)
                    if trigger == "failed":
                        raise KeyError("request %d failed" % cid)
            except KeyError:
                pass

    def body():
        for j in range(rng.randint(0, 2)):
            emit("app:before", k=j)
        for cid in range(ntriggers):
            start_chain(cid)
            if rng.random() < 0.5:
                emit("app:between", k=cid)
        if rng.random() < 0.4:
            with start_action(action_type="app:cleanup"):
                emit("app:cleanup-step")
        emit("app:after")

    add_destinations(*dests)
    try:
        if where == "none":
            body()
        elif where == "action":
            with start_action(action_type="app:job"):
                body()
        else:
            from eliot import start_task
            with start_task(action_type="app:outer"):
                emit("app:outer-first")
                with start_action(action_type="app:middle"):
                    with start_action(action_type="app:job"):
                        body()
                    emit("app:middle-last")
    except BaseException as e:
        problems.append("the program raised %r" % (e,))
    finally:
        for d in dests:
            try:
                remove_destination(d)
            except ValueError:
                pass
    problems += oracles.check_placement([("msg", m) for m in first])
    problems += ["(destination registered after the reacting ones) " + p for p in oracles.check_placement(_sorted_entries(last))]
    # every logging call that returned inside an open action took one of its positions: the message is on the tape of a destination
    # that accepted everything (a context-less message that vanished leaves no hole: not judged here)
    in_action = Counter((mt, cid, hop) for (mt, cid, hop, inside) in logged if inside)
    for name, tape_ in (("before", first), ("after", last)):
        seen = Counter((m.get("message_type"), m.get("cid"), m.get("hop")) for m in tape_ if "message_type" in m)
        for key, cnt in sorted(in_action.items(), key=repr):
            if seen.get(key, 0) < cnt:
                problems.append("%d logging call(s) for message_type %r (chain %r, hop %r) returned inside an open action, i.e. took a position of it, but the accepting "
                                "destination registered %s the reacting ones received %d such message(s): a position was consumed and never emitted" % (
                                    cnt, key[0], key[1], key[2], name, seen.get(key, 0)))
    hops_done = max([hop for (mt, cid, hop, inside) in logged if hop is not None] + [0])
    c = res["counters"]
    c["messages_checked"] = c.get("messages_checked", 0) + len(first) + len(last)
    c["chain_runs"] = c.get("chain_runs", 0) + 1
    c["chain_messages_logged_by_destinations"] = c.get("chain_messages_logged_by_destinations", 0) + sum(1 for x in logged if x[2])
    d = c.setdefault("chain_deepest_hop_reached", {})
    d[str(hops_done)] = d.get(str(hops_done), 0) + 1
    if hops_done >= 4 and where != "none":
        c["chains_5_or_more_deep_inside_actions"] = c.get("chains_5_or_more_deep_inside_actions", 0) + 1
    res["evals"] += 1
    res["nontrivial"].append(h(["chain", mode, length, where, trigger, wrap, via, ntriggers, with_bad]))
    if res.get("sample") is None and length == 5 and where == "action" and not wrap and not with_bad and ntriggers == 1:
        res["sample"] = {"part": "chain", "mode": mode, "length": length, "trigger": trigger, "tape": _brief(first, 20)}
    if problems:
        res["violations"].append({"msg": problems[0], "mech": None, "detail": {
            "part": "chain", "case": i, "mode": mode, "chain_length": length, "started_in": where, "trigger": trigger, "stages_wrap_in_action": wrap,
            "via": via, "triggers": ntriggers, "failing_destination": with_bad, "problems": problems[:8], "tape": _brief(first)}})


def one_late(seed, i, res):
    """add_success_fields / addSuccessFields called AFTER the action has finished: one indent too few after the with block, finish()
    followed by a late call, a callback registered inside the action that fires late (while the parent is still open, inside a sibling
    action, after the parent has finished too, at the very end), for succeeded and failed actions and tasks, below 0-3 open ancestors
    that go on logging. Whether the late fields are dropped is not judged; the tape must satisfy the placement rules, and nothing may be
    emitted below an action after its end message."""
    from eliot import start_task
    rng = random.Random("%s:C02:late:%d" % (seed, i))
    depth = i % 4
    got = []
    problems = []
    victims = []  # (style, (uuid, prefix), index of the tape at which the action had finished)
    stats = {"late": 0, "raised": 0, "open_ancestors": 0}
    pending = {}  # level -> callbacks to fire once the ancestor of that level has finished
    at_end = []

    def late(a, open_ancestors):
        api = rng.choice(["add_success_fields", "addSuccessFields"])

        def call():
            stats["late"] += 1
            if open_ancestors():
                stats["open_ancestors"] += 1
            try:
                getattr(a, api)(**{rng.choice(["status", "elapsed", "attempts"]): rng.randint(0, 500)})
            except Exception:
                stats["raised"] += 1  # (not C02's business)
        return call

    def filler(tag):
        for j in range(rng.randint(0, 2)):
            log_message(message_type="lt:" + tag, k=j)

    def victim(j, nopen):
        """One action created, run and finished below `nopen` open ancestors; then add_success_fields on it."""
        style = rng.choice(["with_dedent", "with_dedent", "finish_then_late", "callback", "failed_with", "finish_exc", "task_with", "callback"])
        opened = [nopen]
        call_holder = []
        k0 = len(got)
        starter = start_task if style == "task_with" else start_action
        if style in ("with_dedent", "task_with", "callback", "failed_with"):
            try:
                with starter(action_type="lt:victim", style=style) as a:
                    a.add_success_fields(early=1)
                    filler("in-victim")
                    if rng.random() < 0.4:
                        with start_action(action_type="lt:victim-child"):
                            filler("in-victim-child")
                    call_holder.append(late(a, lambda: opened[0] > 0))
                    if style == "failed_with":
                        raise KeyError("victim fails")
            except KeyError:
                pass
        else:
            a = start_action(action_type="lt:victim", style=style)
            with a.context():
                filler("in-victim")
            a.addSuccessFields(early=2)
            if style == "finish_exc":
                a.finish(KeyError("victim fails"))
            else:
                a.finish()
            call_holder.append(late(a, lambda: opened[0] > 0))
        victims.append((style, _from_start(got[k0]), len(got), j))
        call = call_holder[0]
        if style == "callback":
            when = rng.choice(["now", "sibling", "after_parent", "at_end"])
            if when == "now":
                call()
            elif when == "sibling":
                with start_action(action_type="lt:sibling"):
                    filler("in-sibling")
                    call()
                    filler("in-sibling")
            elif when == "after_parent" and j > 0:
                def fire(call=call):
                    opened[0] = j - 1
                    call()
                pending.setdefault(j - 1, []).append(fire)
            else:
                def fire_end(call=call):
                    opened[0] = 0
                    call()
                at_end.append(fire_end)
        else:
            for r in range(rng.randint(1, 3)):
                call()
                if rng.random() < 0.6:
                    filler("between-late")
            if rng.random() < 0.3:
                with start_action(action_type="lt:sibling"):
                    call()
                    filler("in-sibling")

    def level(j):
        # j open ancestors around this code
        filler("l%d-first" % j)
        if j == depth or rng.random() < 0.5:
            victim(j, j)
        if j < depth:
            starter = start_task if (j == 0 and rng.random() < 0.3) else start_action
            with starter(action_type="lt:ancestor", depth=j):
                level(j + 1)
            for f in pending.pop(j, []):
                f()
                filler("l%d-after-callback" % j)
        if rng.random() < 0.3:
            victim(j, j)
        filler("l%d-last" % j)

    add_destinations(got.append)
    try:
        level(0)
        for f in at_end:
            f()
            log_message(message_type="lt:at-end")
    except BaseException as e:
        problems.append("the program raised %r" % (e,))
    finally:
        remove_destination(got.append)
    problems += oracles.check_placement([("msg", m) for m in got])
    for style, (uuid, prefix), k_end, j in victims:
        end = got[k_end - 1]
        for m in got[k_end:]:
            if m.get("task_uuid") == uuid and m.get("task_level")[:len(prefix)] == prefix:
                problems.append("action %s%r (style %s, %d open ancestors) had finished - its end message is at task_level %r - when add_success_fields was called on it; "
                                "afterwards %r was emitted at task_level %r, inside the finished action and after its end message" % (
                                    uuid[:8], prefix, style, j, end.get("task_level"), m.get("message_type") or m.get("action_type"), m.get("task_level")))
                break
    c = res["counters"]
    c["messages_checked"] = c.get("messages_checked", 0) + len(got)
    c["late_success_fields_calls"] = c.get("late_success_fields_calls", 0) + stats["late"]
    c["late_success_fields_calls_with_open_ancestor"] = c.get("late_success_fields_calls_with_open_ancestor", 0) + stats["open_ancestors"]
    c["late_success_fields_calls_raised"] = c.get("late_success_fields_calls_raised", 0) + stats["raised"]
    res["evals"] += 1
    res["nontrivial"].append(h(["late", depth, [v[0] for v in victims], [v[3] for v in victims], len(got)]))
    if problems:
        res["violations"].append({"msg": problems[0], "mech": None, "detail": {
            "part": "late", "case": i, "open_ancestors": depth, "victims": [(v[0], v[3]) for v in victims], "late_calls": stats["late"],
            "problems": problems[:8], "tape": _brief(got)}})


def part_ordered(spec, res):
    """Two deterministic single-thread scenarios in which a message is EMITTED by eliot itself in the middle of handling another one
    (recorded findings, see KNOWN_FINDINGS.json): what the healthy destination observes must still be in level order inside every action.
    kind 'replay_report': messages buffered inside a still open action, first add_destinations(bad, good), bad fails on one of the
    buffered messages. kind 'logging_serializer': a typed field whose serializer (healthy) logs through a log_call helper."""
    from eliot import ActionType, Field, MessageType, log_call
    rng = random.Random("%s:C02:ordered:%d" % (spec["seed"], spec["i"]))
    kind = ["replay_report", "logging_serializer"][spec["i"] % 2]
    good = []
    problems = []
    if kind == "replay_report":
        nbuf = rng.randint(2, 5)
        fail_at = rng.randrange(nbuf)
        seen = [0]

        def bad(m):
            seen[0] += 1
            if seen[0] == fail_at + 1:
                raise excs.DestFault("fails on buffered message %d" % fail_at)
        dests = [bad, good.append]
        with start_action(action_type="o:act"):
            for k in range(nbuf - 1):
                log_message(message_type="o:m", k=k)
            add_destinations(*dests)
            log_message(message_type="o:after")
    else:
        @log_call(action_type="o:helper")
        def helper(v):
            return "<%s>" % (v,)
        mt = MessageType("o:typed", [Field("v", helper, "a field whose serializer logs")], "typed")
        dests = [good.append]
        add_destinations(*dests)
        with start_action(action_type="o:act") as act:
            log_message(message_type="o:m", k=0)
            if rng.random() < 0.5:
                mt.log(v=rng.randint(1, 9))
            else:
                act.log(message_type="o:plain")
                mt(v=rng.randint(1, 9)).write()
            log_message(message_type="o:after")
    for d in dests:
        remove_destination(d)
    res["evals"] += 1
    c = res["counters"]
    c["ordered_scenarios_" + kind] = c.get("ordered_scenarios_" + kind, 0) + 1
    levels = [tuple(m["task_level"]) for m in good]
    if len(set((m["task_uuid"], tuple(m["task_level"])) for m in good)) != len(good):
        problems.append("%s: two messages share (task_uuid, task_level): %s" % (kind, levels))
        mech = None
    elif levels != sorted(levels):
        problems.append("%s: the destination that accepted every message observed task_levels %s: emission order is not level order" % (kind, [list(l) for l in levels]))
        mech = {"replay_report": "report-overtakes-replayed-buffer", "logging_serializer": "serializer-that-logs"}[kind]
    if problems:
        res["violations"].append({"msg": problems[0], "mech": mech, "detail": {"part": "ordered", "kind": kind, "levels": [list(l) for l in levels]}})


def part_signals(spec, res):
    """A signal handler that logs, delivered at EVERY point inside the program's logging calls at which CPython can run a handler
    (after each call instruction and at each function entry inside the eliot modules; vf/sigreent.py): one forked process per point."""
    from vf import sigreent
    from vf.forkrun import call_in_fork
    i = spec["i"]
    rng = random.Random("%s:C02:sig:%d" % (spec["seed"], i // 4))
    prog = sigreent.gen_program(rng)
    hk = ["msg", "action", "serialize", "typed"][i % 4]
    c = res["counters"]
    res.setdefault("sets", {}).setdefault("signal_points", [])
    kind, base = call_in_fork(lambda: sigreent.run_once(prog, 0, hk), timeout=120)
    if kind != "ok" or base.get("skip"):
        res["inconclusive"] = "signals: baseline run %s %s" % (kind, str(base)[-200:])
        return
    problems = []
    sigreent.judge(base, problems)
    if problems:
        res["violations"].append({"msg": "(no signal delivered) " + problems[0], "mech": None, "detail": {"part": "signals", "program": prog, "problems": problems[:5]}})
        return
    for k in range(1, base["points"] + 1):
        kind, d = call_in_fork(lambda: sigreent.run_once(prog, k, hk), timeout=120)
        res["evals"] += 1
        if kind in ("timeout", "died"):
            res["inconclusive"] = "signals: child %s at point %d" % (kind, k)
            return
        problems = []
        if kind != "ok":
            problems.append("run failed: %s" % str(d)[-400:])
        else:
            if d["handler_runs"] != 1:
                c["signal_runs_without_handler"] = c.get("signal_runs_without_handler", 0) + 1
                continue
            c["signal_handlers_run_inside_a_logging_call"] = c.get("signal_handlers_run_inside_a_logging_call", 0) + 1
            if d["handler_context"] == "action":
                c["signal_handlers_run_with_a_current_action"] = c.get("signal_handlers_run_with_a_current_action", 0) + 1
            res["sets"]["signal_points"].append(d["fired"])
            res["nontrivial"].append(h([prog, hk, k]))
            sigreent.judge(d, problems)
        if problems and len(res["violations"]) < 3:
            where = d["fired"] if kind == "ok" else "?"
            res["violations"].append({"msg": "a signal handler that logs (%s) ran at %s, in the middle of a logging call of the main program: %s" % (hk, where, problems[0]),
                                      "mech": None, "detail": {"part": "signals", "program": prog, "handler": hk, "point": k, "landed_at": where, "problems": problems[:5],
                                                               "tape": [{kk: m.get(kk) for kk in ("task_level", "message_type", "action_type", "action_status", "nid") if kk in m} for m in (d.get("tape", []) if kind == "ok" else [])][:30]}})
        elif problems:
            c["further_violating_signal_points"] = c.get("further_violating_signal_points", 0) + 1
    if i % 8 == 0:
        res["sample"] = {"part": "signals", "program": prog, "handler": hk, "points": base["points"]}


def run_case(spec):
    res = {"evals": 0, "nontrivial": [], "counters": {}, "violations": [], "sample": None}
    if spec["part"] == "signals":
        part_signals(spec, res)
        return res
    if spec["part"] == "extractors":
        one_extractors(spec, res)
        return res
    if spec["part"] == "ordered":
        part_ordered(spec, res)
        return res
    if spec["part"] in ("foreign", "badid", "chain", "late"):
        one = {"foreign": one_foreign, "badid": one_badid, "chain": one_chain, "late": one_late}[spec["part"]]
        for i in range(spec["lo"], spec["hi"]):
            one(spec["seed"], i, res)
        return res
    if spec["part"] == "faults":
        for i in range(spec["lo"], spec["hi"]):
            one_faults(spec["seed"], i, spec["tier"], res)
    else:
        from vf import conc
        conc.c02_run(spec, res)
    return res


def finalize(agg, tier):
    c = agg["counters"]
    if c.get("failure_reports_inside_actions", 0) < 50:
        return "fewer than 50 failure reports landed inside actions"
    if c.get("extractor_failure_tracebacks_placed", 0) < 50:
        return "fewer than 50 extractor-failure tracebacks were placed"
    if not c.get("foreign_context_exits", 0):
        return "no with-block was left in another context than it was entered in"
    if not c.get("malformed_task_ids_tried", 0):
        return "continue_task was never tried with a malformed identifier"
    if not c.get("chains_5_or_more_deep_inside_actions", 0) or not c.get("chain_messages_logged_by_destinations", 0):
        return "no chain of destinations that log while handling a message got five or more messages deep inside an action"
    if not c.get("late_success_fields_calls_with_open_ancestor", 0):
        return "add_success_fields was never called on a finished action while an ancestor was still open"
    if c.get("signal_handlers_run_with_a_current_action", 0) < 500 or len(agg["sets"].get("signal_points", {})) < 40:
        return "fewer than 500 signal handlers ran inside a logging call with a current action, or fewer than 40 distinct delivery points"
    return None
