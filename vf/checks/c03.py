"""C03 - one start, one truthful end, exceptions pass through (exactly-once/truthful-end tape checker)."""

from vf import sched

sched.install()  # before eliot is imported (part 'concreg'); without an active schedule the replaced factories behave like the originals

import itertools
import random

from eliot import add_destinations, register_exception_extractor, remove_destination, start_action
from eliot import _errors as _eliot_errors  # only handed to sched.instrument(): the module whose statements are switch points

from vf import excs, gen
from vf.forkrun import call_in_fork
from vf.gen import json_equal
from vf.interp import ANYTEXT, Interp
from vf.runner import h
from vf.tape import Recorder, Tape

ID = "C03"
LEVEL = "exploration"
RULE = ("each forked case registers extractors (healthy or raising) on a random subset of the classes occurring in the MROs of "
        "the exception pool, then runs a ProgGen program (random part) or a systematic chain (matrix part: every exception class "
        "x nesting depth 1..5 x action style, innermost raises and crosses all enclosing actions); further registrations / replacements are made between the top-level parts of a program, so later failures must see them. A third of the explicit logger arguments is an application-defined ILogger whose write() returns a truthy value. Oracle over the healthy "
        "destination's tape: per action exactly one 'started' and one end message; failed iff an exception escaped the body; "
        "exception=module.Class, reason=str(exc) when str works; extractor fields = those of the nearest registered class in the MRO "
        "({} plus exactly one eliot:traceback when it raises); start fields only on start, success fields only on succeeded; repeated "
        "finish adds nothing; actions failing inside an extractor keep their own extractor's fields; after an interrupt (non-Exception from a destination) during an "
        "extractor-failure report later failures still get their fields; the object leaving the block is the raised object. non-trivial = failed with a non-Exception class, or "
        "MRO lookup depth >=2, or repeated finish; distinct by (exception class, lookup depth, style, nesting depth, registration set). "
        "part 'concreg': 2-3 threads call register_exception_extractor concurrently for different classes of a small hierarchy (application classes with single and multiple inheritance, "
        "OSError / LookupError / BaseException families; some threads register two classes, some fail an action of their own right after their registration returned, one may fail actions "
        "with a class registered before the threads started; in a share of the scenarios two threads register the same class), each schedule in a fresh process under the line-granular "
        "scheduler with switch points at every statement of eliot/_errors.py and between a call and the use of its result: for every priority order ALL one-preemption schedules plus sampled "
        "2-3-preemption ones. Oracle: once all registering calls returned, an action failing with each class of the hierarchy (at nesting depth 1-2) has one start and one failed end carrying "
        "module.Class, str(exc) and exactly the fields of the extractor registered for the nearest class in the exception's MRO (either extractor where two threads registered the same class); a failure "
        "inside a thread must carry the fields of a registration made earlier by that thread or before the threads started unless another thread registers a nearer class at the same time (then either); "
        "the object leaving the block is the raised one; a logical deadlock is a violation, any other abandoned schedule is INCONCLUSIVE")
EXHAUSTIVE_NOTE = "concreg: all one-preemption schedules (statement boundaries and call returns inside eliot/_errors.py) for every priority order of each generated thread set"
ENABLE_CONCREG = True
ASSUMPTIONS = ["extractors return dicts of JSON-native values", "extractors raise Exception subclasses"]
BATCH_MATRIX = 1

REG_CLASSES = ["BaseException", "Exception", "OSError", "LookupError", "ArithmeticError", "ValueError", "KeyError", "UserError",
               "MidUserError", "DeepUserError", "UserBase", "RuntimeError", "FileNotFoundError", "MixedError", "BadStr"]
class AmbientError(Exception):
    """An exception the application is busy handling while it logs."""


CLASSMAP = dict(excs.POOL, BaseException=BaseException, Exception=Exception, LookupError=LookupError, ArithmeticError=ArithmeticError)


class ExtractorBoom(Exception):
    pass


class HelperError(Exception):
    pass


def plan(tier, seed):
    n = 15000 if tier == "quick" else 150000
    specs = [{"part": "random", "seed": seed, "i": i, "tier": tier} for i in range(n)]
    names = sorted(excs.POOL)
    j = 0
    for j2 in range(200 if tier == "quick" else 2000):
        specs.append({"part": "interrupt", "seed": seed, "i": j2, "tier": tier})
    for name in names:
        for depth in range(1, 6):
            for style in (gen.ACT_STYLES if tier == "thorough" else ["with", "ctx_finish", "run_finish", "log_call", "ActionType"]):
                specs.append({"part": "matrix", "seed": seed, "i": j, "exc": name, "depth": depth, "style": style, "tier": tier})
                j += 1
    if ENABLE_CONCREG:
        # appended: the cases above keep their indices (and hence their random streams)
        for j3 in range(12 if tier == "quick" else 120):
            specs.append({"part": "concreg", "seed": seed, "i": j3, "tier": tier})
    return specs


def chain_program(rng, exc, depth, style):
    g = gen.ProgGen(rng, max_depth=0, value_depth=1)
    node = None
    for d in range(depth):
        n = g.act(99, force_style=style if d == 0 else rng.choice(gen.ACT_STYLES))
        n["children"] = [g.msg()] + ([node] if node else []) + [g.msg()]
        n["outcome"] = "ok"
        n.pop("exc", None)
        if node is None:
            n["outcome"] = "raise"
            n["exc"] = exc
            n["cross"] = depth - 1
        node = n
    return [node]


def part_interrupt(spec):
    """A BaseException (think KeyboardInterrupt) comes out of a destination while an end message is being delivered: however the
    program then leaves the block or finishes again, the action still has exactly one end message."""
    from eliot import start_action, log_message
    rng = random.Random("%s:C03:int:%d" % (spec["seed"], spec["i"]))
    res = {"evals": 1, "nontrivial": [], "counters": {"interrupt_cases": 1}, "violations": [], "sets": {}}
    tape = Tape()
    rec = Recorder(tape, "rec")
    state = {"n": 0, "armed": None}

    def interrupter(m):
        # placed AFTER the recorder: the message has been recorded when the interrupt strikes
        if m.get("action_status") in ("succeeded", "failed") and m.get("action_type") == "victim" and state["armed"]:
            state["armed"] = False
            raise excs.UserBase("interrupt while the end message is being delivered")

    add_destinations(rec, interrupter)
    style = rng.choice(["explicit_then_exit", "exit_then_finally", "explicit_twice", "during_extractor_report"])
    if style == "during_extractor_report":
        # the interrupt strikes while the traceback of a RAISING EXTRACTOR is being delivered; the program handles it and goes
        # on: later failed actions still get the fields of their exceptions' extractors (here the built-in errno one)
        from eliot import register_exception_extractor

        def boom(e):
            raise ExtractorBoom("extractor failed")
        register_exception_extractor(HelperError, boom)
        hit = {"armed": True}

        def interrupter2(m):
            if m.get("message_type") == "eliot:traceback" and hit["armed"]:
                hit["armed"] = False
                raise excs.UserBase("interrupt while the extractor's traceback is being delivered")
        add_destinations(interrupter2)
        problems = []
        got = None
        try:
            try:
                with start_action(action_type="first"):
                    raise HelperError("fails, its extractor raises, the report is interrupted")
            except (excs.UserBase, HelperError) as e:
                got = e
            for k in range(2):
                try:
                    with start_action(action_type="later", k=k):
                        raise OSError(28, "disk full")
                except OSError:
                    pass
        finally:
            remove_destination(rec)
            remove_destination(interrupter)
            remove_destination(interrupter2)
        if not isinstance(got, excs.UserBase):
            problems.append("the interrupt raised by the destination did not reach the program (got %r)" % (got,))
        later = [m for m in tape.msgs("rec") if m.get("action_type") == "later" and m.get("action_status") == "failed"]
        if len(later) != 2 or any(m.get("errno") != 28 for m in later):
            problems.append("after an interrupt during an extractor-failure report, later failed actions lack their extractor's fields: %r" % (
                [{k: v for k, v in m.items() if k in ("errno", "exception", "action_status")} for m in later],))
        res["nontrivial"].append(h(["interrupt", style]))
        if problems:
            res["violations"].append({"msg": problems[0], "mech": None, "detail": {"part": "interrupt", "style": style, "problems": problems}})
        return res
    state["armed"] = True
    got = None
    try:
        with start_action(action_type="outer"):
            if style == "explicit_then_exit":
                with start_action(action_type="victim") as a:
                    log_message(message_type="m")
                    a.finish()  # interrupted; __exit__ will call finish(exc) afterwards
            elif style == "exit_then_finally":
                a = start_action(action_type="victim")
                try:
                    with a:
                        log_message(message_type="m")
                finally:
                    a.finish()  # a careful program finishing again after the interrupted __exit__
            else:
                a = start_action(action_type="victim")
                try:
                    a.finish()
                finally:
                    a.finish(RuntimeError("again"))
    except excs.UserBase as e:
        got = e
    finally:
        remove_destination(rec)
        remove_destination(interrupter)
    problems = []
    if got is None:
        problems.append("the interrupt raised by the destination did not reach the program")
    ends = [m for m in tape.msgs("rec") if m.get("action_type") == "victim" and m.get("action_status") in ("succeeded", "failed")]
    if len(ends) != 1:
        problems.append("%s: the interrupted action logged %d end messages (%s)" % (style, len(ends), [m.get("action_status") for m in ends]))
    res["nontrivial"].append(h(["interrupt", style]))
    if problems:
        res["violations"].append({"msg": problems[0], "mech": None, "detail": {"part": "interrupt", "style": style, "problems": problems}})
    return res


# --------------------------------------------------------------------------- extractors registered concurrently


class PlugA(Exception):
    pass


class PlugASub(PlugA):
    pass


class PlugADeep(PlugASub):
    pass


class PlugB(Exception):
    pass


class PlugBSub(PlugB):
    pass


class PlugAB(PlugASub, PlugB):
    """MRO: PlugAB, PlugASub, PlugA, PlugB, Exception: a lost registration for PlugASub / PlugA shows as another extractor's fields."""


class PlugOS(OSError):
    """Falls back on eliot's built-in errno extractor when nothing nearer is registered."""


class PlugLookup(KeyError):
    pass


class PlugBase(BaseException):
    pass


class PlugBaseSub(PlugBase):
    pass


class PlugPre(Exception):
    """Registered before the threads start; never registered by a thread."""


class PlugPreSub(PlugPre):
    pass


CONC = {c.__name__: c for c in (PlugA, PlugASub, PlugADeep, PlugB, PlugBSub, PlugAB, PlugOS, PlugLookup, PlugBase, PlugBaseSub, PlugPre, PlugPreSub,
                                 OSError, FileNotFoundError, LookupError, KeyError, Exception, BaseException, ValueError)}
# classes a thread may register
CONC_REGISTRABLE = ["PlugA", "PlugASub", "PlugB", "PlugBSub", "PlugAB", "PlugOS", "PlugLookup", "PlugBase", "OSError", "LookupError", "KeyError",
                    "Exception", "BaseException"]
# classes an action fails with once every thread is done (everything instantiable; each registrable class and a subclass of it)
CONC_FINAL = ["PlugA", "PlugASub", "PlugADeep", "PlugB", "PlugBSub", "PlugAB", "PlugOS", "PlugLookup", "PlugBase", "PlugBaseSub", "PlugPre", "PlugPreSub",
              "OSError", "FileNotFoundError", "LookupError", "KeyError", "ValueError"]


def conc_instance(name, tag):
    cls = CONC[name]
    if issubclass(cls, OSError):
        return cls(28, "disk full %s" % tag)
    return cls("failure %s" % tag)


def conc_fields(tag, cls_name):
    """What the extractor registered under `tag` for class `cls_name` returns for an exception."""
    return {"ext_tag": tag, "ext_for": cls_name}


def gen_concreg(rng, i):
    """workers: list of {"kind": reg | reg_fail | fail, "regs": [[class, tag], ...], "fails": [[class, nesting depth], ...]}"""
    n = 2 if i % 3 else 3
    same = i % 4 == 3  # two threads register the same class: afterwards either extractor is the registered one
    pool = list(CONC_REGISTRABLE)
    rng.shuffle(pool)
    if i % 2:
        # related classes registered by different threads: the nearest one must win afterwards
        fam = rng.choice([["PlugA", "PlugASub", "PlugAB"], ["PlugB", "PlugBSub", "PlugAB"], ["OSError", "PlugOS", "Exception"],
                          ["LookupError", "KeyError", "PlugLookup"], ["BaseException", "Exception", "PlugBase"], ["PlugA", "PlugB", "PlugASub"]])
        pool = fam + [x for x in pool if x not in fam]
    workers = []
    kinds = ["reg", rng.choice(["reg", "reg_fail"])] + ([rng.choice(["reg", "reg_fail", "fail"])] if n == 3 else [])
    for j, kind in enumerate(kinds):
        w = {"kind": kind, "regs": [], "fails": []}
        if kind in ("reg", "reg_fail"):
            for r in range(2 if (kind == "reg" and rng.random() < 0.35) else 1):
                name = pool.pop(0)
                w["regs"].append([name, "W%d/%s" % (j, name)])
        if kind == "reg_fail":
            # fails with the class it has just registered itself, or a subclass of it
            own = w["regs"][-1][0]
            subs = [x for x in CONC_FINAL if issubclass(CONC[x], CONC[own])]
            w["fails"].append([rng.choice(subs) if subs and rng.random() < 0.6 else (own if own in CONC_FINAL else "ValueError"), rng.choice([1, 1, 2])])
        if kind == "fail":
            for r in range(rng.choice([1, 2])):
                w["fails"].append([rng.choice(["PlugPre", "PlugPreSub"]), rng.choice([1, 2])])
        workers.append(w)
    if same:
        first = workers[0]["regs"][0][0]
        workers[1]["regs"][0] = [first, "W1/%s" % first]
        if workers[1]["kind"] == "reg_fail":
            subs = [x for x in CONC_FINAL if issubclass(CONC[x], CONC[first])]
            workers[1]["fails"] = [[rng.choice(subs) if subs else "ValueError", 1]]
    return {"workers": workers, "pre": [["PlugPre", "pre/PlugPre"]] + ([["PlugB", "pre/PlugB"]] if rng.random() < 0.3 else [])}


def conc_options(cls, must, may):
    """Acceptable extractor-field sets for an exception of class `cls`: walk the MRO; a class registered by a call that has returned
    (must: class -> tags, several when concurrent calls registered the same class) decides; a class that another thread may be
    registering right now (may) is acceptable as well but does not end the walk."""
    out = []
    for klass in cls.__mro__:
        name = klass.__name__
        if CONC.get(name) is not klass:
            continue
        for tag in may.get(name, ()):
            out.append(conc_fields(tag, name))
        if name in must:
            for tag in must[name]:
                out.append(conc_fields(tag, name))
            return out
        if klass is OSError:
            out.append({"errno": 28})  # eliot's built-in extractor
            return out
    out.append({})
    return out


def concreg_once(plan_, sc):
    """Fresh process: the threads register (and fail actions) under the given schedule; afterwards the main thread fails one action per
    class. Returns the scheduler's statistics and the problems the oracle found."""
    sched.instrument([_eliot_errors], post_call=True)
    tape = Tape()
    rec = Recorder(tape, "rec")
    add_destinations(rec)
    problems = []
    notes = {"register_raised": 0, "judged": 0, "thread_failures": 0}
    expectations = []  # (action_type, class name, acceptable field sets, description)

    def extractor(tag, cls_name):
        def ex(e):
            return conc_fields(tag, cls_name)
        return ex

    def fail_action(label, cls_name, depth, who):
        exc = conc_instance(cls_name, label)
        got = None
        try:
            with start_action(action_type=label + ":outer") if depth == 2 else _Null():
                with start_action(action_type=label):
                    raise exc
        except BaseException as e:
            if isinstance(e, sched.SchedAbort):
                raise
            got = e
        if got is not exc:
            problems.append("%s: %s raised inside the action, %r left the block" % (who, cls_name, got))

    for name, tag in sc["pre"]:
        register_exception_extractor(CONC[name], extractor(tag, name))
    pre = {}
    for name, tag in sc["pre"]:
        pre[name] = [tag]
    all_regs = {}
    for j, w in enumerate(sc["workers"]):
        for name, tag in w["regs"]:
            all_regs.setdefault(name, []).append((j, tag))

    def worker(j, w):
        def run():
            mine = dict((k, list(v)) for k, v in pre.items())
            for name, tag in w["regs"]:
                try:
                    register_exception_extractor(CONC[name], extractor(tag, name))
                except sched.SchedAbort:
                    raise
                except BaseException as e:
                    notes["register_raised"] += 1
                    notes.setdefault("register_errors", []).append("W%d registering %s: %r" % (j, name, e))
                # registered by this thread now; another thread registering the same class at the same time may come before or after
                others = [t for (jj, t) in all_regs.get(name, []) if jj != j]
                mine[name] = [tag] + others
            may = {}
            for name, lst in all_regs.items():
                tags = [t for (jj, t) in lst if jj != j]
                if tags:
                    may[name] = tags  # (also a class registered before the threads started: the other thread's call replaces that extractor)
            for k, (cls_name, depth) in enumerate(w["fails"]):
                label = "thread:W%d:%d" % (j, k)
                expectations.append((label, cls_name, conc_options(CONC[cls_name], mine, may), depth,
                                     "in thread W%d after its own register_exception_extractor call(s) %s returned, while the other threads were registering" % (j, [r[0] for r in w["regs"]])))
                notes["thread_failures"] += 1
                fail_action(label, cls_name, depth, "thread W%d" % j)
        return run

    workers = {"W%d" % j: worker(j, w) for j, w in enumerate(sc["workers"])}
    st, errs = sched.run_schedule(plan_, workers, timeout=60.0)
    out = {"stats": {"events": st["events"], "fired": st["fired"], "aborted": st["aborted"], "deadlock": st["deadlock"], "trace": st["trace"]},
           "errors": {k: repr(v) for k, v in errs.items()}, "notes": notes, "problems": problems}
    if st["aborted"] or st["deadlock"]:
        return out
    # ---- every registering call has returned: one failing action per class, judged against the complete registration set
    final = dict((k, list(v)) for k, v in pre.items())
    for name, lst in all_regs.items():
        final[name] = [t for (_, t) in lst]
    for k, cls_name in enumerate(CONC_FINAL):
        label = "final:%d" % k
        depth = 2 if k % 3 == 0 else 1
        expectations.append((label, cls_name, conc_options(CONC[cls_name], final, {}), depth, "after all register_exception_extractor calls had returned"))
        fail_action(label, cls_name, depth, "main thread")
    remove_destination(rec)
    # ---- oracle over the tape
    msgs = tape.msgs("rec")
    regs_text = "; ".join("W%d: %s" % (j, ", ".join(r[0] for r in w["regs"])) for j, w in enumerate(sc["workers"]) if w["regs"])
    for label, cls_name, options, depth, when in expectations:
        cls = CONC[cls_name]
        for at in ([label, label + ":outer"] if depth == 2 else [label]):
            starts = [m for m in msgs if m.get("action_type") == at and m.get("action_status") == "started"]
            ends = [m for m in msgs if m.get("action_type") == at and m.get("action_status") in ("succeeded", "failed")]
            if len(starts) != 1 or len(ends) != 1:
                problems.append("action %s failing with %s has %d start and %d end messages" % (at, cls_name, len(starts), len(ends)))
                continue
            e = ends[0]
            notes["judged"] += 1
            if e.get("action_status") != "failed" or e.get("exception") != excs.qualname(cls) or e.get("reason") != str(conc_instance(cls_name, label)):
                problems.append("action %s failing with %s: end message says %r / %r / %r" % (at, cls_name, e.get("action_status"), e.get("exception"), e.get("reason")))
                continue
            got = {k: v for k, v in e.items() if k.startswith("ext_") or k == "errno"}
            if got not in options:
                nearest = options[-1]
                problems.append("extractors registered concurrently (%s): an action failing with %s %s logged the extractor fields %r, expected %s" % (
                    regs_text, cls_name, when, got,
                    ("those of the extractor registered for the nearest class in its MRO, %r" % (nearest,)) if len(options) == 1 else ("one of %r" % (options,))))
    out["tape"] = [{k: v for k, v in m.items() if k not in ("timestamp", "task_uuid")} for m in msgs if m.get("action_status") == "failed"][:8]
    return out


class _Null(object):
    def __enter__(self):
        return None

    def __exit__(self, *a):
        return None


def part_concreg(spec):
    res = {"evals": 0, "nontrivial": [], "counters": {}, "violations": [], "sets": {"concreg_interleavings": [], "concreg_preemption_lines": []}}
    rng = random.Random("%s:C03:concreg:%d" % (spec["seed"], spec["i"]))
    sc = gen_concreg(rng, spec["i"])
    names = ["W%d" % j for j in range(len(sc["workers"]))]
    reg_only = set("W%d" % j for j, w in enumerate(sc["workers"]) if w["kind"] == "reg")
    c = res["counters"]
    c["concreg_scenarios"] = 1

    def execute(plan_, label):
        kind, data = call_in_fork(lambda: concreg_once(plan_, sc), timeout=120)
        res["evals"] += 1
        c["concreg_schedules_run"] = c.get("concreg_schedules_run", 0) + 1
        if kind in ("timeout", "died"):
            res["inconclusive"] = "concreg child %s" % kind
            return None
        problems = []
        if kind != "ok":
            problems.append("concreg run failed: %s" % str(data)[-400:])
            st = None
        else:
            st = data["stats"]
            if st["deadlock"]:
                problems.append("threads registering exception extractors / failing actions deadlocked: %s" % st["deadlock"])
            elif st["aborted"]:
                res["inconclusive"] = "schedule abandoned: %s" % st["aborted"]
                return st
            else:
                for k, e in data["errors"].items():
                    problems.append("thread %s raised %s" % (k, e))
                problems.extend(data["problems"])
                c["concreg_failures_judged"] = c.get("concreg_failures_judged", 0) + data["notes"]["judged"]
                c["concreg_failures_inside_threads"] = c.get("concreg_failures_inside_threads", 0) + data["notes"]["thread_failures"]
                c["concreg_register_calls_that_raised"] = c.get("concreg_register_calls_that_raised", 0) + data["notes"]["register_raised"]
                res["sets"]["concreg_interleavings"].append(h(st["trace"]))
                for nm, k, loc in st["fired"]:
                    res["sets"]["concreg_preemption_lines"].append(loc)
                    if nm in reg_only:
                        # everything such a thread does under the scheduler happens inside its register_exception_extractor call(s)
                        c["concreg_preemptions_inside_register"] = c.get("concreg_preemptions_inside_register", 0) + 1
                if st["fired"]:
                    res["nontrivial"].append(h(["concreg", sc, st["trace"]]))
                if res.get("sample") is None and label == "1-preemption" and spec["i"] == 0:
                    res["sample"] = {"part": "concreg", "scenario": sc, "plan": plan_, "failed_ends": data.get("tape")}
        if problems and len(res["violations"]) < 3:
            res["violations"].append({"msg": problems[0], "mech": None, "detail": {"part": "concreg", "scenario": sc, "plan": plan_, "problems": problems[:5], "label": label,
                                                                                 "register_errors": (data.get("notes", {}).get("register_errors") if kind == "ok" else None)}})
        return st

    base = None
    for order in itertools.permutations(names):
        base = execute({"order": list(order), "changes": []}, "baseline")
        if base is None:
            return res
        for p in sched.one_preemption_plans(list(order), base["events"]):
            execute(p, "1-preemption")
            if len(res["violations"]) >= 3:
                return res
    for p in sched.sampled_plans(rng, names, base["events"], 12 if spec["tier"] == "quick" else 60):
        execute(p, "sampled")
        if len(res["violations"]) >= 3:
            break
    return res


def run_case(spec):
    if spec["part"] == "interrupt":
        return part_interrupt(spec)
    if spec["part"] == "concreg":
        return part_concreg(spec)
    rng = random.Random("%s:C03:%s:%d" % (spec["seed"], spec["part"], spec["i"]))
    res = {"evals": 1, "nontrivial": [], "counters": {}, "violations": [], "sets": {"exception_classes_failed": [], "lookup_depths": []}}
    # ---- extractor registrations
    regs = {}
    p_reg = rng.choice([0.0, 0.15, 0.3, 0.6])
    allow_recursive = rng.random() < 0.25
    for name in REG_CLASSES:
        if rng.random() < p_reg:
            raising = rng.random() < 0.3
            if raising and name in ("BaseException", "Exception") and not allow_recursive:
                raising = False
            regs[name] = "raise" if raising else "ok"
    calls = {"n": 0, "raised": 0}

    def make_extractor(name, kind):
        def extractor(e):
            calls["n"] += 1
            if kind == "raise":
                calls["raised"] += 1
                if len(name) % 3 == 0:
                    # fail with a class that other (possibly failing) extractors are registered for: cycles must not recurse
                    raise excs.make(["ValueError", "KeyError", "UserError", "RuntimeError", "OSError"][len(name) % 5], "extractor for %s failed" % name)
                raise ExtractorBoom("extractor for %s failed" % name)
            if calls["n"] % 3 == 0:
                # an extractor that gathers its facts through a helper which is itself logged as an action - and fails: that inner
                # failed action is entitled to the fields of ITS exception's extractor like any other
                calls["helpers"] = calls.get("helpers", 0) + 1
                try:
                    with start_action(action_type="ext:helper"):
                        raise HelperError("helper of the extractor for %s failed" % name)
                except HelperError:
                    pass
            out = {"ext_" + name: [name, len(type(e).__mro__)], "ext_common": name}
            if len(name) % 2:
                # field names eliot itself uses on failed ends: the truthful class name and text must win
                out.update({"exception": "mine.Other", "reason": "not the real text", "action_status": "succeeded"})
            return out
        return extractor

    register_exception_extractor(HelperError, lambda e: {"helper_code": 7})
    for name, kind in regs.items():
        register_exception_extractor(CLASSMAP[name], make_extractor(name, kind))
    registry = dict((CLASSMAP[n], (n, k)) for n, k in regs.items())
    if OSError not in registry:
        registry[OSError] = ("OSError", "default")

    expected_extractor_tracebacks = [0]
    lookups = []

    def expect_fields(exc):
        for depth, klass in enumerate(type(exc).__mro__):
            hit = next((v for k, v in registry.items() if k is klass), None)  # (by identity: a class object need not be hashable)
            if hit is not None:
                name, kind = hit
                lookups.append((type(exc).__name__, depth, kind))
                if kind == "default":
                    return {"errno": exc.errno}
                if kind == "raise":
                    expected_extractor_tracebacks[0] += 1
                    return {}
                return {"ext_" + name: [name, len(type(exc).__mro__)], "ext_common": name}
        lookups.append((type(exc).__name__, -1, "none"))
        return {}

    if spec["part"] == "matrix":
        prog = chain_program(rng, spec["exc"], spec["depth"], spec["style"])
    else:
        g = gen.ProgGen(rng, max_depth=rng.choice([2, 3, 5]), max_nodes=30, value_depth=1, allow_remote=False, fail_p=0.5)
        prog = g.program()
    tape = Tape()
    rec = Recorder(tape, "rec")
    add_destinations(rec)
    it = Interp(tape=tape)
    it.explicit_loggers = True
    it.extractors = expect_fields
    mech = None
    late = []
    try:
        # extractors may be registered (or replaced) at any time: between top-level parts of the program further
        # registrations are made, also for classes whose subclasses have already failed once (multi-step history)
        for node in prog:
            if regs is not None and rng.random() < 0.35:
                name = rng.choice(REG_CLASSES)
                kind = "raise" if (rng.random() < 0.25 and (allow_recursive or name not in ("BaseException", "Exception"))) else "ok"
                tag = "%s#%d" % (name, len(late) + 1)
                regs[name] = kind
                late.append((name, kind))
                register_exception_extractor(CLASSMAP[name], make_extractor(tag, kind))
                registry[CLASSMAP[name]] = (tag, kind)
            if rng.random() < 0.25:
                # this part of the program runs while the application is handling an unrelated exception (a retry loop's except
                # clause, a clean-up handler): actions that succeed there succeeded, actions that fail there failed with their own exception
                try:
                    raise AmbientError("being handled while the program logs")
                except AmbientError:
                    it.exec_children([node], None, None, top=True)
                res["counters"]["program_parts_run_while_another_exception_is_handled"] = res["counters"].get("program_parts_run_while_another_exception_is_handled", 0) + 1
            else:
                it.exec_children([node], None, None, top=True)
        forest = it.forest
    finally:
        remove_destination(rec)
    problems = [v["msg"] for v in it.violations if "current_action" not in v["msg"]]

    # ---- tape oracle
    msgs = tape.msgs("rec")
    gt = {}

    def walk(nodes):
        for n in nodes:
            if n["kind"] == "action":
                gt[n["nid"]] = n
                walk(n["children"])
    walk(forest)
    starts = {}
    ends = {}
    tb_extractor = 0
    helper_ends = 0
    for m in msgs:
        if m.get("action_type") == "ext:helper":
            if m.get("action_status") != "started":
                helper_ends += 1
                if m.get("action_status") != "failed" or m.get("helper_code") != 7 or m.get("exception") != excs.qualname(HelperError):
                    problems.append("an action that failed inside an exception extractor was logged as %r without its own extractor's fields: %r" % (
                        m.get("action_status"), {k: v for k, v in m.items() if k not in ("timestamp", "task_uuid", "task_level")}))
            continue
        if "action_type" in m:
            key = (m["task_uuid"], tuple(m["task_level"][:-1]))
            if m.get("action_status") == "started":
                starts.setdefault(key, []).append(m)
            else:
                ends.setdefault(key, []).append(m)
        elif m.get("message_type") == "eliot:traceback" and "extractor for " in str(m.get("reason")) and " failed" in str(m.get("reason")):
            tb_extractor += 1
    seen_nids = set()
    for key, ss in starts.items():
        if len(ss) != 1:
            problems.append("action at %s has %d start messages" % (key[1], len(ss)))
        s = ss[0]
        nid = s.get("nid")
        node = gt.get(nid)
        if node is None:
            problems.append("start message with unknown nid %r" % (nid,))
            continue
        seen_nids.add(nid)
        es = ends.get(key, [])
        if len(es) != 1:
            problems.append("action %s (%s, outcome %s, exc %s) has %d end messages" % (nid, node["style"], node["status"], node.get("exc_class"), len(es)))
            continue
        e = es[0]
        if e.get("action_type") != node["type"] or s.get("action_type") != node["type"]:
            problems.append("action %s: action_type differs between start/end/expected" % nid)
        if e.get("action_status") != node["status"]:
            problems.append("action %s (%s): end status %r but body outcome was %r (%s)" % (
                nid, node["style"], e.get("action_status"), node["status"], node.get("exc_class")))
            continue
        strip = ("task_uuid", "task_level", "timestamp", "action_type", "action_status")
        got_start = {k: v for k, v in s.items() if k not in strip}
        got_end = {k: v for k, v in e.items() if k not in strip}
        for label, exp, got in (("start", node["start"], got_start), ("end", node["end"], got_end)):
            for k, v in exp.items():
                if k not in got:
                    problems.append("action %s %s message lacks field %r" % (nid, label, k))
                elif v == ANYTEXT:
                    if not isinstance(got[k], str):
                        problems.append("action %s %s field %r is not text" % (nid, label, k))
                elif not json_equal(v, got[k]):
                    problems.append("action %s %s field %r = %r, expected %r" % (nid, label, k, got[k], v))
            for k in got:
                if k not in exp:
                    problems.append("action %s (%s, %s) %s message has unexpected field %r" % (nid, node["style"], node["status"], label, k))
    for key in ends:
        if key not in starts:
            problems.append("end message without start at %s" % (key[1],))
    for nid in gt:
        if nid not in seen_nids:
            problems.append("action %s emitted no start message" % nid)
    if tb_extractor != expected_extractor_tracebacks[0]:
        problems.append("%d eliot:traceback messages about failing extractors, expected %d" % (tb_extractor, expected_extractor_tracebacks[0]))

    # ---- evidence
    st = gen.prog_stats(prog)
    c = res["counters"]
    c["actions_checked"] = len(gt)
    c["failed_actions"] = sum(1 for n in gt.values() if n["status"] == "failed")
    c["extractor_calls"] = calls["n"]
    c["actions_failed_inside_extractors"] = calls.get("helpers", 0)
    if helper_ends != calls.get("helpers", 0):
        problems.append("%d helper actions failed inside extractors, %d end messages for them" % (calls.get("helpers", 0), helper_ends))
    c["extractor_raises"] = calls["raised"]
    c["repeated_finish_calls"] = it.counters.get("extra_finish", 0)
    c["late_registrations"] = len(late)
    c["exception_identity_checks"] = len(gt)
    for cls, depth, kind in lookups:
        res["sets"]["lookup_depths"].append("%s@%d:%s" % (cls, depth, kind))
        if cls in gen.EXC_BASE or depth >= 2:
            res["nontrivial"].append(h([cls, depth, kind, spec.get("style"), spec.get("depth"), sorted(regs.items())]))
    res["sets"]["exception_classes_failed"] = sorted(set(n.get("exc_class") for n in gt.values() if n.get("exc_class")))
    if it.counters.get("extra_finish"):
        res["nontrivial"].append(h(["refinish", gen.prog_shape(prog)]))
    if spec["i"] % 97 == 0:
        res["sample"] = {"spec": spec, "registrations": regs, "program": prog,
                         "tape": [{k: v for k, v in m.items() if k not in ("timestamp", "task_uuid", "traceback")} for m in msgs][:12]}
    if problems:
        res["violations"].append({"msg": problems[0], "mech": mech,
                                  "detail": {"problems": problems[:10], "registrations": regs, "program": prog}})
    return res


def finalize(agg, tier):
    c = agg["counters"]
    if c.get("failed_actions", 0) < 200 or c.get("extractor_raises", 0) < 10:
        return "too few failed actions / raising extractors observed"
    if ENABLE_CONCREG:
        if c.get("concreg_schedules_run", 0) < 100 or c.get("concreg_failures_judged", 0) < 1000:
            return "part 'concreg' (extractors registered concurrently) ran too few schedules / judged too few failed actions"
        if c.get("concreg_preemptions_inside_register", 0) < 10:
            return "fewer than 10 preemptions landed inside a register_exception_extractor call (part 'concreg')"
        if c.get("concreg_failures_inside_threads", 0) < 10:
            return "part 'concreg': no thread failed an action of its own while others were registering"
    return None
