"""C03 - one start, one truthful end, exceptions pass through (exactly-once/truthful-end tape checker)."""

import random

from eliot import add_destinations, register_exception_extractor, remove_destination, start_action

from vf import excs, gen
from vf.gen import json_equal
from vf.interp import ANYTEXT, Interp
from vf.runner import h
from vf.tape import Recorder, Tape

ID = "C03"
LEVEL = "exploration"
RULE = ("each forked case registers extractors (healthy or raising) on a random subset of the classes occurring in the MROs of "
        "the exception pool, then runs a ProgGen program (random part) or a systematic chain (matrix part: every exception class "
        "x nesting depth 1..5 x action style, innermost raises and crosses all enclosing actions); further registrations / replacements are made between the top-level parts of a program, so later failures must see them. A third of the explicit logger arguments is an application-defined ILogger whose write() returns a truthy value. Oracle over the healthy "
        "destination's tape: per action exactly one 'started' and one end message; failed iff an exception escaped the body; "
        "exception=module.Class, reason=str(exc) when str works; extractor fields = those of the nearest registered class in the MRO "
        "({} plus exactly one eliot:traceback when it raises); start fields only on start, success fields only on succeeded; repeated "
        "finish adds nothing; actions failing inside an extractor keep their own extractor's fields; after an interrupt (non-Exception from a destination) during an "
        "extractor-failure report later failures still get their fields; the object leaving the block is the raised object. non-trivial = failed with a non-Exception class, or "
        "MRO lookup depth >=2, or repeated finish; distinct by (exception class, lookup depth, style, nesting depth, registration set)")
ASSUMPTIONS = ["extractors return dicts of JSON-native values", "extractors raise Exception subclasses"]
BATCH_MATRIX = 1

REG_CLASSES = ["BaseException", "Exception", "OSError", "LookupError", "ArithmeticError", "ValueError", "KeyError", "UserError",
               "MidUserError", "DeepUserError", "UserBase", "RuntimeError", "FileNotFoundError", "MixedError", "BadStr"]
CLASSMAP = dict(excs.POOL, BaseException=BaseException, Exception=Exception, LookupError=LookupError, ArithmeticError=ArithmeticError)


class ExtractorBoom(Exception):
    pass


class HelperError(Exception):
    pass


def plan(tier, seed):
    n = 15000 if tier == "quick" else 150000
    specs = [{"part": "random", "seed": seed, "i": i, "tier": tier} for i in range(n)]
    names = sorted(excs.POOL)
    j = 0
    for j2 in range(200 if tier == "quick" else 2000):
        specs.append({"part": "interrupt", "seed": seed, "i": j2, "tier": tier})
    for name in names:
        for depth in range(1, 6):
            for style in (gen.ACT_STYLES if tier == "thorough" else ["with", "ctx_finish", "run_finish", "log_call", "ActionType"]):
                specs.append({"part": "matrix", "seed": seed, "i": j, "exc": name, "depth": depth, "style": style, "tier": tier})
                j += 1
    return specs


def chain_program(rng, exc, depth, style):
    g = gen.ProgGen(rng, max_depth=0, value_depth=1)
    node = None
    for d in range(depth):
        n = g.act(99, force_style=style if d == 0 else rng.choice(gen.ACT_STYLES))
        n["children"] = [g.msg()] + ([node] if node else []) + [g.msg()]
        n["outcome"] = "ok"
        n.pop("exc", None)
        if node is None:
            n["outcome"] = "raise"
            n["exc"] = exc
            n["cross"] = depth - 1
        node = n
    return [node]


def part_interrupt(spec):
    """A BaseException (think KeyboardInterrupt) comes out of a destination while an end message is being delivered: however the
    program then leaves the block or finishes again, the action still has exactly one end message."""
    from eliot import start_action, log_message
    rng = random.Random("%s:C03:int:%d" % (spec["seed"], spec["i"]))
    res = {"evals": 1, "nontrivial": [], "counters": {"interrupt_cases": 1}, "violations": [], "sets": {}}
    tape = Tape()
    rec = Recorder(tape, "rec")
    state = {"n": 0, "armed": None}

    def interrupter(m):
        # placed AFTER the recorder: the message has been recorded when the interrupt strikes
        if m.get("action_status") in ("succeeded", "failed") and m.get("action_type") == "victim" and state["armed"]:
            state["armed"] = False
            raise excs.UserBase("interrupt while the end message is being delivered")

    add_destinations(rec, interrupter)
    style = rng.choice(["explicit_then_exit", "exit_then_finally", "explicit_twice", "during_extractor_report"])
    if style == "during_extractor_report":
        # the interrupt strikes while the traceback of a RAISING EXTRACTOR is being delivered; the program handles it and goes
        # on: later failed actions still get the fields of their exceptions' extractors (here the built-in errno one)
        from eliot import register_exception_extractor

        def boom(e):
            raise ExtractorBoom("extractor failed")
        register_exception_extractor(HelperError, boom)
        hit = {"armed": True}

        def interrupter2(m):
            if m.get("message_type") == "eliot:traceback" and hit["armed"]:
                hit["armed"] = False
                raise excs.UserBase("interrupt while the extractor's traceback is being delivered")
        add_destinations(interrupter2)
        problems = []
        got = None
        try:
            try:
                with start_action(action_type="first"):
                    raise HelperError("fails, its extractor raises, the report is interrupted")
            except (excs.UserBase, HelperError) as e:
                got = e
            for k in range(2):
                try:
                    with start_action(action_type="later", k=k):
                        raise OSError(28, "disk full")
                except OSError:
                    pass
        finally:
            remove_destination(rec)
            remove_destination(interrupter)
            remove_destination(interrupter2)
        if not isinstance(got, excs.UserBase):
            problems.append("the interrupt raised by the destination did not reach the program (got %r)" % (got,))
        later = [m for m in tape.msgs("rec") if m.get("action_type") == "later" and m.get("action_status") == "failed"]
        if len(later) != 2 or any(m.get("errno") != 28 for m in later):
            problems.append("after an interrupt during an extractor-failure report, later failed actions lack their extractor's fields: %r" % (
                [{k: v for k, v in m.items() if k in ("errno", "exception", "action_status")} for m in later],))
        res["nontrivial"].append(h(["interrupt", style]))
        if problems:
            res["violations"].append({"msg": problems[0], "mech": None, "detail": {"part": "interrupt", "style": style, "problems": problems}})
        return res
    state["armed"] = True
    got = None
    try:
        with start_action(action_type="outer"):
            if style == "explicit_then_exit":
                with start_action(action_type="victim") as a:
                    log_message(message_type="m")
                    a.finish()  # interrupted; __exit__ will call finish(exc) afterwards
            elif style == "exit_then_finally":
                a = start_action(action_type="victim")
                try:
                    with a:
                        log_message(message_type="m")
                finally:
                    a.finish()  # a careful program finishing again after the interrupted __exit__
            else:
                a = start_action(action_type="victim")
                try:
                    a.finish()
                finally:
                    a.finish(RuntimeError("again"))
    except excs.UserBase as e:
        got = e
    finally:
        remove_destination(rec)
        remove_destination(interrupter)
    problems = []
    if got is None:
        problems.append("the interrupt raised by the destination did not reach the program")
    ends = [m for m in tape.msgs("rec") if m.get("action_type") == "victim" and m.get("action_status") in ("succeeded", "failed")]
    if len(ends) != 1:
        problems.append("%s: the interrupted action logged %d end messages (%s)" % (style, len(ends), [m.get("action_status") for m in ends]))
    res["nontrivial"].append(h(["interrupt", style]))
    if problems:
        res["violations"].append({"msg": problems[0], "mech": None, "detail": {"part": "interrupt", "style": style, "problems": problems}})
    return res


def run_case(spec):
    if spec["part"] == "interrupt":
        return part_interrupt(spec)
    rng = random.Random("%s:C03:%s:%d" % (spec["seed"], spec["part"], spec["i"]))
    res = {"evals": 1, "nontrivial": [], "counters": {}, "violations": [], "sets": {"exception_classes_failed": [], "lookup_depths": []}}
    # ---- extractor registrations
    regs = {}
    p_reg = rng.choice([0.0, 0.15, 0.3, 0.6])
    allow_recursive = rng.random() < 0.25
    for name in REG_CLASSES:
        if rng.random() < p_reg:
            raising = rng.random() < 0.3
            if raising and name in ("BaseException", "Exception") and not allow_recursive:
                raising = False
            regs[name] = "raise" if raising else "ok"
    calls = {"n": 0, "raised": 0}

    def make_extractor(name, kind):
        def extractor(e):
            calls["n"] += 1
            if kind == "raise":
                calls["raised"] += 1
                if len(name) % 3 == 0:
                    # fail with a class that other (possibly failing) extractors are registered for: cycles must not recurse
                    raise excs.make(["ValueError", "KeyError", "UserError", "RuntimeError", "OSError"][len(name) % 5], "extractor for %s failed" % name)
                raise ExtractorBoom("extractor for %s failed" % name)
            if calls["n"] % 3 == 0:
                # an extractor that gathers its facts through a helper which is itself logged as an action - and fails: that inner
                # failed action is entitled to the fields of ITS exception's extractor like any other
                calls["helpers"] = calls.get("helpers", 0) + 1
                try:
                    with start_action(action_type="ext:helper"):
                        raise HelperError("helper of the extractor for %s failed" % name)
                except HelperError:
                    pass
            out = {"ext_" + name: [name, len(type(e).__mro__)], "ext_common": name}
            if len(name) % 2:
                # field names eliot itself uses on failed ends: the truthful class name and text must win
                out.update({"exception": "mine.Other", "reason": "not the real text", "action_status": "succeeded"})
            return out
        return extractor

    register_exception_extractor(HelperError, lambda e: {"helper_code": 7})
    for name, kind in regs.items():
        register_exception_extractor(CLASSMAP[name], make_extractor(name, kind))
    registry = dict((CLASSMAP[n], (n, k)) for n, k in regs.items())
    if OSError not in registry:
        registry[OSError] = ("OSError", "default")

    expected_extractor_tracebacks = [0]
    lookups = []

    def expect_fields(exc):
        for depth, klass in enumerate(type(exc).__mro__):
            if klass in registry:
                name, kind = registry[klass]
                lookups.append((type(exc).__name__, depth, kind))
                if kind == "default":
                    return {"errno": exc.errno}
                if kind == "raise":
                    expected_extractor_tracebacks[0] += 1
                    return {}
                return {"ext_" + name: [name, len(type(exc).__mro__)], "ext_common": name}
        lookups.append((type(exc).__name__, -1, "none"))
        return {}

    if spec["part"] == "matrix":
        prog = chain_program(rng, spec["exc"], spec["depth"], spec["style"])
    else:
        g = gen.ProgGen(rng, max_depth=rng.choice([2, 3, 5]), max_nodes=30, value_depth=1, allow_remote=False, fail_p=0.5)
        prog = g.program()
    tape = Tape()
    rec = Recorder(tape, "rec")
    add_destinations(rec)
    it = Interp(tape=tape)
    it.explicit_loggers = True
    it.extractors = expect_fields
    mech = None
    late = []
    try:
        # extractors may be registered (or replaced) at any time: between top-level parts of the program further
        # registrations are made, also for classes whose subclasses have already failed once (multi-step history)
        for node in prog:
            if regs is not None and rng.random() < 0.35:
                name = rng.choice(REG_CLASSES)
                kind = "raise" if (rng.random() < 0.25 and (allow_recursive or name not in ("BaseException", "Exception"))) else "ok"
                tag = "%s#%d" % (name, len(late) + 1)
                regs[name] = kind
                late.append((name, kind))
                register_exception_extractor(CLASSMAP[name], make_extractor(tag, kind))
                registry[CLASSMAP[name]] = (tag, kind)
            it.exec_children([node], None, None, top=True)
        forest = it.forest
    finally:
        remove_destination(rec)
    problems = [v["msg"] for v in it.violations if "current_action" not in v["msg"]]

    # ---- tape oracle
    msgs = tape.msgs("rec")
    gt = {}

    def walk(nodes):
        for n in nodes:
            if n["kind"] == "action":
                gt[n["nid"]] = n
                walk(n["children"])
    walk(forest)
    starts = {}
    ends = {}
    tb_extractor = 0
    helper_ends = 0
    for m in msgs:
        if m.get("action_type") == "ext:helper":
            if m.get("action_status") != "started":
                helper_ends += 1
                if m.get("action_status") != "failed" or m.get("helper_code") != 7 or m.get("exception") != excs.qualname(HelperError):
                    problems.append("an action that failed inside an exception extractor was logged as %r without its own extractor's fields: %r" % (
                        m.get("action_status"), {k: v for k, v in m.items() if k not in ("timestamp", "task_uuid", "task_level")}))
            continue
        if "action_type" in m:
            key = (m["task_uuid"], tuple(m["task_level"][:-1]))
            if m.get("action_status") == "started":
                starts.setdefault(key, []).append(m)
            else:
                ends.setdefault(key, []).append(m)
        elif m.get("message_type") == "eliot:traceback" and "extractor for " in str(m.get("reason")) and " failed" in str(m.get("reason")):
            tb_extractor += 1
    seen_nids = set()
    for key, ss in starts.items():
        if len(ss) != 1:
            problems.append("action at %s has %d start messages" % (key[1], len(ss)))
        s = ss[0]
        nid = s.get("nid")
        node = gt.get(nid)
        if node is None:
            problems.append("start message with unknown nid %r" % (nid,))
            continue
        seen_nids.add(nid)
        es = ends.get(key, [])
        if len(es) != 1:
            problems.append("action %s (%s, outcome %s, exc %s) has %d end messages" % (nid, node["style"], node["status"], node.get("exc_class"), len(es)))
            continue
        e = es[0]
        if e.get("action_type") != node["type"] or s.get("action_type") != node["type"]:
            problems.append("action %s: action_type differs between start/end/expected" % nid)
        if e.get("action_status") != node["status"]:
            problems.append("action %s (%s): end status %r but body outcome was %r (%s)" % (
                nid, node["style"], e.get("action_status"), node["status"], node.get("exc_class")))
            continue
        strip = ("task_uuid", "task_level", "timestamp", "action_type", "action_status")
        got_start = {k: v for k, v in s.items() if k not in strip}
        got_end = {k: v for k, v in e.items() if k not in strip}
        for label, exp, got in (("start", node["start"], got_start), ("end", node["end"], got_end)):
            for k, v in exp.items():
                if k not in got:
                    problems.append("action %s %s message lacks field %r" % (nid, label, k))
                elif v == ANYTEXT:
                    if not isinstance(got[k], str):
                        problems.append("action %s %s field %r is not text" % (nid, label, k))
                elif not json_equal(v, got[k]):
                    problems.append("action %s %s field %r = %r, expected %r" % (nid, label, k, got[k], v))
            for k in got:
                if k not in exp:
                    problems.append("action %s (%s, %s) %s message has unexpected field %r" % (nid, node["style"], node["status"], label, k))
    for key in ends:
        if key not in starts:
            problems.append("end message without start at %s" % (key[1],))
    for nid in gt:
        if nid not in seen_nids:
            problems.append("action %s emitted no start message" % nid)
    if tb_extractor != expected_extractor_tracebacks[0]:
        problems.append("%d eliot:traceback messages about failing extractors, expected %d" % (tb_extractor, expected_extractor_tracebacks[0]))

    # ---- evidence
    st = gen.prog_stats(prog)
    c = res["counters"]
    c["actions_checked"] = len(gt)
    c["failed_actions"] = sum(1 for n in gt.values() if n["status"] == "failed")
    c["extractor_calls"] = calls["n"]
    c["actions_failed_inside_extractors"] = calls.get("helpers", 0)
    if helper_ends != calls.get("helpers", 0):
        problems.append("%d helper actions failed inside extractors, %d end messages for them" % (calls.get("helpers", 0), helper_ends))
    c["extractor_raises"] = calls["raised"]
    c["repeated_finish_calls"] = it.counters.get("extra_finish", 0)
    c["late_registrations"] = len(late)
    c["exception_identity_checks"] = len(gt)
    for cls, depth, kind in lookups:
        res["sets"]["lookup_depths"].append("%s@%d:%s" % (cls, depth, kind))
        if cls in gen.EXC_BASE or depth >= 2:
            res["nontrivial"].append(h([cls, depth, kind, spec.get("style"), spec.get("depth"), sorted(regs.items())]))
    res["sets"]["exception_classes_failed"] = sorted(set(n.get("exc_class") for n in gt.values() if n.get("exc_class")))
    if it.counters.get("extra_finish"):
        res["nontrivial"].append(h(["refinish", gen.prog_shape(prog)]))
    if spec["i"] % 97 == 0:
        res["sample"] = {"spec": spec, "registrations": regs, "program": prog,
                         "tape": [{k: v for k, v in m.items() if k not in ("timestamp", "task_uuid", "traceback")} for m in msgs][:12]}
    if problems:
        res["violations"].append({"msg": problems[0], "mech": mech,
                                  "detail": {"problems": problems[:10], "registrations": regs, "program": prog}})
    return res


def finalize(agg, tier):
    c = agg["counters"]
    if c.get("failed_actions", 0) < 200 or c.get("extractor_raises", 0) < 10:
        return "too few failed actions / raising extractors observed"
    return None
