"""C04 - context scoping and restoration (context probes against a shadow stack)."""

import random

from eliot import add_destinations, remove_destination
from eliot.parse import Parser

from vf import gen, oracles
from vf.interp import Interp
from vf.runner import h
from vf.tape import Recorder, Tape

ID = "C04"
LEVEL = "exploration"
RULE = ("random nestings (depth up to 8) of `with action`, `with action.context()` + finish, `action.run(f)` + finish, blocks held "
        "open by a plain generator and left by close()/throw(), start_task and typed variants, each optionally re-entering "
        "context()/run() of the already-current action 1-3 times, each level leaving by return or by an exception of the pool "
        "(crossing 0-5 enclosing levels). current_action() is probed before, inside and after every construct and after every "
        "child against the interpreter's shadow stack (identity); the recorded tape is parsed and compared with the ground-truth "
        "forest so that children/new tasks/context-less messages are attributed as executed. A fifth of the with/context()/run blocks is "
        "entered and run on another thread than the one that created the Action. part 'scenario': an enclosing action finished explicitly from inside an inner block (every block still restores its predecessor, one end "
        "message each), and a generator returned through Action.run() iterated after run() returned (the action is current during run() only). "
        "part 'fork': os.fork() inside 1-4 open blocks; the child "
        "finds the innermost action current, logs below it, and leaving the inherited blocks restores the enclosing actions. "
        "part 'recursion': a recursive function / node method of the shape `with node_action: recurse(child)` (also context()/run() levels, 0-3 extra frames per "
        "level) over actions started beforehand runs into the interpreter's recursion limit (limit swept over a full period of the frames one level takes, so that "
        "the deepest block is entered at the very edge); the RecursionError is caught above all blocks or a few levels down, afterwards current_action() is what it "
        "was there and later messages/actions attach there. part 'inherit': flows that have their current action only through a copied context (asyncio task created "
        "inside `with start_action(...)` without `as`, call_soon/call_later callbacks, copy_context().run, a thread started through a copied context) and go on after "
        "the creating block was left, garbage collected and no Action object kept by the harness: the inherited action stays current, blocks entered before or "
        "after restore it, messages are placed below it (compared by task_uuid/task_level values). part 'handover': `cm = action.context()` created in one place (under another "
        "current action, earlier, on another thread, in another asyncio task or context) and entered with `with cm:` elsewhere, 1-3 of them nested: creating changes "
        "nothing where it is created, the action is current exactly inside the block where it is entered, leaving restores what was current there. "
        "part 'endfault': a block (`with action:` made by start_action/start_task/ActionType, a log_call-decorated function, a preserve_context callable on the same or another thread) inside 0-3 "
        "enclosing blocks is left - by return or by its own exception - while its end message cannot be written: the application logger the action was started with raises from write() for the "
        "end message, or a registered destination raises KeyboardInterrupt (plain, or a real SIGINT under the default handler) / SystemExit / an application's BaseException class while handling "
        "it; the application catches whatever comes out (0-1 enclosing blocks further up) and goes on: current_action() is again exactly the action that was current before entry, messages and "
        "sibling blocks started afterwards are its children (or their own tasks when there was none). part 'testcase': capture_logging/validate_logging-decorated unittest methods called while an "
        "action is current (runner or run() override wrapping each test case in `with start_action(...)`, an action entered in setUp through contextlib.ExitStack and left in tearDown / in a clean-up "
        "registered by setUp / in a clean-up registered by the test method, an action entered in the test method and left by a clean-up), outcomes pass/fail/error/skip/BaseException, run with "
        "TestCase.run(TestResult()) or debug(): in the test method, decorated helpers, tearDown, clean-ups and the decorator's assertion callback current_action() is the innermost block open at that "
        "moment and what is logged there is its child (found in the registered destination or in the test's MemoryLogger), and after the test case has run completely current_action() is exactly what "
        "it was before. non-trivial = an exceptional exit at "
        "depth >=2 (previous action not None); distinct by program shape")
ASSUMPTIONS = ["generator-held blocks are closed only when the driver's context is what it was at the yield (properly nested use)"]
BATCH = 50
STYLES = ["with", "with", "ctx_finish", "ctx_finish", "run_finish", "run_finish", "gen_with", "gen_context", "start_task", "log_call", "ActionType", "as_task"]


def plan(tier, seed):
    n = 12000 if tier == "quick" else 120000
    specs = [{"seed": seed, "lo": i, "hi": min(n, i + BATCH), "tier": tier} for i in range(0, n, BATCH)]
    k = 2000 if tier == "quick" else 20000
    specs += [{"part": "scenario", "seed": seed, "lo": i, "hi": min(k, i + 100), "tier": tier} for i in range(0, k, 100)]
    m = 200 if tier == "quick" else 2000
    specs += [{"part": "fork", "seed": seed, "lo": i, "hi": min(m, i + 20), "tier": tier} for i in range(0, m, 20)]
    q = 40 if tier == "quick" else 400
    specs += [{"part": "recursion", "seed": seed, "lo": i, "hi": min(q, i + 10), "tier": tier} for i in range(0, q, 10)]
    q = 280 if tier == "quick" else 2800
    specs += [{"part": "inherit", "seed": seed, "lo": i, "hi": min(q, i + 35), "tier": tier} for i in range(0, q, 35)]
    q = 300 if tier == "quick" else 3000
    specs += [{"part": "handover", "seed": seed, "lo": i, "hi": min(q, i + 50), "tier": tier} for i in range(0, q, 50)]
    q = 800 if tier == "quick" else 8000
    specs += [{"part": "endfault", "seed": seed, "lo": i, "hi": min(q, i + 100), "tier": tier} for i in range(0, q, 100)]
    q = 360 if tier == "quick" else 3600
    specs += [{"part": "testcase", "seed": seed, "lo": i, "hi": min(q, i + 60), "tier": tier} for i in range(0, q, 60)]
    return specs


def exceptional_deep(prog):
    """Number of action nodes at depth >= 2 that exit by exception (own or crossing)."""
    n = [0]

    def walk(nodes, d):
        raised = False
        for x in nodes:
            if x["k"] in ("act", "remote"):
                r = walk(x["children"], d + 1)
                own = x.get("outcome") == "raise"
                if (r or own) and d >= 2:
                    n[0] += 1
            else:
                continue
        return raised
    walk(prog, 1)
    return n[0]


def one(seed, i, tier, res):
    rng = random.Random("%s:C04:%d" % (seed, i))
    g = gen.ProgGen(rng, max_depth=rng.choice([3, 5, 8]), max_nodes=rng.choice([20, 45]), value_depth=0, act_styles=STYLES,
                    allow_remote=rng.random() < 0.3, allow_tb=False, allow_reenter=True, fail_p=rng.choice([0.2, 0.5]),
                    early_finish_p=0.15, extra_styles=("pre_created", "ctx_finish_inside"),
                    msg_styles=["log_message", "action.log", "Message.log"])
    prog = g.program()
    tape = Tape()
    rec = Recorder(tape, "rec")
    add_destinations(rec)
    it = Interp(tape=tape)
    it.explicit_loggers = True
    it.late_calls = True
    it.cross_thread = True
    try:
        forest = it.run(prog)
    finally:
        remove_destination(rec)
    problems = [v["msg"] for v in it.violations]
    try:
        tasks = list(Parser.parse_stream(tape.msgs("rec")))
        problems += oracles.compare_forest(forest, tasks)
    except BaseException as e:
        problems.append("parsing the tape raised %r" % (e,))
    st = gen.prog_stats(prog)
    c = res["counters"]
    c["context_probes"] = c.get("context_probes", 0) + it.probes
    for k, v in it.counters.items():
        if k.startswith(("act:", "reenter", "generator", "remote")):
            d = c.setdefault("constructs", {})
            d[k] = d.get(k, 0) + v
    c["max_depth_seen"] = max(c.get("max_depth_seen", 0), st["depth"])
    res["evals"] += 1
    if exceptional_deep(prog) and st["failed"]:
        res["nontrivial"].append(h(gen.prog_shape(prog)))
    if res.get("sample") is None and 3 <= st["nodes"] <= 8 and st["failed"]:
        res["sample"] = {"program": prog, "probes": it.probes}
    if problems:
        res["violations"].append({"msg": problems[0], "mech": None, "detail": {"case": i, "problems": problems[:10], "program": prog}})


def scenario_case(seed, i, res):
    """Hand-written shapes the program generator does not produce: (a) an OUTER action is finished explicitly from inside an inner
    block - scoping is by block, not by finish(), so every block still restores its predecessor; (b) Action.run(f) where f returns a
    generator that the caller iterates after run() has returned - the action is current during run() only."""
    from eliot import current_action, log_message, start_action
    rng = random.Random("%s:C04:scn:%d" % (seed, i))
    problems = []
    got = []
    add_destinations(got.append)

    def expect(action, where):
        res["counters"]["context_probes"] = res["counters"].get("context_probes", 0) + 1
        if current_action() is not action:
            problems.append("current_action() is %r, expected %r (%s)" % (current_action(), action, where))
    try:
        if i % 2 == 0:
            depth = rng.randint(2, 5)
            kinds = [rng.choice(["with", "context", "run"]) for _ in range(depth)]
            victim = rng.randrange(depth - 1)  # an ancestor of the innermost block
            stack = []

            def nest(level):
                if level == depth:
                    expect(stack[-1], "innermost block before the explicit finish()")
                    stack[victim].finish() if rng.random() < 0.5 else stack[victim].finish(RuntimeError("given up"))
                    expect(stack[-1], "innermost block after finish() of the action of enclosing block %d" % victim)
                    log_message(message_type="scn:m", n=1)
                    return
                a = start_action(action_type="scn:lvl%d" % level)
                stack.append(a)
                if kinds[level] == "with":
                    with a:
                        expect(a, "inside with-block %d" % level)
                        nest(level + 1)
                        expect(a, "with-block %d after its inner block was left (action %sfinished early)" % (level, "" if level == victim else "not "))
                elif kinds[level] == "context":
                    with a.context():
                        expect(a, "inside context() %d" % level)
                        nest(level + 1)
                        expect(a, "context() %d after its inner block was left" % level)
                    a.finish()
                else:
                    def body():
                        expect(a, "inside run() %d" % level)
                        nest(level + 1)
                        expect(a, "run() %d after its inner block was left" % level)
                    a.run(body)
                    a.finish()
                stack.pop()
                expect(stack[-1] if stack else None, "after leaving block %d (%s)" % (level, kinds[level]))
            nest(0)
            ends = [m for m in got if m.get("action_status") in ("succeeded", "failed")]
            if len(ends) != depth:
                problems.append("%d actions, %d end messages (an action finished early from an inner block must still end exactly once)" % (depth, len(ends)))
            res["nontrivial"].append(h(["outer-finish", kinds, victim]))
        else:
            outer = rng.choice([None, "consumer"])
            consumer = start_action(action_type="scn:consumer") if outer else None
            a = start_action(action_type="scn:producer")
            seen = []

            def producer(n):
                for k in range(n):
                    seen.append(current_action())
                    log_message(message_type="scn:item", n=k)
                    yield k

            def consume():
                it_ = a.run(producer, 3)
                expect(consumer, "after run() returned a generator")
                for k in it_:
                    expect(consumer, "between steps of a generator returned through Action.run()")
                    log_message(message_type="scn:consumed", n=k)
                    if rng.random() < 0.3:
                        break
                expect(consumer, "after iterating the generator")
            if consumer is not None:
                with consumer:
                    consume()
            else:
                consume()
            a.finish()
            expect(None, "after everything")
            if any(x is not consumer for x in seen):
                problems.append("the body of a generator returned through Action.run() ran with current_action() %r; it runs when iterated, in the iterating code's context" % (seen[:2],))
            res["nontrivial"].append(h(["run-generator", outer]))
    except BaseException as e:
        problems.append("scenario raised %r" % (e,))
    finally:
        remove_destination(got.append)
    res["evals"] += 1
    c = res["counters"]
    c["scenarios"] = c.get("scenarios", 0) + 1
    if problems:
        res["violations"].append({"msg": problems[0], "mech": None, "detail": {"part": "scenario", "case": i, "problems": problems[:6]}})


def fork_case(seed, i, res):
    """os.fork() while 1-4 scoping blocks are open: the child is still lexically inside them, so current_action() there is the
    innermost action, what it logs is attributed to it, blocks it enters nest below it, and leaving the inherited blocks restores
    the enclosing actions one by one."""
    import json
    import os
    from eliot import current_action, log_message, start_action
    rng = random.Random("%s:C04:fork:%d" % (seed, i))
    depth = rng.randint(1, 4)
    kinds = [rng.choice(["with", "context", "run"]) for _ in range(depth)]
    got = []
    add_destinations(got.append)
    r, w = os.pipe()
    stack = []

    def child_checks():
        problems = []
        inner = stack[-1]
        if current_action() is not inner:
            problems.append("after fork, inside %d open blocks: current_action() is %r, expected the innermost action" % (depth, current_action()))
        del got[:]
        log_message(message_type="in-child", n=1)
        with start_action(action_type="child-action") as a:
            if current_action() is not a:
                problems.append("in the forked child a newly entered action is not current")
        if current_action() is not inner:
            problems.append("in the forked child, leaving a block entered after the fork restored %r instead of the enclosing action" % (current_action(),))
        for m in got:
            if m["task_uuid"] != inner.task_uuid or m["task_level"][:-1 if "action_type" not in m else -2] != inner._task_level.as_list():
                problems.append("message logged by the forked child inside the open blocks is not attributed to the innermost action: %r" % (
                    {k: m[k] for k in ("task_uuid", "task_level")},))
                break
        if len(got) != 3:
            problems.append("the forked child logged 3 messages, its destination received %d" % len(got))
        return problems

    def nest(level):
        if level == depth:
            pid = os.fork()
            if pid == 0:
                try:
                    os.close(r)
                    problems = child_checks()
                    os.write(w, json.dumps({"problems": problems, "phase": "inner"}).encode())
                except BaseException as e:
                    os.write(w, json.dumps({"problems": ["child raised %r" % (e,)]}).encode())
                    os._exit(1)
                return ("child", pid)
            return ("parent", pid)
        a = start_action(action_type="lvl%d" % level)
        stack.append(a)
        try:
            if kinds[level] == "with":
                with a:
                    role = nest(level + 1)
            elif kinds[level] == "context":
                with a.context():
                    role = nest(level + 1)
                a.finish()
            else:
                role = a.run(nest, level + 1)
                a.finish()
        finally:
            stack.pop()
        if role[0] == "child":
            want = stack[-1] if stack else None
            if current_action() is not want:
                os.write(w, json.dumps({"problems": ["in the forked child, leaving inherited block %d (%s) restored %r, expected %s" % (
                    level, kinds[level], current_action(), "the enclosing action" if want is not None else "None")]}).encode())
        return role

    try:
        role = nest(0)
    finally:
        remove_destination(got.append)
    if role[0] == "child":
        os._exit(0)
    os.close(w)
    data = b""
    while True:
        b = os.read(r, 65536)
        if not b:
            break
        data += b
    os.close(r)
    os.waitpid(role[1], 0)
    problems = []
    dec = json.JSONDecoder()
    pos = 0
    text = data.decode()
    reports = 0
    while pos < len(text):
        obj, pos = dec.raw_decode(text, pos)
        reports += 1
        problems.extend(obj["problems"])
    if reports == 0:
        res["inconclusive"] = "forked child reported nothing"
    if current_action() is not None:
        problems.append("parent: current_action() is not None after all blocks were left")
    res["evals"] += 1
    c = res["counters"]
    c["fork_probes"] = c.get("fork_probes", 0) + 1
    res["nontrivial"].append(h(["fork", kinds]))
    if problems:
        res["violations"].append({"msg": problems[0], "mech": None, "detail": {"part": "fork", "kinds": kinds, "problems": problems[:6]}})


def _ident(action):
    """What the harness remembers of an action: values, never the object (a remembered object would keep it alive)."""
    if action is None:
        return None
    return (action.task_uuid, action._task_level.as_list())


def recursion_case(seed, i, tier, res):
    """A recursion of the shape `with node_action: recurse(child)` over actions started beforehand that runs into the interpreter's
    recursion limit; the RecursionError leaves all the blocks and is caught far up (or a few levels down). Afterwards the current
    action is what it was there before the recursion, and what is logged next is attached there. The limit is swept over one
    full period of the frames a level takes, so that in one of the runs the deepest block is entered at the very edge."""
    import contextvars
    import sys
    rng = random.Random("%s:C04:rec:%d" % (seed, i))
    pad = rng.choice([0, 0, 1, 2, 3])
    shape = rng.choice(["function", "function", "method"])
    mixed = shape == "function" and rng.random() < 0.4
    outer_kinds = [rng.choice(["with", "context", "run"]) for _ in range(rng.randint(0, 3))]
    catch_level = rng.choice([None, None, None, 2, 7])
    created = rng.choice(["top", "inside"])
    base = rng.randint(100, 260 if tier == "quick" else 900)
    got = []
    add_destinations(got.append)
    old = sys.getrecursionlimit()
    c = res["counters"]
    try:
        for off in range(pad + 2):
            limit = base + off
            kinds = ["with" if not mixed or rng.random() < 0.6 else rng.choice(["context", "run"]) for _ in range(limit + 40)]
            del got[:]
            try:
                problems, state = contextvars.copy_context().run(_recursion_run, limit, pad, shape, kinds, outer_kinds, catch_level, created, got, c)
            except BaseException as e:
                problems, state = ["recursion scenario raised %r" % (e,)], {}
            finally:
                sys.setrecursionlimit(old)
            res["evals"] += 1
            if state.get("unwound"):
                c["recursion_unwinds"] = c.get("recursion_unwinds", 0) + 1
                if state.get("edge", -1) >= 0 and state["edge"] == state["deepest"]:
                    c["recursion_edge_exits"] = c.get("recursion_edge_exits", 0) + 1
                    res["nontrivial"].append(h(["recursion", shape, pad, mixed, outer_kinds, catch_level, created]))
            if problems:
                res["violations"].append({"msg": problems[0], "mech": None, "detail": {
                    "part": "recursion", "case": i, "limit": limit, "pad": pad, "shape": shape, "mixed": mixed, "outer": outer_kinds,
                    "catch_level": catch_level, "created": created, "deepest_block": state.get("deepest"), "edge_block": state.get("edge"),
                    "problems": problems[:6]}})
    finally:
        sys.setrecursionlimit(old)
        remove_destination(got.append)


def _recursion_run(limit, pad, shape, kinds, outer_kinds, catch_level, created, got, c):
    import sys
    from eliot import current_action, log_message, start_action
    problems = []
    names = {}
    state = {"deepest": -1, "edge": -1, "caught": None, "unwound": False}
    old = sys.getrecursionlimit()
    n = len(kinds)
    box = {}

    def name(a):
        return "None" if a is None else "<Action %s>" % names.get(id(a), "?")

    def expect(action, where):
        c["context_probes"] = c.get("context_probes", 0) + 1
        now = current_action()
        if now is not action:
            problems.append("current_action() is %s, expected %s (%s)" % (name(now), name(action), where))

    def placed(m, action, where, start=False):
        # m was logged where `action` is expected to be the current action
        if action is None:
            if m["task_level"] != [1] or m["task_uuid"] in box["uuids"]:
                problems.append("%s: logged with no current action, it did not form its own task: task_level=%r, task_uuid is %s" % (
                    where, m["task_level"], "that of an earlier action" if m["task_uuid"] in box["uuids"] else "new"))
        else:
            lvl = m["task_level"][:-2] if start else m["task_level"][:-1]
            if m["task_uuid"] != action.task_uuid or lvl != action._task_level.as_list():
                problems.append("%s: not attached to %s: task_level=%r (that action's level is %r), same task: %r" % (
                    where, name(action), m["task_level"], action._task_level.as_list(), m["task_uuid"] == action.task_uuid))

    def make():
        acts = [start_action(action_type="rec:lvl", n=k) for k in range(n)]
        for k, a in enumerate(acts):
            names[id(a)] = "level-%d" % k
        box["actions"] = acts

    def two():
        pass

    def one():
        two()

    def pad_call(i, p):
        if p > 0:
            return pad_call(i, p - 1)
        return box["walkers"][i](i)

    def walk(i):
        a = box["actions"][i]
        k = kinds[i]
        if k == "with":
            with a:
                state["deepest"] = i
                try:
                    one()
                except RecursionError:
                    state["edge"] = i  # this frame is at depth limit-1: a callee still fits, a callee of a callee does not
                if pad:
                    pad_call(i + 1, pad - 1)
                else:
                    box["walkers"][i + 1](i + 1)
        elif k == "context":
            with a.context():
                state["deepest"] = i
                if pad:
                    pad_call(i + 1, pad - 1)
                else:
                    box["walkers"][i + 1](i + 1)
        elif pad:
            a.run(pad_call, i + 1, pad - 1)
        else:
            a.run(box["walkers"][i + 1], i + 1)

    def walk_catching(i):
        a = box["actions"][i]
        with a:
            try:
                if pad:
                    pad_call(i + 1, pad - 1)
                else:
                    box["walkers"][i + 1](i + 1)
            except RecursionError:
                state["caught"] = i
                state["unwound"] = True
            sys.setrecursionlimit(old)
            expect(a, "inside block %d, after the RecursionError of the recursion below it was caught there" % i)
            log_message(message_type="rec:caught")
            placed(got[-1], a, "message logged inside block %d after the RecursionError was caught there" % i)

    class Node(object):
        def __init__(self, k, action, child):
            self.k = k
            self.action = action
            self.child = child

        def down(self, p):
            if p > 0:
                return self.down(p - 1)
            return self.child.visit()

        def visit(self):
            with self.action:
                state["deepest"] = self.k
                try:
                    one()
                except RecursionError:
                    state["edge"] = self.k
                if self.k == catch_level:
                    try:
                        self.down(pad - 1) if pad else self.child.visit()
                    except RecursionError:
                        state["caught"] = self.k
                        state["unwound"] = True
                    sys.setrecursionlimit(old)
                    expect(self.action, "inside node %d's block, after the RecursionError of the recursion below it was caught there" % self.k)
                    log_message(message_type="rec:caught")
                    placed(got[-1], self.action, "message logged inside node %d's block after the RecursionError was caught there" % self.k)
                elif pad:
                    self.down(pad - 1)
                else:
                    self.child.visit()

    def core():
        before = current_action()
        if created == "inside":
            make()
        box["uuids"] = set(m["task_uuid"] for m in got)
        box["walkers"] = [walk_catching if k == catch_level else walk for k in range(n)]
        if shape == "method":
            node = None
            for k in reversed(range(n)):
                node = Node(k, box["actions"][k], node)
            start = node.visit
        else:
            start = lambda: box["walkers"][0](0)
        sys.setrecursionlimit(limit)
        try:
            try:
                start()
            finally:
                sys.setrecursionlimit(old)
        except RecursionError:
            state["unwound"] = True
        if not state["unwound"]:
            return
        how = "a RecursionError at recursion limit %d left the nested blocks (deepest entered: %d) and was caught %s" % (
            limit, state["deepest"], "above all of them" if state["caught"] is None else "in block %d" % state["caught"])
        expect(before, "after " + how)
        log_message(message_type="rec:after")
        placed(got[-1], before, "message logged after " + how)
        k0 = len(got)
        with start_action(action_type="rec:later") as later:
            names[id(later)] = "later"
            placed(got[k0], before, "action started after " + how, start=True)
            expect(later, "inside a block entered after the recursion")
        expect(before, "after leaving a block entered after the recursion")

    def nest(level):
        if level == len(outer_kinds):
            core()
            return
        a = start_action(action_type="rec:outer%d" % level)
        names[id(a)] = "outer-%d" % level
        prev = current_action()
        if outer_kinds[level] == "with":
            with a:
                nest(level + 1)
                expect(a, "enclosing with-block %d after the recursion inside it" % level)
        elif outer_kinds[level] == "context":
            with a.context():
                nest(level + 1)
                expect(a, "enclosing context() %d after the recursion inside it" % level)
            a.finish()
        else:
            def body():
                nest(level + 1)
                expect(a, "enclosing run() %d after the recursion inside it" % level)
            a.run(body)
            a.finish()
        expect(prev, "after leaving enclosing block %d (%s)" % (level, outer_kinds[level]))

    if current_action() is not None:
        return ["precondition: there is a current action before the scenario"], state
    if created == "top":
        make()
    nest(0)
    if state["unwound"]:
        expect(None, "after everything was left")
        log_message(message_type="rec:top")
        placed(got[-1], None, "message logged after all blocks were left")
    return problems, state


def inherit_case(seed, i, res):
    """Flows that have their current action only through a copied context - an asyncio task created inside `with start_action(...):`
    (no `as`), loop.call_soon/call_later callbacks scheduled there, contextvars.copy_context().run, a thread started through a
    copied context - and that go on after the creating block was left. The harness keeps (task_uuid, task_level) values and
    the messages, never Action objects, and collects garbage before the inheriting flow continues."""
    import asyncio
    import contextvars
    import gc
    import threading
    from eliot import current_action, log_message, start_action, start_task
    rng = random.Random("%s:C04:inh:%d" % (seed, i))
    flow = ["task", "call_soon", "call_later", "copy_context", "thread", "call_soon_ctx", "task"][i % 7]
    two_phase = flow == "call_soon_ctx" or (flow in ("task", "copy_context", "thread") and rng.random() < 0.6)
    hold_kinds = [rng.choice(["with_start", "with_start", "with_task", "context"]) for _ in range(rng.randint(0, 3))]
    seq_kinds = [rng.choice(["with_start", "with_task", "context", "run", "run_nested"]) for _ in range(rng.randint(1, 3))]
    grand = rng.random() < 0.4
    exit_exc = rng.random() < 0.3
    problems = []
    got = []
    c = res["counters"]
    st = {"late_probes": 0, "creator_left": False, "timeout": None}
    add_destinations(got.append)

    def from_start(m):
        return (m["task_uuid"], m["task_level"][:-1])

    def show(x):
        return "None" if x is None else "the action at task %s level %r" % (x[0][:8], x[1])

    def probe(stack, where):
        c["context_probes"] = c.get("context_probes", 0) + 1
        if st["creator_left"]:
            st["late_probes"] += 1
        now = _ident(current_action())
        if now != stack[-1]:
            problems.append("%s flow, %s: current_action() is %s, expected %s" % (flow, where, show(now), show(stack[-1])))
        log_message(message_type="inh:probe", where=where)
        m = got[-1]
        if from_start(m) != stack[-1]:
            problems.append("%s flow, %s: a message logged there is placed at task %s level %r, expected a direct child of %s" % (
                flow, where, m["task_uuid"][:8], m["task_level"], show(stack[-1])))

    def entered_child(stack, k0, where):
        m = got[k0]
        me = from_start(m)
        if (me[0], me[1][:-1]) != stack[-1] or not me[1]:
            problems.append("%s flow, %s: an action started there is placed at task %s level %r, expected a child of %s" % (
                flow, where, m["task_uuid"][:8], m["task_level"], show(stack[-1])))
        return me

    def complete(stack, kind, where):
        """enter and leave one construct without pausing"""
        k0 = len(got)
        if kind == "with_start":
            with start_action(action_type="inh:child"):
                stack.append(entered_child(stack, k0, where))
                probe(stack, "inside `with start_action()` " + where)
                stack.pop()
        elif kind == "with_task":
            with start_task(action_type="inh:task"):
                stack.append(from_start(got[k0]))
                probe(stack, "inside `with start_task()` " + where)
                stack.pop()
        elif kind == "context":
            other = start_task(action_type="inh:other")
            with other.context():
                stack.append(from_start(got[k0]))
                probe(stack, "inside `with other.context()` " + where)
                stack.pop()
            other.finish()
        else:
            other = start_task(action_type="inh:other")

            def f():
                stack.append(from_start(got[k0]))
                probe(stack, "inside other.run(f) " + where)
                if kind == "run_nested":
                    complete(stack, "with_start", "nested in other.run(f) " + where)
                    probe(stack, "inside other.run(f) after a nested block, " + where)
                stack.pop()
            other.run(f)
            other.finish()
        probe(stack, "after leaving %s %s" % (kind, where))

    def hold(stack, level):
        """generator: enters the held blocks, pauses once (two_phase) inside them, goes on, leaves them"""
        if level == len(hold_kinds):
            if two_phase:
                yield "pause"
                probe(stack, "resumed after the creating block was left, inside %d blocks of its own (it left none meanwhile)" % level)
            for j, kind in enumerate(seq_kinds):
                complete(stack, kind, "(construct %d inside %d held blocks, creating block already left)" % (j, level))
            return
        kind = hold_kinds[level]
        k0 = len(got)
        if kind == "with_start":
            with start_action(action_type="inh:held"):
                stack.append(entered_child(stack, k0, "held block %d" % level))
                probe(stack, "inside held `with start_action()` block %d" % level)
                yield from hold(stack, level + 1)
                probe(stack, "inside held `with start_action()` block %d after its inner blocks" % level)
                stack.pop()
        elif kind == "with_task":
            with start_task(action_type="inh:heldtask"):
                stack.append(from_start(got[k0]))
                probe(stack, "inside held `with start_task()` block %d" % level)
                yield from hold(stack, level + 1)
                stack.pop()
        else:
            other = start_task(action_type="inh:heldother")
            with other.context():
                stack.append(from_start(got[k0]))
                probe(stack, "inside held `with other.context()` block %d" % level)
                yield from hold(stack, level + 1)
                stack.pop()
            other.finish()
        probe(stack, "after leaving held block %d (%s) that was entered %s the creating block was left" % (
            level, kind, "before and left after" if two_phase else "after"))

    def body(parent):
        stack = [parent]
        probe(stack, "first look at the inherited context (%s)" % (
            "creating block still open" if not st["creator_left"] else "creating block already left, nothing else refers to its action"))
        yield from hold(stack, 0)
        probe(stack, "end of the flow")

    def drain(g):
        for _ in g:
            raise AssertionError("second pause")

    class Leave(Exception):
        pass

    def left():
        st["creator_left"] = True
        gc.collect()

    async def amain():
        loop = asyncio.get_running_loop()
        inside = asyncio.Event()
        go = asyncio.Event()
        done = asyncio.Event()

        async def worker(parent):
            try:
                for _ in body(parent):
                    inside.set()
                    await go.wait()
            except BaseException as e:
                problems.append("%s flow raised %r" % (flow, e))
            finally:
                inside.set()
                done.set()

        def callback(parent):
            try:
                drain(body(parent))
            except BaseException as e:
                problems.append("%s flow raised %r" % (flow, e))
            finally:
                done.set()

        def step(g, last):
            try:
                drain(g) if last else next(g)
            except BaseException as e:
                problems.append("%s flow raised %r" % (flow, e))
            finally:
                (done if last else inside).set()
        g = None
        try:
            with start_action(action_type="inh:parent", case=i):
                parent = from_start(got[-1])
                if flow == "task":
                    t = loop.create_task(worker(parent)) if rng.random() < 0.5 else asyncio.ensure_future(worker(parent))
                    if two_phase:
                        await inside.wait()
                    del t
                elif flow == "call_soon":
                    loop.call_soon(callback, parent)
                elif flow == "call_later":
                    loop.call_later(0, callback, parent)
                else:
                    ctx = contextvars.copy_context()
                    g = body(parent)
                    loop.call_soon(step, g, False, context=ctx)
                    await inside.wait()
                if exit_exc:
                    raise Leave()
        except Leave:
            pass
        left()
        if g is not None:
            loop.call_soon(step, g, True, context=ctx)
        go.set()
        try:
            await asyncio.wait_for(done.wait(), 60)
        except asyncio.TimeoutError:
            st["timeout"] = "%s flow did not end" % flow

    def sync_main():
        inside = threading.Event()
        go = threading.Event()
        thread = None

        def runner(parent):
            try:
                if not two_phase and not go.wait(60):
                    st["timeout"] = "thread flow was not released"
                    return
                for _ in body(parent):
                    inside.set()
                    if not go.wait(60):
                        st["timeout"] = "thread flow was not released"
                        return
            except BaseException as e:
                problems.append("%s flow raised %r" % (flow, e))
            finally:
                inside.set()
        try:
            with start_action(action_type="inh:parent", case=i):
                parent = from_start(got[-1])
                ctx = contextvars.copy_context()
                if flow == "thread":
                    thread = threading.Thread(target=ctx.run, args=(runner, parent))
                    thread.daemon = True
                    thread.start()
                    if two_phase and not inside.wait(60):
                        st["timeout"] = "thread flow did not reach its pause"
                else:
                    g = body(parent)
                    if two_phase:
                        ctx.run(next, g)
                if exit_exc:
                    raise Leave()
        except Leave:
            pass
        left()
        if flow == "thread":
            go.set()
            thread.join(60)
            if thread.is_alive():
                st["timeout"] = "thread flow did not end"
        else:
            ctx.run(drain, g)

    def creator():
        if flow in ("thread", "copy_context"):
            sync_main()
        else:
            asyncio.run(amain())

    try:
        if grand:
            with start_action(action_type="inh:grand") as g_action:
                creator()
                if current_action() is not g_action:
                    problems.append("creating code: after its block current_action() is not the enclosing action")
        else:
            creator()
        if current_action() is not None:
            problems.append("creating code: current_action() is not None after all its blocks were left")
    except BaseException as e:
        problems.append("inherited-context scenario (%s) raised %r" % (flow, e))
    finally:
        remove_destination(got.append)
    res["evals"] += 1
    if st["timeout"]:
        res["inconclusive"] = st["timeout"]
        return
    c["inherited_flow_probes"] = c.get("inherited_flow_probes", 0) + st["late_probes"]
    d = c.setdefault("inherited_flows", {})
    d[flow] = d.get(flow, 0) + 1
    res["nontrivial"].append(h(["inherit", flow, two_phase, hold_kinds, seq_kinds, grand, exit_exc]))
    if problems:
        res["violations"].append({"msg": problems[0], "mech": None, "detail": {
            "part": "inherit", "case": i, "flow": flow, "two_phase": two_phase, "held": hold_kinds, "then": seq_kinds, "grandparent": grand,
            "creator_left_by_exception": exit_exc, "problems": problems[:8]}})


def handover_case(seed, i, res):
    """`cm = action.context()` created at one place (under another current action, earlier, on another thread, in another asyncio
    task) and entered with `with cm:` somewhere else: merely creating the context manager changes nothing where it is created;
    the action is current exactly inside the `with cm:` block, where that block is, and leaving it restores what was current there."""
    import asyncio
    import contextvars
    import threading
    from eliot import current_action, log_message, start_action
    rng = random.Random("%s:C04:handover:%d" % (seed, i))
    route = ["later", "thread", "task", "copy_context", "two_threads"][i % 5]
    disp = rng.choice(["action", "action", "none"])
    work = rng.choice(["action", "action", "none"])
    njobs = rng.randint(1, 3)
    order = rng.choice(["same", "reversed"])
    problems = []
    names = {}
    got = []
    c = res["counters"]
    st = {"entered": 0}
    add_destinations(got.append)

    def name(a):
        return "None" if a is None else "<Action %s>" % names.get(id(a), "?")

    def expect(action, where):
        c["context_probes"] = c.get("context_probes", 0) + 1
        now = current_action()
        if now is not action:
            problems.append("%s: current_action() is %s, expected %s" % (where, name(now), name(action)))
        log_message(message_type="ho:probe")
        m = got[-1]
        if action is None:
            if m["task_level"] != [1]:
                problems.append("%s: a message logged there with no current action has task_level %r" % (where, m["task_level"]))
        elif (m["task_uuid"], m["task_level"][:-1]) != (action.task_uuid, action._task_level.as_list()):
            problems.append("%s: a message logged there is not a direct child of %s: task_level %r (that action's level is %r)" % (
                where, name(action), m["task_level"], action._task_level.as_list()))

    def make(box):
        before = current_action()
        jobs = []
        cms = []
        for k in range(njobs):
            job = start_action(action_type="ho:job", k=k)
            names[id(job)] = "job-%d" % k
            jobs.append(job)
            cms.append(job.context())
            expect(before, "where job-%d.context() was merely created (not entered)" % k)
        box["jobs"], box["cms"] = jobs, cms

    def dispatch(box):
        try:
            prev = current_action()
            if disp == "action":
                with start_action(action_type="ho:dispatcher") as d:
                    names[id(d)] = "dispatcher"
                    make(box)
                    expect(d, "dispatcher's block after creating the context managers")
                expect(prev, "after the dispatcher's block")
            else:
                make(box)
        except BaseException as e:
            problems.append("creating the context managers raised %r" % (e,))

    def enter(box, seq, k):
        if k == len(seq):
            return
        j = seq[k]
        before = current_action()
        with box["cms"][j] as entered:
            st["entered"] += 1
            if entered is not box["jobs"][j]:
                problems.append("`with cm as x`: x is not the action whose context() it is")
            expect(box["jobs"][j], "inside `with cm:` (cm = job-%d.context(), created elsewhere: %s)" % (j, route))
            enter(box, seq, k + 1)
            expect(box["jobs"][j], "inside `with cm:` of job-%d after its inner block" % j)
        expect(before, "after leaving `with cm:` of job-%d (entered under %s)" % (j, name(before)))

    def worker(box):
        try:
            seq = list(range(njobs))
            if order == "reversed":
                seq.reverse()
            prev = current_action()
            if work == "action":
                with start_action(action_type="ho:worker") as w:
                    names[id(w)] = "worker"
                    enter(box, seq, 0)
                    expect(w, "worker's block after the handed-over context managers were left")
                expect(prev, "after the worker's block")
            else:
                enter(box, seq, 0)
        except BaseException as e:
            problems.append("entering/leaving a context manager that was created elsewhere (%s) raised %r" % (route, e))

    def in_thread(f, *a):
        t = threading.Thread(target=f, args=a)
        t.start()
        t.join()

    box = {}
    try:
        if route == "later":
            dispatch(box)
            worker(box)
        elif route == "thread":
            dispatch(box)
            in_thread(worker, box)
            expect(None, "creating thread after another thread used the context managers")
        elif route == "two_threads":
            in_thread(dispatch, box)
            in_thread(worker, box)
        elif route == "copy_context":
            ctx = contextvars.copy_context()
            dispatch(box)
            ctx.run(worker, box)
            expect(None, "creating context after another context used the context managers")
        else:
            async def amain():
                ready = asyncio.Event()
                done = asyncio.Event()

                async def dispatcher():
                    dispatch(box)
                    ready.set()
                    await done.wait()
                    expect(None, "dispatcher task after the worker task used the context managers")

                async def work_task():
                    await ready.wait()
                    worker(box)
                    done.set()
                await asyncio.gather(asyncio.ensure_future(work_task()), asyncio.ensure_future(dispatcher()))
            asyncio.run(amain())
        for job in box.get("jobs", ()):
            job.finish()
        expect(None, "after everything")
    except BaseException as e:
        problems.append("hand-over scenario (%s) raised %r" % (route, e))
    finally:
        remove_destination(got.append)
    res["evals"] += 1
    c["context_managers_entered_elsewhere"] = c.get("context_managers_entered_elsewhere", 0) + st["entered"]
    res["nontrivial"].append(h(["handover", route, disp, work, njobs, order]))
    if problems:
        res["violations"].append({"msg": problems[0], "mech": None, "detail": {
            "part": "handover", "case": i, "route": route, "dispatcher": disp, "worker": work, "jobs": njobs, "order": order, "problems": problems[:8]}})


class _AppLogger(object):
    """An application's own ILogger (think of a socket or a file on a disk that fills up): keeps what it is given in `sink`,
    and raises what `fault()` makes for the messages `refuses(message)` picks."""

    def __init__(self, sink, refuses, fault):
        self.sink = sink
        self.refuses = refuses
        self.fault = fault
        self.refused = 0

    def write(self, dictionary, serializer=None):
        if self.refuses(dictionary):
            self.refused += 1
            raise self.fault()
        self.sink.append(dictionary)


class _OwnError(Exception):
    """what a block's own body raises"""


def endfault_case(seed, i, res):
    """A block that is left while its END MESSAGE cannot be written: the action was started with an application's own logger whose
    write() raises for the end message, or a registered destination raises KeyboardInterrupt (also a real SIGINT under the default
    handler) / SystemExit / an application's BaseException class while it handles the end message. The block - `with action:`, a
    log_call-decorated function, a preserve_context callable (same thread / another thread) - sits in 0-3 enclosing blocks and is left
    by return or by its own exception; the application catches whatever comes out (which exception that is, is not judged here) and goes
    on in the enclosing block: current_action() is exactly what it was before entry, messages and sibling blocks attach there."""
    import signal
    import threading
    from eliot import ActionType, current_action, log_call, log_message, preserve_context, start_action, start_task
    from vf import excs
    rng = random.Random("%s:C04:endfault:%d" % (seed, i))
    form = ["with", "log_call", "with", "preserve"][i % 4]
    depth = rng.choice([1, 1, 2, 2, 3, 0]) if form != "preserve" else rng.choice([1, 2, 3])
    kinds = [rng.choice(["with", "with", "context", "run"]) for _ in range(depth)]
    fault = rng.choice(["logger", "logger", "dest_sigint", "dest_kbi", "dest_exit", "dest_base"] if form == "with" else
                       ["dest_sigint", "dest_kbi", "dest_exit", "dest_base"])
    where = rng.choice(["same", "thread"]) if form == "preserve" else "same"
    tkinds = [rng.choice(["with", "context", "run"]) for _ in range(rng.randint(0, 2))] if where == "thread" else []
    if where == "thread" and fault == "dest_sigint":
        fault = "dest_kbi"  # (a signal is handled by the main thread)
    maker = rng.choice(["start_action", "start_action", "start_task", "ActionType"]) if form == "with" else form
    leave = rng.choice(["return", "raise"])
    with_child = rng.random() < 0.5
    cross = 1 if (len(tkinds) if where == "thread" else depth) >= 2 and rng.random() < 0.25 else 0
    faulty_first = rng.random() < 0.5
    logger_exc = rng.choice(["OSError", "RuntimeError", "UserError", "UserBase"])
    vtype = "eliot:remote_task" if form == "preserve" else "ef:victim"
    problems = []
    names = {}
    ident = {}
    keep = []
    got = []
    uuids_before = set()
    c = res["counters"]
    st = {"hits": 0, "caught": None, "victim_ran": 0}

    def is_end(m):
        return m.get("action_type") == vtype and m.get("action_status") in ("succeeded", "failed")

    def faulty(m):
        if is_end(m):
            st["hits"] += 1
            if fault == "dest_sigint":
                signal.raise_signal(signal.SIGINT)  # (the default handler raises KeyboardInterrupt right here)
                for _ in range(100):
                    pass
            elif fault == "dest_kbi":
                raise KeyboardInterrupt()
            elif fault == "dest_exit":
                raise SystemExit(3)
            else:
                raise excs.UserBase("application is shutting down")

    def make_logger_exc():
        if logger_exc == "OSError":
            return OSError(28, "No space left on device")
        if logger_exc == "RuntimeError":
            return RuntimeError("connection to the log collector is closed")
        return getattr(excs, logger_exc)("log sink refuses")

    app_logger = _AppLogger(got, is_end, make_logger_exc) if fault == "logger" else None
    dests = [got.append] if fault == "logger" else ([faulty, got.append] if faulty_first else [got.append, faulty])
    what = {"logger": "the application logger it was started with raised %s from write()" % logger_exc,
            "dest_sigint": "a SIGINT (default handler: KeyboardInterrupt) arrived while a destination handled it",
            "dest_kbi": "a destination raised KeyboardInterrupt", "dest_exit": "a destination raised SystemExit",
            "dest_base": "a destination raised an application's BaseException class"}[fault]
    block = {"with": "`with action:` block (%s)" % maker, "log_call": "call of a log_call-decorated function",
             "preserve": "call of a preserve_context callable (%s)" % ("on another thread" if where == "thread" else "same thread")}[form]
    how = "a %s was left by %s while its end message could not be written (%s)" % (block, "return" if leave == "return" else "its own exception", what)

    def name(a):
        return "None" if a is None else "<Action %s>" % names.get(id(a), "unknown")

    def from_start(m):
        return (m["task_uuid"], m["task_level"][:-1])

    def register(a, label, start_message):
        keep.append(a)
        names[id(a)] = label
        ident[id(a)] = from_start(start_message)

    def placed(m, action, where_, start=False):
        """m was logged where `action` was current before: it is a direct child of it / forms (starts) its own task"""
        lvl = m["task_level"][:-2] if start else m["task_level"][:-1]
        kind = "an action started" if start else "a message logged"
        if action is None:
            if lvl != [] or m["task_uuid"] in uuids_before:
                problems.append("%s: %s there with no current action does not begin its own task: task_level %r, task_uuid is %s" % (
                    where_, kind, m["task_level"], "that of an earlier action" if m["task_uuid"] in uuids_before else "new"))
        elif id(action) in ident and (m["task_uuid"], lvl) != ident[id(action)]:
            problems.append("%s: %s there is not a child of %s: task_level %r (that action's level is %r), same task: %r" % (
                where_, kind, name(action), m["task_level"], ident[id(action)][1], m["task_uuid"] == ident[id(action)][0]))

    def probe(action, where_):
        c["context_probes"] = c.get("context_probes", 0) + 1
        now = current_action()
        if now is not action:
            problems.append("%s: current_action() is %s, expected %s" % (where_, name(now), name(action)))
        uuids_before.update(m["task_uuid"] for m in got)
        k0 = len(got)
        log_message(message_type="ef:probe")
        if len(got) > k0:
            placed(got[k0], action, where_)

    def after_checks(before):
        probe(before, "after " + how + "; what was current immediately before entry: " + name(before))
        uuids_before.update(m["task_uuid"] for m in got)
        k0 = len(got)
        with start_action(action_type="ef:sibling") as s:
            if len(got) > k0:
                placed(got[k0], before, "sibling block entered after " + how, start=True)
                register(s, "sibling", got[k0])
            probe(s, "inside a sibling block entered after " + how)
        probe(before, "after leaving a sibling block entered after " + how)

    def inside_victim(inner, k0, before, check_parent):
        st["victim_ran"] += 1
        if len(got) > k0:
            register(inner, "victim", got[k0])
            if check_parent and maker != "start_task":
                placed(got[k0], before, "the block that is going to be left with a fault", start=True)
        if inner is None or inner is before:
            problems.append("inside a %s current_action() is %s (before entry: %s)" % (block, name(inner), name(before)))
            return
        probe(inner, "inside the %s" % block)
        if with_child:
            with start_action(action_type="ef:inner") as ch:
                keep.append(ch)
                names[id(ch)] = "inner"
            probe(inner, "inside the %s after a child block" % block)
        if leave == "raise":
            raise _OwnError("the block's own exception")

    def victim_with():
        before = current_action()
        k0 = len(got)
        if maker == "start_action":
            a = start_action(app_logger, vtype)
        elif maker == "start_task":
            a = start_task(app_logger, vtype)
        else:
            a = ActionType(vtype, [], [], "")(app_logger)

        def body():
            with a:
                if current_action() is not a:
                    problems.append("inside `with action:` current_action() is %s, not that action" % name(current_action()))
                inside_victim(a, k0, before, True)
                return "value"
        body()

    def victim_log_call():
        before = current_action()
        k0 = len(got)

        @log_call(action_type=vtype, include_result=rng.random() < 0.5)
        def work(x):
            inside_victim(current_action(), k0, before, True)
            return x * 2
        work(21)

    def make_preserved():
        def f(x):
            inside_victim(current_action(), st["k0"], st["before"], False)
            return x * 2
        return preserve_context(f)

    def call_preserved(g):
        st["before"] = current_action()
        st["k0"] = len(got)
        g(21)

    def scene(kinds_, victim, cross_, label):
        """`victim()` runs inside len(kinds_) enclosing blocks; what it raises crosses cross_ of them, is caught, and the code goes on"""
        stack = []
        depth_ = len(kinds_)
        catch_at = depth_ - cross_

        def enter(level):
            if level == catch_at:
                before = stack[-1] if stack else None
                try:
                    descend(level)
                except BaseException as e:
                    st["caught"] = e
                after_checks(before)
            else:
                descend(level)

        def descend(level):
            if level == depth_:
                victim()
                return
            k0 = len(got)
            a = start_action(action_type="ef:%s%d" % (label, level))
            register(a, "%s-%d" % (label, level), got[k0])
            prev = stack[-1] if stack else None
            stack.append(a)
            kind = kinds_[level]
            try:
                if kind == "with":
                    with a:
                        probe(a, "inside enclosing with-block %d" % level)
                        enter(level + 1)
                        probe(a, "enclosing with-block %d, at its end" % level)
                elif kind == "context":
                    try:
                        with a.context():
                            probe(a, "inside enclosing context() block %d" % level)
                            enter(level + 1)
                            probe(a, "enclosing context() block %d, at its end" % level)
                    finally:
                        a.finish()
                else:
                    def body():
                        probe(a, "inside enclosing run() %d" % level)
                        enter(level + 1)
                        probe(a, "enclosing run() %d, at its end" % level)
                    try:
                        a.run(body)
                    finally:
                        a.finish()
            finally:
                stack.pop()
            probe(prev, "after leaving enclosing block %d (%s) in which %s" % (level, kind, how))
        enter(0)

    old_handler = signal.getsignal(signal.SIGINT)
    try:
        signal.signal(signal.SIGINT, signal.default_int_handler)
        add_destinations(*dests)
        try:
            if form == "with":
                scene(kinds, victim_with, cross, "outer")
            elif form == "log_call":
                scene(kinds, victim_log_call, cross, "outer")
            elif where == "same":
                scene(kinds, lambda: call_preserved(make_preserved()), cross, "outer")
            else:
                def spawn():
                    creator = current_action()
                    g = make_preserved()
                    probe(creator, "after preserve_context() made a callable")

                    def in_thread():
                        try:
                            scene(tkinds, lambda: call_preserved(g), cross, "thread-outer")
                            probe(None, "other thread, after all its blocks were left")
                        except BaseException as e:
                            problems.append("the other thread raised %r" % (e,))
                    t = threading.Thread(target=in_thread)
                    t.start()
                    t.join(60)
                    if t.is_alive():
                        res["inconclusive"] = "end-fault scenario: thread did not end"
                    probe(creator, "creating thread, after another thread ran the preserve_context callable in which " + how)
                scene(kinds, spawn, 0, "outer")
            probe(None, "after all blocks were left")
        finally:
            for d in dests:
                try:
                    remove_destination(d)
                except ValueError:
                    pass
    except BaseException as e:
        problems.append("end-fault scenario raised %r" % (e,))
    finally:
        signal.signal(signal.SIGINT, old_handler)
    res["evals"] += 1
    injected = (app_logger.refused if app_logger is not None else st["hits"]) > 0
    if injected and st["caught"] is not None and st["victim_ran"]:
        # reach: the fault really struck the end message and something came out of the block
        key = "end_message_faults_" + form
        c[key] = c.get(key, 0) + 1
        d = c.setdefault("end_message_faults", {})
        d[fault] = d.get(fault, 0) + 1
        d = c.setdefault("end_fault_came_out", {})
        d[type(st["caught"]).__name__] = d.get(type(st["caught"]).__name__, 0) + 1
        res["nontrivial"].append(h(["endfault", form, maker, fault, kinds, tkinds, where, leave, cross, with_child]))
    if problems:
        res["violations"].append({"msg": problems[0], "mech": None, "detail": {
            "part": "endfault", "case": i, "form": form, "made_with": maker, "fault": fault, "logger_raises": logger_exc if fault == "logger" else None,
            "enclosing": kinds, "thread_enclosing": tkinds, "where": where, "left_by": leave, "crosses": cross,
            "came_out": repr(st["caught"]), "problems": problems[:8]}})


def testcase_case(seed, i, res):
    """eliot.testing.capture_logging / validate_logging-decorated test methods called WHILE AN ACTION IS CURRENT: a runner (or a run()
    override) that wraps each test case in `with start_action(...)`, a fixture action entered in setUp and left in tearDown / in a
    clean-up, an action entered in the test body and left in a clean-up. A decorated test method is ordinary code inside those
    blocks. The harness wrote every block, so it knows at each moment which one is innermost (shadow stack)."""
    import contextlib
    import unittest
    import warnings
    from eliot import current_action, log_message, start_action
    from eliot.testing import capture_logging, validate_logging
    from vf import excs
    rng = random.Random("%s:C04:testcase:%d" % (seed, i))
    arrangement = ["runner", "setup_teardown", "run_override", "setup_testcleanup", "setup_cleanup", "body_cleanup"][i % 6]
    decorator = rng.choice(["capture", "capture", "capture", "validate"])
    outer_kinds = [rng.choice(["with", "context", "run"]) for _ in range(rng.choice([0, 0, 1, 2]))]
    outcome = rng.choice(["pass", "pass", "pass", "fail", "error", "skip", "baseexc"])
    mode = "debug" if outcome == "pass" and arrangement != "run_override" and rng.random() < 0.3 else "run"
    test_names = ["test_a", "test_b"][:rng.choice([1, 1, 2])]
    with_callback = rng.random() < 0.5
    helper_calls = rng.choice([0, 0, 0, 1]) if decorator == "capture" else 0
    fixture_form = rng.choice(["action", "action", "context"])
    problems = []
    names = {}
    ident = {}
    keep = []
    got = []
    loggers = []
    stack = []
    marks = [0]
    uuids_before = set()
    c = res["counters"]
    st = {"bodies_under_action": 0, "bodies": 0, "left_before_cleanups": 0, "cleanups_seen": 0}
    add_destinations(got.append)

    def name(a):
        return "None" if a is None else "<Action %s>" % names.get(id(a), "unknown")

    def sinks():
        yield got
        for lg in loggers:
            yield lg.messages

    def find(mark):
        for s in sinks():
            for m in reversed(s):
                if m.get("mark") == mark:
                    return m
        return None

    def all_uuids():
        return set(m["task_uuid"] for s in sinks() for m in s if "task_uuid" in m)

    def placed(m, action, where_, start=False):
        lvl = m["task_level"][:-2] if start else m["task_level"][:-1]
        kind = "an action started" if start else "a message logged"
        if action is None:
            if lvl != [] or m["task_uuid"] in uuids_before:
                problems.append("%s: %s there with no current action does not begin its own task: task_level %r, task_uuid is %s" % (
                    where_, kind, m["task_level"], "that of an earlier action" if m["task_uuid"] in uuids_before else "new"))
        elif id(action) in ident and (m["task_uuid"], lvl) != ident[id(action)]:
            problems.append("%s: %s there is not a child of %s: task_level %r (that action's level is %r), same task: %r" % (
                where_, kind, name(action), m["task_level"], ident[id(action)][1], m["task_uuid"] == ident[id(action)][0]))

    def cur():
        return stack[-1] if stack else None

    def probe(where_):
        c["context_probes"] = c.get("context_probes", 0) + 1
        want = cur()
        now = current_action()
        if now is not want:
            problems.append("%s: current_action() is %s, expected %s" % (where_, name(now), name(want)))
        uuids_before.clear()
        uuids_before.update(all_uuids())
        marks[0] += 1
        log_message(message_type="tc:probe", mark=marks[0])
        m = find(marks[0])
        if m is not None:
            placed(m, want, where_)
            c["testcase_messages_placed"] = c.get("testcase_messages_placed", 0) + 1

    def start(label, where_):
        """start_action where the shadow stack says cur() is current; the start message is judged like a probe message"""
        want = cur()
        uuids_before.clear()
        uuids_before.update(all_uuids())
        marks[0] += 1
        a = start_action(action_type="tc:" + label, mark=marks[0])
        keep.append(a)
        names[id(a)] = label
        m = find(marks[0])
        if m is not None:
            ident[id(a)] = (m["task_uuid"], m["task_level"][:-1])
            placed(m, want, where_, start=True)
        return a

    def enter_fixture(es, a, form_):
        """the idiomatic ways to keep a block open across methods: contextlib.ExitStack"""
        if form_ == "action":
            es.enter_context(a)
        else:
            es.callback(a.finish)
            es.enter_context(a.context())
        stack.append(a)

    def leave_fixture(es, a, where_):
        if stack and stack[-1] is a:
            es.close()
            stack.pop()
            probe("%s, right after leaving the block of %s" % (where_, name(a)))
        else:
            problems.append("harness: blocks left out of order")

    def after_leaving_cleanup(where_):
        st["cleanups_seen"] += 1
        probe(where_)

    def callback(test, logger):
        probe("in the assertion callback of the decorator (runs as a clean-up)")

    dec = capture_logging if decorator == "capture" else validate_logging
    with warnings.catch_warnings():
        warnings.simplefilter("ignore")

        class T(unittest.TestCase):
            def run(self, result=None):
                if arrangement != "run_override":
                    return unittest.TestCase.run(self, result)
                a = start("per-test(run override)", "in a run() override, before the test case")
                with a:
                    stack.append(a)
                    try:
                        return unittest.TestCase.run(self, result)
                    finally:
                        probe("in a run() override's `with start_action(...)` block after TestCase.run() returned")
                        stack.pop()

            def setUp(self):
                probe("in setUp")
                if arrangement.startswith("setup"):
                    self.fix = contextlib.ExitStack()
                    self.fixture = start("fixture", "in setUp")
                    enter_fixture(self.fix, self.fixture, fixture_form)
                    probe("in setUp, inside the fixture action's block")
                    if arrangement == "setup_cleanup":
                        self.addCleanup(leave_fixture, self.fix, self.fixture, "in a clean-up registered by setUp (runs last)")

            def tearDown(self):
                probe("in tearDown")
                if arrangement == "setup_teardown":
                    leave_fixture(self.fix, self.fixture, "in tearDown")
                    st["left_before_cleanups"] += 1

            @capture_logging(None)
            def helper(self, logger):
                loggers.append(logger)
                probe("inside a capture_logging-decorated helper called by the decorated test method")

            def body(self, logger):
                loggers.append(logger)
                st["bodies"] += 1
                if cur() is not None:
                    st["bodies_under_action"] += 1
                probe("inside the %s-decorated test method (%s)" % (dec.__name__, arrangement))
                for _ in range(helper_calls):
                    self.helper()
                    probe("inside the decorated test method after a decorated helper returned")
                if arrangement == "setup_testcleanup":
                    self.addCleanup(after_leaving_cleanup, "in a clean-up that runs after the fixture action's block was left by an earlier clean-up")
                    self.addCleanup(leave_fixture, self.fix, self.fixture, "in a clean-up registered by the test method")
                    st["left_before_cleanups"] += 1
                if arrangement == "body_cleanup":
                    es = contextlib.ExitStack()
                    b = start("entered-in-body", "in the decorated test method")
                    self.addCleanup(leave_fixture, es, b, "in a clean-up registered by the test method")
                    enter_fixture(es, b, fixture_form)
                    probe("inside a block the decorated test method entered (a clean-up leaves it)")
                ch = start("child", "in the decorated test method")
                with ch:
                    stack.append(ch)
                    probe("inside a child block in the decorated test method")
                    stack.pop()
                probe("in the decorated test method after its child block")
                self.addCleanup(probe, "in a clean-up registered by the test method (runs first)")
                if outcome == "fail":
                    self.fail("planned failure")
                if outcome == "error":
                    raise RuntimeError("planned error")
                if outcome == "skip":
                    raise unittest.SkipTest("planned skip")
                if outcome == "baseexc":
                    raise excs.UserBase("planned BaseException")

            @dec(callback if with_callback else None)
            def test_a(self, logger):
                T.body(self, logger)

            @dec(None)
            def test_b(self, logger):
                T.body(self, logger)

    result = unittest.TestResult()

    def run_one(t):
        depth0 = len(stack)
        try:
            t.debug() if mode == "debug" else t.run(result)
        except BaseException as e:
            problems.append("running the test case raised %r" % (e,))
        if len(stack) != depth0:
            problems.append("harness: shadow stack is %d deep after the test case, %d before" % (len(stack), depth0))
            del stack[depth0:]

    def run_tests():
        for tn in test_names:
            t = T(tn)
            sit = "%s test %s, %s; %s" % (dec.__name__, outcome, "TestCase.debug()" if mode == "debug" else "TestCase.run(TestResult())", {
                "runner": "run inside the runner's `with start_action(...)`", "run_override": "run() override wraps the test case in `with start_action(...)`",
                "setup_teardown": "action entered in setUp and left in tearDown, before the clean-ups",
                "setup_testcleanup": "action entered in setUp and left by a clean-up the test method registered",
                "setup_cleanup": "action entered in setUp and left by a clean-up setUp registered",
                "body_cleanup": "action entered in the test method and left by a clean-up"}[arrangement])
            if arrangement == "runner":
                a = start("per-test", "in the runner")
                with a:
                    stack.append(a)
                    run_one(t)
                    probe("in the runner's block after the test case has run completely (%s)" % sit)
                    stack.pop()
            else:
                run_one(t)
            probe("after the test case has run completely (%s)" % sit)

    def nest(level):
        if level == len(outer_kinds):
            run_tests()
            return
        a = start("outer-%d" % level, "enclosing code")
        stack.append(a)
        if outer_kinds[level] == "with":
            with a:
                nest(level + 1)
        elif outer_kinds[level] == "context":
            with a.context():
                nest(level + 1)
            a.finish()
        else:
            a.run(nest, level + 1)
            a.finish()
        stack.pop()
        probe("after leaving enclosing block %d (%s) around the test run" % (level, outer_kinds[level]))

    try:
        nest(0)
        probe("after everything")
    except BaseException as e:
        problems.append("decorated-test scenario raised %r" % (e,))
    finally:
        remove_destination(got.append)
    res["evals"] += 1
    if st["bodies"] != len(test_names):
        res["inconclusive"] = "decorated test bodies ran %d times, planned %d" % (st["bodies"], len(test_names))
    c["decorated_tests_called_under_an_action"] = c.get("decorated_tests_called_under_an_action", 0) + st["bodies_under_action"]
    c["fixture_actions_left_before_cleanups"] = c.get("fixture_actions_left_before_cleanups", 0) + st["left_before_cleanups"]
    d = c.setdefault("decorated_test_arrangements", {})
    d[arrangement] = d.get(arrangement, 0) + st["bodies"]
    res["nontrivial"].append(h(["testcase", arrangement, decorator, outer_kinds, outcome, mode, len(test_names), with_callback, helper_calls, fixture_form]))
    if problems:
        res["violations"].append({"msg": problems[0], "mech": None, "detail": {
            "part": "testcase", "case": i, "arrangement": arrangement, "decorator": decorator, "enclosing": outer_kinds, "outcome": outcome, "mode": mode,
            "tests": test_names, "assertion_callback": with_callback, "decorated_helper_calls": helper_calls, "fixture_entered_as": fixture_form,
            "problems": problems[:8]}})


def run_case(spec):
    res = {"evals": 0, "nontrivial": [], "counters": {}, "violations": [], "sample": None}
    if spec.get("part") in ("endfault", "testcase"):
        import contextvars
        f = endfault_case if spec["part"] == "endfault" else testcase_case
        for i in range(spec["lo"], spec["hi"]):
            contextvars.copy_context().run(f, spec["seed"], i, res)  # a leaked current action must not reach the next case
        res["sets"] = {"depths": []}
        return res
    if spec.get("part") == "scenario":
        for i in range(spec["lo"], spec["hi"]):
            scenario_case(spec["seed"], i, res)
        res["sets"] = {"depths": []}
        return res
    if spec.get("part") == "fork":
        for i in range(spec["lo"], spec["hi"]):
            fork_case(spec["seed"], i, res)
        res["sets"] = {"depths": []}
        return res
    if spec.get("part") == "recursion":
        for i in range(spec["lo"], spec["hi"]):
            recursion_case(spec["seed"], i, spec["tier"], res)
        res["sets"] = {"depths": []}
        return res
    if spec.get("part") == "handover":
        import contextvars
        for i in range(spec["lo"], spec["hi"]):
            contextvars.copy_context().run(handover_case, spec["seed"], i, res)  # a leaked current action must not reach the next case
        res["sets"] = {"depths": []}
        return res
    if spec.get("part") == "inherit":
        for i in range(spec["lo"], spec["hi"]):
            inherit_case(spec["seed"], i, res)
        res["sets"] = {"depths": []}
        return res
    for i in range(spec["lo"], spec["hi"]):
        one(spec["seed"], i, spec["tier"], res)
    # max is not additive: report it through a set instead
    res["sets"] = {"depths": [str(res["counters"].pop("max_depth_seen", 0))]}
    return res


def finalize(agg, tier):
    if agg["counters"].get("context_probes", 0) < 10000:
        return "fewer than 10000 context probes"
    if not agg["counters"].get("recursion_edge_exits", 0):
        return "no recursion ran into the recursion limit with its deepest block entered at the very edge"
    if not agg["counters"].get("inherited_flow_probes", 0):
        return "no flow with an inherited context was probed after its creating block was left"
    if not agg["counters"].get("context_managers_entered_elsewhere", 0):
        return "no action.context() manager was entered elsewhere than it was created"
    for form in ("with", "log_call", "preserve"):
        if not agg["counters"].get("end_message_faults_" + form, 0):
            return "no block of form %r was left with a fault striking its end message" % form
    if not agg["counters"].get("decorated_tests_called_under_an_action", 0) or not agg["counters"].get("testcase_messages_placed", 0):
        return "no capture_logging/validate_logging-decorated test method was called while an action was current"
    if not agg["counters"].get("fixture_actions_left_before_cleanups", 0):
        return "no decorated test ran with an action entered in setUp and left before the clean-ups"
    return None
