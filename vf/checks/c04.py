"""C04 - context scoping and restoration (context probes against a shadow stack)."""

import random

from eliot import add_destinations, remove_destination
from eliot.parse import Parser

from vf import gen, oracles
from vf.interp import Interp
from vf.runner import h
from vf.tape import Recorder, Tape

ID = "C04"
LEVEL = "exploration"
RULE = ("random nestings (depth up to 8) of `with action`, `with action.context()` + finish, `action.run(f)` + finish, blocks held "
        "open by a plain generator and left by close()/throw(), start_task and typed variants, each optionally re-entering "
        "context()/run() of the already-current action 1-3 times, each level leaving by return or by an exception of the pool "
        "(crossing 0-5 enclosing levels). current_action() is probed before, inside and after every construct and after every "
        "child against the interpreter's shadow stack (identity); the recorded tape is parsed and compared with the ground-truth "
        "forest so that children/new tasks/context-less messages are attributed as executed. non-trivial = an exceptional exit at "
        "depth >=2 (previous action not None); distinct by program shape")
ASSUMPTIONS = ["generator-held blocks are closed only when the driver's context is what it was at the yield (properly nested use)"]
BATCH = 50
STYLES = ["with", "with", "ctx_finish", "ctx_finish", "run_finish", "run_finish", "gen_with", "gen_context", "start_task", "log_call", "ActionType", "as_task"]


def plan(tier, seed):
    n = 12000 if tier == "quick" else 120000
    return [{"seed": seed, "lo": i, "hi": min(n, i + BATCH), "tier": tier} for i in range(0, n, BATCH)]


def exceptional_deep(prog):
    """Number of action nodes at depth >= 2 that exit by exception (own or crossing)."""
    n = [0]

    def walk(nodes, d):
        raised = False
        for x in nodes:
            if x["k"] in ("act", "remote"):
                r = walk(x["children"], d + 1)
                own = x.get("outcome") == "raise"
                if (r or own) and d >= 2:
                    n[0] += 1
            else:
                continue
        return raised
    walk(prog, 1)
    return n[0]


def one(seed, i, tier, res):
    rng = random.Random("%s:C04:%d" % (seed, i))
    g = gen.ProgGen(rng, max_depth=rng.choice([3, 5, 8]), max_nodes=rng.choice([20, 45]), value_depth=0, act_styles=STYLES,
                    allow_remote=rng.random() < 0.3, allow_tb=False, allow_reenter=True, fail_p=rng.choice([0.2, 0.5]),
                    early_finish_p=0.15, extra_styles=("pre_created", "ctx_finish_inside"),
                    msg_styles=["log_message", "action.log", "Message.log"])
    prog = g.program()
    tape = Tape()
    rec = Recorder(tape, "rec")
    add_destinations(rec)
    it = Interp(tape=tape)
    try:
        forest = it.run(prog)
    finally:
        remove_destination(rec)
    problems = [v["msg"] for v in it.violations]
    try:
        tasks = list(Parser.parse_stream(tape.msgs("rec")))
        problems += oracles.compare_forest(forest, tasks)
    except BaseException as e:
        problems.append("parsing the tape raised %r" % (e,))
    st = gen.prog_stats(prog)
    c = res["counters"]
    c["context_probes"] = c.get("context_probes", 0) + it.probes
    for k, v in it.counters.items():
        if k.startswith(("act:", "reenter", "generator", "remote")):
            d = c.setdefault("constructs", {})
            d[k] = d.get(k, 0) + v
    c["max_depth_seen"] = max(c.get("max_depth_seen", 0), st["depth"])
    res["evals"] += 1
    if exceptional_deep(prog) and st["failed"]:
        res["nontrivial"].append(h(gen.prog_shape(prog)))
    if res.get("sample") is None and 3 <= st["nodes"] <= 8 and st["failed"]:
        res["sample"] = {"program": prog, "probes": it.probes}
    if problems:
        res["violations"].append({"msg": problems[0], "mech": None, "detail": {"case": i, "problems": problems[:10], "program": prog}})


def run_case(spec):
    res = {"evals": 0, "nontrivial": [], "counters": {}, "violations": [], "sample": None}
    for i in range(spec["lo"], spec["hi"]):
        one(spec["seed"], i, spec["tier"], res)
    # max is not additive: report it through a set instead
    res["sets"] = {"depths": [str(res["counters"].pop("max_depth_seen", 0))]}
    return res


def finalize(agg, tier):
    if agg["counters"].get("context_probes", 0) < 10000:
        return "fewer than 10000 context probes"
    return None
