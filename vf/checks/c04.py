"""C04 - context scoping and restoration (context probes against a shadow stack)."""

import random

from eliot import add_destinations, remove_destination
from eliot.parse import Parser

from vf import gen, oracles
from vf.interp import Interp
from vf.runner import h
from vf.tape import Recorder, Tape

ID = "C04"
LEVEL = "exploration"
RULE = ("random nestings (depth up to 8) of `with action`, `with action.context()` + finish, `action.run(f)` + finish, blocks held "
        "open by a plain generator and left by close()/throw(), start_task and typed variants, each optionally re-entering "
        "context()/run() of the already-current action 1-3 times, each level leaving by return or by an exception of the pool "
        "(crossing 0-5 enclosing levels). current_action() is probed before, inside and after every construct and after every "
        "child against the interpreter's shadow stack (identity); the recorded tape is parsed and compared with the ground-truth "
        "forest so that children/new tasks/context-less messages are attributed as executed. A fifth of the with/context()/run blocks is "
        "entered and run on another thread than the one that created the Action. part 'scenario': an enclosing action finished explicitly from inside an inner block (every block still restores its predecessor, one end "
        "message each), and a generator returned through Action.run() iterated after run() returned (the action is current during run() only). "
        "part 'fork': os.fork() inside 1-4 open blocks; the child "
        "finds the innermost action current, logs below it, and leaving the inherited blocks restores the enclosing actions. non-trivial = an exceptional exit at "
        "depth >=2 (previous action not None); distinct by program shape")
ASSUMPTIONS = ["generator-held blocks are closed only when the driver's context is what it was at the yield (properly nested use)"]
BATCH = 50
STYLES = ["with", "with", "ctx_finish", "ctx_finish", "run_finish", "run_finish", "gen_with", "gen_context", "start_task", "log_call", "ActionType", "as_task"]


def plan(tier, seed):
    n = 12000 if tier == "quick" else 120000
    specs = [{"seed": seed, "lo": i, "hi": min(n, i + BATCH), "tier": tier} for i in range(0, n, BATCH)]
    k = 2000 if tier == "quick" else 20000
    specs += [{"part": "scenario", "seed": seed, "lo": i, "hi": min(k, i + 100), "tier": tier} for i in range(0, k, 100)]
    m = 200 if tier == "quick" else 2000
    specs += [{"part": "fork", "seed": seed, "lo": i, "hi": min(m, i + 20), "tier": tier} for i in range(0, m, 20)]
    return specs


def exceptional_deep(prog):
    """Number of action nodes at depth >= 2 that exit by exception (own or crossing)."""
    n = [0]

    def walk(nodes, d):
        raised = False
        for x in nodes:
            if x["k"] in ("act", "remote"):
                r = walk(x["children"], d + 1)
                own = x.get("outcome") == "raise"
                if (r or own) and d >= 2:
                    n[0] += 1
            else:
                continue
        return raised
    walk(prog, 1)
    return n[0]


def one(seed, i, tier, res):
    rng = random.Random("%s:C04:%d" % (seed, i))
    g = gen.ProgGen(rng, max_depth=rng.choice([3, 5, 8]), max_nodes=rng.choice([20, 45]), value_depth=0, act_styles=STYLES,
                    allow_remote=rng.random() < 0.3, allow_tb=False, allow_reenter=True, fail_p=rng.choice([0.2, 0.5]),
                    early_finish_p=0.15, extra_styles=("pre_created", "ctx_finish_inside"),
                    msg_styles=["log_message", "action.log", "Message.log"])
    prog = g.program()
    tape = Tape()
    rec = Recorder(tape, "rec")
    add_destinations(rec)
    it = Interp(tape=tape)
    it.explicit_loggers = True
    it.late_calls = True
    it.cross_thread = True
    try:
        forest = it.run(prog)
    finally:
        remove_destination(rec)
    problems = [v["msg"] for v in it.violations]
    try:
        tasks = list(Parser.parse_stream(tape.msgs("rec")))
        problems += oracles.compare_forest(forest, tasks)
    except BaseException as e:
        problems.append("parsing the tape raised %r" % (e,))
    st = gen.prog_stats(prog)
    c = res["counters"]
    c["context_probes"] = c.get("context_probes", 0) + it.probes
    for k, v in it.counters.items():
        if k.startswith(("act:", "reenter", "generator", "remote")):
            d = c.setdefault("constructs", {})
            d[k] = d.get(k, 0) + v
    c["max_depth_seen"] = max(c.get("max_depth_seen", 0), st["depth"])
    res["evals"] += 1
    if exceptional_deep(prog) and st["failed"]:
        res["nontrivial"].append(h(gen.prog_shape(prog)))
    if res.get("sample") is None and 3 <= st["nodes"] <= 8 and st["failed"]:
        res["sample"] = {"program": prog, "probes": it.probes}
    if problems:
        res["violations"].append({"msg": problems[0], "mech": None, "detail": {"case": i, "problems": problems[:10], "program": prog}})


def scenario_case(seed, i, res):
    """Hand-written shapes the program generator does not produce: (a) an OUTER action is finished explicitly from inside an inner
    block - scoping is by block, not by finish(), so every block still restores its predecessor; (b) Action.run(f) where f returns a
    generator that the caller iterates after run() has returned - the action is current during run() only."""
    from eliot import current_action, log_message, start_action
    rng = random.Random("%s:C04:scn:%d" % (seed, i))
    problems = []
    got = []
    add_destinations(got.append)

    def expect(action, where):
        res["counters"]["context_probes"] = res["counters"].get("context_probes", 0) + 1
        if current_action() is not action:
            problems.append("current_action() is %r, expected %r (%s)" % (current_action(), action, where))
    try:
        if i % 2 == 0:
            depth = rng.randint(2, 5)
            kinds = [rng.choice(["with", "context", "run"]) for _ in range(depth)]
            victim = rng.randrange(depth - 1)  # an ancestor of the innermost block
            stack = []

            def nest(level):
                if level == depth:
                    expect(stack[-1], "innermost block before the explicit finish()")
                    stack[victim].finish() if rng.random() < 0.5 else stack[victim].finish(RuntimeError("given up"))
                    expect(stack[-1], "innermost block after finish() of the action of enclosing block %d" % victim)
                    log_message(message_type="scn:m", n=1)
                    return
                a = start_action(action_type="scn:lvl%d" % level)
                stack.append(a)
                if kinds[level] == "with":
                    with a:
                        expect(a, "inside with-block %d" % level)
                        nest(level + 1)
                        expect(a, "with-block %d after its inner block was left (action %sfinished early)" % (level, "" if level == victim else "not "))
                elif kinds[level] == "context":
                    with a.context():
                        expect(a, "inside context() %d" % level)
                        nest(level + 1)
                        expect(a, "context() %d after its inner block was left" % level)
                    a.finish()
                else:
                    def body():
                        expect(a, "inside run() %d" % level)
                        nest(level + 1)
                        expect(a, "run() %d after its inner block was left" % level)
                    a.run(body)
                    a.finish()
                stack.pop()
                expect(stack[-1] if stack else None, "after leaving block %d (%s)" % (level, kinds[level]))
            nest(0)
            ends = [m for m in got if m.get("action_status") in ("succeeded", "failed")]
            if len(ends) != depth:
                problems.append("%d actions, %d end messages (an action finished early from an inner block must still end exactly once)" % (depth, len(ends)))
            res["nontrivial"].append(h(["outer-finish", kinds, victim]))
        else:
            outer = rng.choice([None, "consumer"])
            consumer = start_action(action_type="scn:consumer") if outer else None
            a = start_action(action_type="scn:producer")
            seen = []

            def producer(n):
                for k in range(n):
                    seen.append(current_action())
                    log_message(message_type="scn:item", n=k)
                    yield k

            def consume():
                it_ = a.run(producer, 3)
                expect(consumer, "after run() returned a generator")
                for k in it_:
                    expect(consumer, "between steps of a generator returned through Action.run()")
                    log_message(message_type="scn:consumed", n=k)
                    if rng.random() < 0.3:
                        break
                expect(consumer, "after iterating the generator")
            if consumer is not None:
                with consumer:
                    consume()
            else:
                consume()
            a.finish()
            expect(None, "after everything")
            if any(x is not consumer for x in seen):
                problems.append("the body of a generator returned through Action.run() ran with current_action() %r; it runs when iterated, in the iterating code's context" % (seen[:2],))
            res["nontrivial"].append(h(["run-generator", outer]))
    except BaseException as e:
        problems.append("scenario raised %r" % (e,))
    finally:
        remove_destination(got.append)
    res["evals"] += 1
    c = res["counters"]
    c["scenarios"] = c.get("scenarios", 0) + 1
    if problems:
        res["violations"].append({"msg": problems[0], "mech": None, "detail": {"part": "scenario", "case": i, "problems": problems[:6]}})


def fork_case(seed, i, res):
    """os.fork() while 1-4 scoping blocks are open: the child is still lexically inside them, so current_action() there is the
    innermost action, what it logs is attributed to it, blocks it enters nest below it, and leaving the inherited blocks restores
    the enclosing actions one by one."""
    import json
    import os
    from eliot import current_action, log_message, start_action
    rng = random.Random("%s:C04:fork:%d" % (seed, i))
    depth = rng.randint(1, 4)
    kinds = [rng.choice(["with", "context", "run"]) for _ in range(depth)]
    got = []
    add_destinations(got.append)
    r, w = os.pipe()
    stack = []

    def child_checks():
        problems = []
        inner = stack[-1]
        if current_action() is not inner:
            problems.append("after fork, inside %d open blocks: current_action() is %r, expected the innermost action" % (depth, current_action()))
        del got[:]
        log_message(message_type="in-child", n=1)
        with start_action(action_type="child-action") as a:
            if current_action() is not a:
                problems.append("in the forked child a newly entered action is not current")
        if current_action() is not inner:
            problems.append("in the forked child, leaving a block entered after the fork restored %r instead of the enclosing action" % (current_action(),))
        for m in got:
            if m["task_uuid"] != inner.task_uuid or m["task_level"][:-1 if "action_type" not in m else -2] != inner._task_level.as_list():
                problems.append("message logged by the forked child inside the open blocks is not attributed to the innermost action: %r" % (
                    {k: m[k] for k in ("task_uuid", "task_level")},))
                break
        if len(got) != 3:
            problems.append("the forked child logged 3 messages, its destination received %d" % len(got))
        return problems

    def nest(level):
        if level == depth:
            pid = os.fork()
            if pid == 0:
                try:
                    os.close(r)
                    problems = child_checks()
                    os.write(w, json.dumps({"problems": problems, "phase": "inner"}).encode())
                except BaseException as e:
                    os.write(w, json.dumps({"problems": ["child raised %r" % (e,)]}).encode())
                    os._exit(1)
                return ("child", pid)
            return ("parent", pid)
        a = start_action(action_type="lvl%d" % level)
        stack.append(a)
        try:
            if kinds[level] == "with":
                with a:
                    role = nest(level + 1)
            elif kinds[level] == "context":
                with a.context():
                    role = nest(level + 1)
                a.finish()
            else:
                role = a.run(nest, level + 1)
                a.finish()
        finally:
            stack.pop()
        if role[0] == "child":
            want = stack[-1] if stack else None
            if current_action() is not want:
                os.write(w, json.dumps({"problems": ["in the forked child, leaving inherited block %d (%s) restored %r, expected %s" % (
                    level, kinds[level], current_action(), "the enclosing action" if want is not None else "None")]}).encode())
        return role

    try:
        role = nest(0)
    finally:
        remove_destination(got.append)
    if role[0] == "child":
        os._exit(0)
    os.close(w)
    data = b""
    while True:
        b = os.read(r, 65536)
        if not b:
            break
        data += b
    os.close(r)
    os.waitpid(role[1], 0)
    problems = []
    dec = json.JSONDecoder()
    pos = 0
    text = data.decode()
    reports = 0
    while pos < len(text):
        obj, pos = dec.raw_decode(text, pos)
        reports += 1
        problems.extend(obj["problems"])
    if reports == 0:
        res["inconclusive"] = "forked child reported nothing"
    if current_action() is not None:
        problems.append("parent: current_action() is not None after all blocks were left")
    res["evals"] += 1
    c = res["counters"]
    c["fork_probes"] = c.get("fork_probes", 0) + 1
    res["nontrivial"].append(h(["fork", kinds]))
    if problems:
        res["violations"].append({"msg": problems[0], "mech": None, "detail": {"part": "fork", "kinds": kinds, "problems": problems[:6]}})


def run_case(spec):
    res = {"evals": 0, "nontrivial": [], "counters": {}, "violations": [], "sample": None}
    if spec.get("part") == "scenario":
        for i in range(spec["lo"], spec["hi"]):
            scenario_case(spec["seed"], i, res)
        res["sets"] = {"depths": []}
        return res
    if spec.get("part") == "fork":
        for i in range(spec["lo"], spec["hi"]):
            fork_case(spec["seed"], i, res)
        res["sets"] = {"depths": []}
        return res
    for i in range(spec["lo"], spec["hi"]):
        one(spec["seed"], i, spec["tier"], res)
    # max is not additive: report it through a set instead
    res["sets"] = {"depths": [str(res["counters"].pop("max_depth_seen", 0))]}
    return res


def finalize(agg, tier):
    if agg["counters"].get("context_probes", 0) < 10000:
        return "fewer than 10000 context probes"
    return None
