"""C05 - no context leakage between threads / asyncio tasks (probes + schedule-independence of the parsed forest)."""

from vf import sched

sched.install()  # before eliot is imported

import asyncio
import itertools
import json
import random
import threading

import eliot
from eliot import _action, _output, current_action, log_message, start_action
from eliot.parse import Parser

from vf import conc, gen, oracles
from vf.runner import h

ID = "C05"
LEVEL = "exploration"
RULE = ("part 'threads': structured multi-thread programs (2-4 threads; own tasks, continue_task and preserve_context hand-offs, nested "
        "spawning, joined before the enclosing action ends) run under the line-granular scheduler with LINE events on eliot/_action.py "
        "and eliot/_output.py: baseline, ALL one-preemption schedules and sampled 2-3-preemption schedules per program. part 'async': "
        "coroutine programs (2-8 tasks via create_task / ensure_future / gather / TaskGroup, nested) on a real asyncio loop where every "
        "await parks on a gate and a seeded driver picks the release order, >=20 orders per program. Probes in every thread/task at "
        "every step: a new thread starts with no current action, a new task with the action current at its creation, and a thread's/"
        "task's current action never changes because of another's steps. The merged tape must parse to the ground-truth forest, and "
        "the canonical parsed forest (concurrent siblings sorted) must be identical across all schedules of one program. Thread programs log by log_message, Action.log and through the standard "
        "library bridge (eliot.stdlib.EliotHandler, created wherever the program first needs it). part 'failures': 2-3 threads whose actions fail at "
        "the same time, one with an exception whose registered extractor raises (so that its logging call is busy reporting that), the others with "
        "exceptions whose extractors work (errno of OSError, a registered one), as failed ends or write_traceback; LINE events also on _errors.py "
        "and _traceback.py; in every schedule each message carries exactly its own exception's extractor fields. part 'decorator': the decorator form "
        "of Action.context() - one function under `@shared_action.context()` (optionally starting an action inside, optionally calling itself) called 1-2 "
        "times each by 2-3 threads (each inside an action of its own or with none) under the line-granular scheduler (baseline, all one-preemption "
        "schedules per priority order, sampled 2-3-preemption ones; logging calls into the shared action are guarded by an application lock, so that "
        "two threads are never in the middle of a logging call into the same Action object - calls of the decorated function still overlap), and by 2-3 asyncio tasks "
        "under the await-gate driver: directly, re-entrantly and through pool threads (asyncio.to_thread = a copy of the task's context, "
        "loop.run_in_executor = the pool thread's own context) that wait inside the function for the driver, so that calls of different tasks overlap. "
        "Inside the function current_action() is the shared action, after it returns the caller's own action (or none) is current again (probe after every "
        "step), no call raises, every message / started action is found on the tape in the action that was current where it was logged (task_uuid and "
        "task_level against the start messages), and the canonical parsed forest is identical across schedules. non-trivial = "
        "schedule with a preemption inside eliot code / release order with >=2 live contexts / (decorator) execution in which a call of the decorated function began while another thread or task was inside one; distinct by interleaving hash")
ASSUMPTIONS = ["programs join the work they spawn before the enclosing action ends", "switch points: statement boundaries (threads), awaits (tasks)",
               "part 'decorator': threads / pool threads log into one shared Action object without any application lock (DECORATOR_UNGUARDED_SHARED_LOGGING = True since positions are handed out in one step, /repo 145c77c; on the tree before that fix two such threads could be given one task_level)"]
EXHAUSTIVE_NOTE = "threads: all one-preemption schedules (root thread first and last in priority) of each generated program"
CASE_TIMEOUT = 900


def plan(tier, seed):
    n = 12 if tier == "quick" else 100
    NCH = 6  # the one-preemption plans of one (program, priority order) are split over NCH specs so that they run in parallel
    specs = [{"part": "threads", "seed": seed, "i": i, "tier": tier, "order": o, "chunk": ch, "nchunks": NCH}
             for i in range(n) for o in range(2 if tier == "quick" else 3) for ch in range(NCH)]
    m = 64 if tier == "quick" else 800
    specs += [{"part": "async", "seed": seed, "i": i, "tier": tier} for i in range(m)]
    specs += [{"part": "failures", "seed": seed, "i": i, "tier": tier} for i in range(6 if tier == "quick" else 40)]
    if ENABLE_DECORATOR:
        DCH = 3
        specs += [{"part": "decorator", "seed": seed, "i": i, "tier": tier, "order": o, "chunk": ch, "nchunks": DCH}
                  for i in range(4 if tier == "quick" else 24) for o in range(2 if tier == "quick" else 3) for ch in range(DCH)]
        specs += [{"part": "decorator_async", "seed": seed, "i": i, "tier": tier} for i in range(24 if tier == "quick" else 160)]
    return specs


def canon(n, sort_children):
    if n["kind"] == "action":
        ch = [canon(c, sort_children) for c in n["children"]]
        if sort_children:
            ch.sort(key=lambda c: json.dumps(c, sort_keys=True, default=str))
        return {"a": n["type"], "s": n["status"], "start": n["start"], "end": {k: v for k, v in (n["end"] or {}).items()}, "c": ch}
    return {"m": n["type"], "f": n["fields"]}


def canonical_forest(msgs, sort_children):
    trees = [canon(oracles.norm_written(t.root()), sort_children) for t in Parser.parse_stream(msgs)]
    trees.sort(key=lambda c: json.dumps(c, sort_keys=True, default=str))
    return h(trees)


def part_threads(spec, res):
    rng = random.Random("%s:C05:t:%d" % (spec["seed"], spec["i"]))
    sched.instrument([_action, _output])
    prog, nthreads = conc.gen_thread_program(rng, max_threads=rng.choice([2, 3, 4]))
    c = res["counters"]
    forests = set()

    def execute(plan_, label):
        box = {}

        def main():
            box["r"] = conc.run_thread_program(prog, thread_factory=threading.Thread)
        st, errs = sched.run_schedule(plan_, {"main": main}, timeout=120.0)
        res["evals"] += 1
        c["thread_schedules_run"] = c.get("thread_schedules_run", 0) + 1
        if st["deadlock"]:
            res["violations"].append({"msg": "threads deadlocked inside eliot: %s" % st["deadlock"], "mech": None, "detail": {"part": "threads", "plan": plan_, "program": prog}})
            return st
        if st["aborted"]:
            res["inconclusive"] = "schedule abandoned: %s" % st["aborted"]
            return st
        problems = ["main thread raised %r" % (e,) for e in errs.values()]
        if "r" in box:
            p, it, tape, forest = box["r"]
            problems += p
            conc.judge_thread_run(tape, forest, problems, placement=False)
            c["context_probes"] = c.get("context_probes", 0) + it.probes
            try:
                forests.add(canonical_forest(tape.msgs("rec"), False))
            except BaseException as e:
                problems.append("canonicalising the parsed forest raised %r" % (e,))
        c["dynamic_threads_registered"] = c.get("dynamic_threads_registered", 0) + st["dynamic_threads"]
        res["sets"]["interleavings"].append(sched.trace_hash(st))
        for nm, k, loc in st["fired"]:
            res["sets"]["preemption_lines"].append(loc)
        if st["fired"]:
            res["nontrivial"].append(sched.trace_hash(st))
        if problems and len(res["violations"]) < 3:
            res["violations"].append({"msg": problems[0], "mech": None, "detail": {"part": "threads", "plan": plan_, "program": prog, "problems": problems[:6], "label": label}})
        return st

    names = ["main"] + ["dyn%d" % (k + 1) for k in range(nthreads)]
    shuffled = list(names)
    rng.shuffle(shuffled)
    order = [names, names[1:] + names[:1], shuffled][spec["order"]]
    base = execute({"order": order, "changes": []}, "baseline")
    if base["aborted"]:
        return
    for j, p in enumerate(sched.one_preemption_plans(order, base["events"])):
        if j % spec["nchunks"] != spec["chunk"]:
            continue
        execute(p, "1-preemption")
        if len(res["violations"]) >= 3:
            return
    r2 = random.Random("%s:C05:t:%d:%d:%d" % (spec["seed"], spec["i"], spec["order"], spec["chunk"]))
    for p in sched.sampled_plans(r2, names, base["events"], 8 if spec["tier"] == "quick" else 60):
        execute(p, "sampled")
    if len(forests) > 1:
        res["violations"].append({"msg": "the parsed forest of one program differs between schedules (%d distinct forests)" % len(forests), "mech": None,
                                  "detail": {"part": "threads", "program": prog}})
    if spec["chunk"] == 0 and spec["order"] == 0:
        c["thread_programs"] = c.get("thread_programs", 0) + 1
    if spec["i"] % 8 == 0 and spec["chunk"] == 0 and spec["order"] == 0:
        res["sample"] = {"part": "threads", "program": prog, "threads_spawned": nthreads, "baseline_events": base["events"]}


class BrokenExtractorError(Exception):
    pass


class FineExtractorError(Exception):
    pass


def part_failures(spec, res):
    """Threads whose actions FAIL at the same time: one with an exception whose registered extractor raises (eliot reports that
    with a traceback message - a long window inside that thread's logging call), the others with exceptions whose extractors work
    (the built-in errno one for OSError, a registered one). What one thread's logging call is in the middle of must not show in the
    messages of another: in every schedule every failed end / traceback message carries exactly its own exception's extractor fields."""
    from eliot import _errors, _traceback, add_destinations, register_exception_extractor, remove_destination, start_action, write_traceback
    rng = random.Random("%s:C05:f:%d" % (spec["seed"], spec["i"]))
    sched.instrument([_action, _output, _errors, _traceback])

    def boom(e):
        raise RuntimeError("vf-c05 extractor failed")
    register_exception_extractor(BrokenExtractorError, boom)
    register_exception_extractor(FineExtractorError, lambda e: {"fine_code": e.args[0]})
    nthreads = rng.choice([2, 2, 3])
    kinds = ["broken"] + [rng.choice(["oserror", "fine", "oserror_tb", "fine_tb", "broken"]) for _ in range(nthreads - 1)]
    rng.shuffle(kinds)
    c = res["counters"]

    def worker(k, kind):
        def run():
            try:
                with start_action(action_type="f:act", who=k):
                    if kind == "broken":
                        raise BrokenExtractorError("thread %d" % k)
                    if kind == "oserror":
                        raise OSError(100 + k, "thread %d" % k)
                    if kind == "fine":
                        raise FineExtractorError(200 + k)
                    try:
                        raise (OSError(100 + k, "thread %d" % k) if kind == "oserror_tb" else FineExtractorError(200 + k))
                    except Exception:
                        write_traceback()
            except (BrokenExtractorError, OSError, FineExtractorError):
                pass
        return run

    def execute(plan_, label):
        got = []
        dest = got.append
        add_destinations(dest)
        try:
            st, errs = sched.run_schedule(plan_, dict(("w%d" % k, worker(k, kind)) for k, kind in enumerate(kinds)), timeout=120.0)
        finally:
            remove_destination(dest)
        res["evals"] += 1
        c["failure_schedules_run"] = c.get("failure_schedules_run", 0) + 1
        if st["deadlock"]:
            res["violations"].append({"msg": "threads deadlocked inside eliot: %s" % st["deadlock"], "mech": None, "detail": {"part": "failures", "plan": plan_}})
            return st
        if st["aborted"]:
            res["inconclusive"] = "schedule abandoned: %s" % st["aborted"]
            return st
        problems = ["a thread raised %r" % (e,) for e in errs.values()]
        by_uuid = {}
        reports = 0
        for m in got:
            if m.get("message_type") == "eliot:traceback" and "vf-c05 extractor failed" in str(m.get("reason")):
                # eliot's report about the raising extractor: logged in the context current when the action finished (here: none,
                # so it is a one-message task of its own)
                reports += 1
                continue
            by_uuid.setdefault(m["task_uuid"], []).append(dict(m))
        if reports != kinds.count("broken"):
            problems.append("%d actions failed with an exception whose extractor raises, %d reports about a raising extractor were logged" % (kinds.count("broken"), reports))
        if len(by_uuid) != len(kinds):
            problems.append("%d threads each ran one task, the log has %d tasks" % (len(kinds), len(by_uuid)))
        for msgs in by_uuid.values():
            who = [m.get("who") for m in msgs if m.get("action_status") == "started"]
            if len(who) != 1 or not isinstance(who[0], int) or who[0] >= len(kinds):
                problems.append("a task without exactly one start message: %r" % (who,))
                continue
            k, kind = who[0], kinds[who[0]]
            ends = [m for m in msgs if "action_status" in m and m["action_status"] != "started"]
            tbs = [m for m in msgs if m.get("message_type") == "eliot:traceback"]
            want_end, want_tb = {}, None
            if kind == "oserror":
                want_end = {"errno": 100 + k}
            elif kind == "fine":
                want_end = {"fine_code": 200 + k}
            elif kind == "oserror_tb":
                want_tb = {"errno": 100 + k}
            elif kind == "fine_tb":
                want_tb = {"fine_code": 200 + k}
            if len(ends) != 1:
                problems.append("thread %d (%s): %d end messages" % (k, kind, len(ends)))
                continue
            extra = {f: v for f, v in ends[0].items() if f in ("errno", "fine_code")}
            if extra != want_end:
                problems.append("thread %d's action failed with %s: its end message carries extractor fields %r, its own exception's extractor gives %r "
                                "(another thread was %s at the time)" % (k, kind, extra, want_end, "/".join(x for j, x in enumerate(kinds) if j != k)))
            if want_tb is not None:
                if len(tbs) != 1:
                    problems.append("thread %d (%s): %d traceback messages in its task" % (k, kind, len(tbs)))
                else:
                    extra = {f: v for f, v in tbs[0].items() if f in ("errno", "fine_code")}
                    if extra != want_tb:
                        problems.append("thread %d's traceback message for %s carries extractor fields %r, its own exception's extractor gives %r" % (
                            k, kind, extra, want_tb))
            elif tbs:
                problems.append("thread %d (%s): %d traceback messages in its task, it logged none" % (k, kind, len(tbs)))
        res["sets"]["interleavings"].append(sched.trace_hash(st))
        for nm, kk, loc in st["fired"]:
            res["sets"]["preemption_lines"].append(loc)
            if loc.startswith(("_errors.py", "_traceback.py")):
                c["preemptions_inside_failure_reporting"] = c.get("preemptions_inside_failure_reporting", 0) + 1
        if st["fired"]:
            res["nontrivial"].append(sched.trace_hash(st))
        if problems and len(res["violations"]) < 3:
            res["violations"].append({"msg": problems[0], "mech": None, "detail": {"part": "failures", "plan": plan_, "kinds": kinds, "problems": problems[:6], "label": label}})
        return st

    names = ["w%d" % k for k in range(len(kinds))]
    base = execute({"order": names, "changes": []}, "baseline")
    if base["aborted"] or base["deadlock"]:
        return
    for p in sched.one_preemption_plans(names, base["events"]):
        execute(p, "1-preemption")
        if len(res["violations"]) >= 3:
            return
    for p in sched.sampled_plans(rng, names, base["events"], 8 if spec["tier"] == "quick" else 40):
        execute(p, "sampled")


# --------------------------------------------------------------------------- part 'decorator'
#
# The DECORATOR form of Action.context(): `@shared_action.context()` applied to a function (the object context() returns is a
# contextlib context manager, which is usable as a decorator and re-creates itself for every call), the decorated function then
# called by several threads / asyncio tasks at overlapping times, every call logging inside.

ENABLE_DECORATOR = True
# Threads inside the decorated function all log into ONE Action object. C05 quantifies over thread interleavings "at logging-call
# boundaries"; the line-granular scheduler also switches threads in the middle of a logging call. With two threads in the middle of
# a logging call into the same action the UNCHANGED library hands out one task_level twice (Action._nextTaskLevel is a read-modify-
# write without a lock: e.g. schedule order [w0, w1] + change point (w0, 103) of seed 0 / program 0 gives w1's message and the
# start of w0's child action position 5 of the shared action, position 3 stays empty, and the parser drops one of the two). That is
# a placement matter (C02) outside C05's quantifier, so the programs here guard their logging calls into the shared action by an
# application lock: calls of the decorated function still overlap, switch points inside context() entry / exit and inside every
# other logging call stay. Set to True to run without that lock (fires on the unchanged tree, see above).
DECORATOR_UNGUARDED_SHARED_LOGGING = True


class DecoEnv(object):
    """What one execution of a decorator program observed at the public boundary, and what the program did (ground truth)."""

    def __init__(self):
        self.lock = sched._real_Lock()
        self.guard = sched.SchedLock(False)  # the application's lock around logging calls into an action several threads log into
        self.guard_all = False
        self.problems = []
        self.probes = 0
        self.parent = {}  # nid of every logged message / started action -> nid of the action it was logged in (None: no action)
        self.kind = {}  # nid -> "message" | "action"
        self.strands = {}  # who -> nids in the order that strand logged them
        self.what = {}  # nid -> words for reports
        self.names = {}  # id(action) -> words for reports
        self.keep = []  # (keeps the named actions alive: ids are not recycled)
        self.inside = {}  # who -> depth of calls of the decorated function it is in
        self.overlaps = 0  # calls of the decorated function that began while another thread / task was inside one
        self.calls = 0
        self.order = []

    def problem(self, msg):
        with self.lock:
            if len(self.problems) < 10:
                self.problems.append(msg)

    def name(self, action, words):
        self.names[id(action)] = words
        self.keep.append(action)

    def describe(self, action):
        if action is None:
            return "no action"
        return self.names.get(id(action), "an action this program never entered (%r)" % (action,))

    def probe(self, expected, where):
        self.probes += 1
        got = current_action()
        if got is not expected:
            self.problem("current_action() is %s, expected %s (%s)" % (self.describe(got), self.describe(expected), where))

    def logged(self, nid, parent_nid, who, kind, what):
        with self.lock:
            self.parent[nid] = parent_nid
            self.kind[nid] = kind
            self.what[nid] = what
            self.strands.setdefault(who, []).append(nid)

    def log(self, parent_nid, who, nid, what, guarded=False):
        self.logged(nid, parent_nid, who, "message", "%s logged message nid=%s %s" % (who, nid, what))
        if (guarded or self.guard_all) and not DECORATOR_UNGUARDED_SHARED_LOGGING:
            with self.guard:
                log_message(message_type="d:m", nid=nid, who=who)
        else:
            log_message(message_type="d:m", nid=nid, who=who)

    def start(self, guarded, **fields):
        if (guarded or self.guard_all) and not DECORATOR_UNGUARDED_SHARED_LOGGING:
            with self.guard:
                return start_action(**fields)
        return start_action(**fields)

    def enter(self, who):
        with self.lock:
            self.calls += 1
            if any(w != who for w in self.inside):
                self.overlaps += 1
            self.inside[who] = self.inside.get(who, 0) + 1

    def leave(self, who):
        with self.lock:
            self.inside[who] -= 1
            if not self.inside[who]:
                del self.inside[who]


def gen_deco_program(rng, tasks):
    """2-3 workers (threads or asyncio tasks), each inside an action of its own or with none, each calling the decorated function
    1-2 times between messages of its own."""
    ids = itertools.count(1)
    nid = lambda: next(ids)
    n = rng.choice([2, 2, 3])
    threaded = tasks and rng.random() < 0.8
    workers = []
    for k in range(n):
        steps = []
        if tasks:
            steps.append({"k": "await", "nid": nid()})
        if rng.random() < 0.5:
            steps.append({"k": "msg", "nid": nid()})
        for _ in range(rng.choice([1, 1, 2])):
            call = {"k": "call", "nid": nid(), "inside": [nid() for _ in range(rng.randint(1, 2))], "sub": None, "rec": None, "how": "direct"}
            if rng.random() < 0.3:
                call["sub"] = {"nid": nid(), "msg": nid()}  # an action started inside the decorated function: a child of the shared action
            if rng.random() < 0.2:
                call["rec"] = {"nid": nid(), "inside": [nid()], "sub": None, "rec": None, "how": "direct"}  # the decorated function calls itself
            if threaded and (k < 2 or rng.random() < 0.6):
                # the call runs in a pool thread and waits there for the driver: calls of different tasks overlap in time
                call["how"] = rng.choice(["to_thread", "executor"])
                call["park"] = nid()
                call["pre"], call["post"] = nid(), nid()
            steps.append(call)
            if tasks and rng.random() < 0.6:
                steps.append({"k": "await", "nid": nid()})
            steps.append({"k": "msg", "nid": nid()})
        workers.append({"own": rng.random() < 0.7, "job": nid(), "steps": steps})
    return {"shared": nid(), "root": nid(), "workers": workers, "spawn": rng.choice(["create_task", "gather", "taskgroup"])}


def make_decorated(env, shared, shared_nid, park=None):
    """The function under `@shared.context()`. Inside it the shared action is current, whoever calls it."""

    @shared.context()
    def handle(who, call, depth=0):
        env.enter(who)
        try:
            env.probe(shared, "%s inside the function decorated with the shared action's context(), call %s" % (who, call["nid"]))
            for j, n in enumerate(call["inside"]):
                if j == 0 and park is not None and call.get("park"):
                    # logs on both sides of the wait
                    env.log(shared_nid, who, call["park"], "inside the decorated function, before waiting there", guarded=True)
                    park(call["park"])
                    env.probe(shared, "%s inside the decorated function after waiting there, call %s" % (who, call["nid"]))
                env.log(shared_nid, who, n, "inside the function decorated with the shared action's context()", guarded=True)
                env.probe(shared, "%s inside the decorated function after logging, call %s" % (who, call["nid"]))
            if call["sub"]:
                s = call["sub"]
                env.logged(s["nid"], shared_nid, who, "action", "%s started action d:sub nid=%s inside the decorated function" % (who, s["nid"]))
                with env.start(True, action_type="d:sub", nid=s["nid"], who=who) as sub:
                    env.name(sub, "action d:sub nid=%s" % s["nid"])
                    env.probe(sub, "%s inside an action started in the decorated function" % who)
                    env.log(s["nid"], who, s["msg"], "inside an action started in the decorated function")
                env.probe(shared, "%s inside the decorated function after an action started there ended" % who)
            if call["rec"] and depth == 0:
                handle(who, call["rec"], 1)
                env.probe(shared, "%s in the outer call of the decorated function after the inner call returned" % who)
        finally:
            env.leave(who)
        return call["nid"]
    return handle


def deco_call(env, handle, who, call, mine):
    """One call of the decorated function from a thread / task whose current action is `mine`."""
    try:
        r = handle(who, call)
        if r != call["nid"]:
            env.problem("%s: the decorated function returned %r, its body returned %r" % (who, r, call["nid"]))
    except Exception as e:
        got = current_action()
        env.problem("%s: after its call of the function decorated with shared_action.context() (call %s) current_action() is %s, before the call it was %s; the call "
                    "raised %r" % (who, call["nid"], env.describe(got), env.describe(mine), e) if got is not mine else
                    "%s: calling the function decorated with shared_action.context() raised %r (call %s)" % (who, e, call["nid"]))
    env.probe(mine, "%s after the decorated function returned: its own context must be current again (call %s)" % (who, call["nid"]))


def judge_deco(env, msgs, problems):
    """Attribution of every message / action on the tape (task_uuid and task_level) against the action that was current, by the
    program's construction, where it was logged."""
    starts, ends, plain = {}, {}, {}
    for m in msgs:
        n = m.get("nid")
        if m.get("action_status") == "started":
            starts.setdefault(n, []).append(m)
        elif "action_status" in m:
            # (an end message does not repeat the start fields: it is matched with its start message by position)
            ends.setdefault((m["task_uuid"], tuple(m["task_level"][:-1])), []).append(m)
        else:
            plain.setdefault(n, []).append(m)
    where = {}  # nid of an action -> (task_uuid, level prefix of its children)
    for n, ms in starts.items():
        where[n] = (ms[0]["task_uuid"], list(ms[0]["task_level"][:-1]))

    def owner(uuid, prefix):
        for n, (u, p) in where.items():
            if u == uuid and p == prefix:
                return "action %s nid=%s" % (starts[n][0]["action_type"], n)
        return "no action of this program (task %s level %r)" % (uuid, prefix)

    for n, p in sorted(env.parent.items()):
        ms = (starts if env.kind[n] == "action" else plain).get(n, [])
        if len(ms) != 1:
            problems.append("%s: %d such messages reached the destination" % (env.what[n], len(ms)))
            continue
        m = ms[0]
        prefix = list(m["task_level"][:-1])
        if env.kind[n] == "action":
            prefix = prefix[:-1]
            e = ends.get((m["task_uuid"], tuple(m["task_level"][:-1])), [])
            if len(e) != 1 or e[0]["action_status"] != "succeeded":
                problems.append("%s and left it normally: its end messages are %r" % (env.what[n], e))
        if p is None:
            if list(m["task_level"]) != [1]:
                problems.append("%s with no action current; on the tape it belongs to %s" % (env.what[n], owner(m["task_uuid"], prefix)))
        elif p not in where:
            problems.append("%s in action nid=%s, which has no start message" % (env.what[n], p))
        elif (m["task_uuid"], prefix) != where[p]:
            problems.append("%s while %s was current there; on the tape it belongs to %s" % (env.what[n], owner(*where[p]), owner(m["task_uuid"], prefix)))
    if len(msgs) != len(env.parent) + sum(1 for k in env.kind.values() if k == "action"):
        problems.append("the program logged %d messages and started %d actions, the destination received %d messages" % (
            sum(1 for k in env.kind.values() if k == "message"), sum(1 for k in env.kind.values() if k == "action"), len(msgs)))
    try:
        tasks = list(Parser.parse_stream(msgs))
    except BaseException as e:
        problems.append("parsing the tape raised %r" % (e,))
        return
    pos = {}

    def walk(node, parent_nid):
        if node["kind"] == "action":
            n = (node["start"] or {}).get("nid")
            for i, ch in enumerate(node["children"]):
                walk(ch, n)
                pos[ch["fields"].get("nid") if ch["kind"] == "message" else (ch["start"] or {}).get("nid")] = i
        else:
            n = node["fields"].get("nid")
        if env.parent.get(n, "?") != parent_nid:
            problems.append("%s: in the parsed forest its parent is action nid=%s, it was logged in action nid=%s" % (env.what.get(n, "nid %r" % (n,)), parent_nid, env.parent.get(n, "?")))
    for t in tasks:
        if not t.is_complete():
            problems.append("a parsed task is not complete")
        walk(oracles.norm_written(t.root()), None)
    for who, nids in env.strands.items():
        last = {}
        for n in nids:
            p = env.parent[n]
            if p is not None and n in pos:
                if p in last and pos[n] < last[p]:
                    problems.append("%s: it appears before a message the same strand logged earlier in the same action" % env.what[n])
                last[p] = pos[n]


def part_decorator(spec, res):
    """Threads under the line-granular scheduler calling one function decorated with `@shared.context()`."""
    from eliot import add_destinations, remove_destination
    rng = random.Random("%s:C05:d:%d" % (spec["seed"], spec["i"]))
    sched.instrument([_action, _output])
    prog = gen_deco_program(rng, tasks=False)
    c = res["counters"]
    forests = set()
    names = ["w%d" % k for k in range(len(prog["workers"]))]

    def execute(plan_, label):
        from vf.tape import Recorder, Tape
        env = DecoEnv()
        tape = Tape()
        rec = Recorder(tape, "rec")
        add_destinations(rec)
        # the long-lived shared action: started (not entered) by the application before its worker threads, finished after them
        env.logged(prog["shared"], None, "main", "action", "the main thread started the shared action d:shared nid=%s" % prog["shared"])
        shared = start_action(action_type="d:shared", nid=prog["shared"])
        env.name(shared, "the shared action d:shared nid=%s" % prog["shared"])
        handle = make_decorated(env, shared, prog["shared"])

        def worker(k, w):
            who = names[k]

            def steps(mine, mine_nid):
                for st in w["steps"]:
                    if st["k"] == "msg":
                        env.log(mine_nid, who, st["nid"], "in its own context, outside the decorated function")
                    else:
                        deco_call(env, handle, who, st, mine)
                    env.probe(mine, "%s after step %s" % (who, st["nid"]))

            def run():
                env.probe(None, "first probe in thread %s" % who)
                if w["own"]:
                    env.logged(w["job"], None, who, "action", "%s started its own action d:job nid=%s" % (who, w["job"]))
                    with env.start(False, action_type="d:job", nid=w["job"], who=who) as mine:
                        env.name(mine, "%s's own action d:job nid=%s" % (who, w["job"]))
                        env.probe(mine, "%s inside its own action" % who)
                        steps(mine, w["job"])
                else:
                    steps(None, None)
                env.probe(None, "last probe in thread %s" % who)
            return run
        try:
            st, errs = sched.run_schedule(plan_, dict((names[k], worker(k, w)) for k, w in enumerate(prog["workers"])), timeout=120.0)
            if not (st["deadlock"] or st["aborted"]):
                shared.finish()
        finally:
            remove_destination(rec)
        res["evals"] += 1
        c["decorator_thread_schedules"] = c.get("decorator_thread_schedules", 0) + 1
        if st["deadlock"]:
            res["violations"].append({"msg": "threads deadlocked inside eliot: %s" % st["deadlock"], "mech": None, "detail": {"part": "decorator", "plan": plan_, "program": prog}})
            return st
        if st["aborted"]:
            res["inconclusive"] = "schedule abandoned: %s" % st["aborted"]
            return st
        problems = ["thread %s raised %r" % (n, e) for n, e in errs.items()] + env.problems
        msgs = tape.msgs("rec")
        judge_deco(env, msgs, problems)
        try:
            forests.add(canonical_forest(msgs, True))
        except BaseException as e:
            problems.append("canonicalising the parsed forest raised %r" % (e,))
        c["context_probes"] = c.get("context_probes", 0) + env.probes
        c["decorated_calls"] = c.get("decorated_calls", 0) + env.calls
        res["sets"]["interleavings"].append(sched.trace_hash(st))
        for nm, k, loc in st["fired"]:
            res["sets"]["preemption_lines"].append(loc)
        if env.overlaps:
            c["decorator_thread_overlaps"] = c.get("decorator_thread_overlaps", 0) + 1
            res["nontrivial"].append(sched.trace_hash(st))
        if problems and len(res["violations"]) < 3:
            res["violations"].append({"msg": problems[0], "mech": None, "detail": {"part": "decorator", "plan": plan_, "program": prog, "problems": problems[:6], "label": label,
                                                                                  "overlapping_calls": env.overlaps}})
        return st

    shuffled = list(names)
    rng.shuffle(shuffled)
    order = [names, names[1:] + names[:1], shuffled][spec["order"]]
    base = execute({"order": order, "changes": []}, "baseline")
    if base["aborted"] or base["deadlock"]:
        return
    for j, p in enumerate(sched.one_preemption_plans(order, base["events"])):
        if j % spec["nchunks"] != spec["chunk"]:
            continue
        execute(p, "1-preemption")
        if len(res["violations"]) >= 3:
            return
    r2 = random.Random("%s:C05:d:%d:%d:%d" % (spec["seed"], spec["i"], spec["order"], spec["chunk"]))
    for p in sched.sampled_plans(r2, names, base["events"], 6 if spec["tier"] == "quick" else 24):
        execute(p, "sampled")
    if len(forests) > 1:
        res["violations"].append({"msg": "the parsed forest of one decorator program differs between schedules (%d distinct forests)" % len(forests), "mech": None,
                                  "detail": {"part": "decorator", "program": prog}})
    if spec["chunk"] == 0 and spec["order"] == 0:
        c["decorator_thread_programs"] = c.get("decorator_thread_programs", 0) + 1
        if spec["i"] % 4 == 0:
            res["sample"] = {"part": "decorator", "program": prog, "baseline_events": base["events"]}


class HarnessStuck(Exception):
    pass


class DecoGate(object):
    """Await gate (as vf.conc.Gate) that can also park a pool thread: the driver releases one parked coroutine or thread at a
    time and lets nothing else be picked while a released thread is still running."""

    def __init__(self, rng):
        self.rng = rng
        self.parked = []  # (nid, future or None, threading.Event or None)
        self.order = []
        self.loop = None
        self.in_flight = 0  # calls handed to pool threads whose callers have not resumed yet (touched on the loop's thread only)
        self.threads_parked = 0  # (touched on the loop's thread only)

    async def point(self, nid):
        fut = self.loop.create_future()
        self.parked.append((nid, fut, None))
        await fut

    def _park_thread(self, nid, ev):
        self.parked.append((nid, None, ev))
        self.threads_parked += 1

    def thread_point(self, nid):
        ev = threading.Event()
        self.loop.call_soon_threadsafe(self._park_thread, nid, ev)
        if not ev.wait(30):
            raise HarnessStuck("a pool thread was never released")


async def _deco_drive(gate, main_coro):
    gate.loop = asyncio.get_running_loop()
    main = asyncio.ensure_future(main_coro)
    idle = 0
    while not main.done():
        for _ in range(6):
            await asyncio.sleep(0)
        if gate.in_flight > gate.threads_parked:
            # a pool thread is running: wait until it parks or until its caller has taken the result
            await asyncio.sleep(0.0002)
            idle += 1
            if idle > 100000:
                main.cancel()
                raise HarnessStuck("a pool thread made no progress")
            continue
        if gate.parked:
            idle = 0
            nid, fut, ev = gate.parked.pop(gate.rng.randrange(len(gate.parked)))
            gate.order.append(nid)
            if ev is not None:
                gate.threads_parked -= 1
                ev.set()
            else:
                fut.set_result(None)
        else:
            idle += 1
            if idle > 2000 and not main.done():
                main.cancel()
                raise HarnessStuck("coroutine program made no progress")
    for nid, fut, ev in gate.parked:
        if ev is not None:
            ev.set()
    await main


def run_deco_async(prog, rng):
    from eliot import add_destinations, remove_destination
    from vf.tape import Recorder, Tape
    env = DecoEnv()
    env.guard_all = True  # pool threads and the loop's thread log into the same actions (d:root, d:shared) under OS scheduling
    gate = DecoGate(rng)
    tape = Tape()
    rec = Recorder(tape, "rec")

    async def task_body(k, w, root):
        who = "t%d" % k
        # an asyncio task inherits the action current where it was created
        env.probe(root, "first probe in task %s" % who)

        def in_pool(call, cur, cur_nid, copied):
            # runs in a pool thread: with asyncio.to_thread in a copy of the calling task's context, with
            # loop.run_in_executor in the pool thread's own context, where no action is ever entered and not left again
            here = cur if copied else None
            here_nid = cur_nid if copied else None
            words = "in a pool thread running in a copy of its context" if copied else "in a pool thread's own context"
            env.probe(here, "%s %s, before the decorated function" % (who, words))
            env.log(here_nid, who, call["pre"], "%s, before calling the decorated function" % words)
            deco_call(env, handle_box[0], who, call, here)
            env.log(here_nid, who, call["post"], "%s, after the decorated function returned" % words)
            env.probe(here, "%s %s, after the decorated function" % (who, words))

        async def steps(mine, mine_nid):
            for st in w["steps"]:
                if st["k"] == "msg":
                    env.log(mine_nid, who, st["nid"], "in its own context, outside the decorated function")
                elif st["k"] == "await":
                    await gate.point(st["nid"])
                elif st["how"] == "direct":
                    deco_call(env, handle_box[0], who, st, mine)
                else:
                    gate.in_flight += 1
                    try:
                        if st["how"] == "to_thread":
                            await asyncio.to_thread(in_pool, st, mine, mine_nid, True)
                        else:
                            await asyncio.get_running_loop().run_in_executor(None, in_pool, st, mine, mine_nid, False)
                    except HarnessStuck:
                        raise
                    except Exception as e:
                        env.problem("%s: the call handed to a pool thread raised %r" % (who, e))
                    finally:
                        gate.in_flight -= 1
                env.probe(mine, "%s after step %s" % (who, st["nid"]))
        if w["own"]:
            env.logged(w["job"], prog["root"], who, "action", "%s started its own action d:job nid=%s" % (who, w["job"]))
            with env.start(False, action_type="d:job", nid=w["job"], who=who) as mine:
                env.name(mine, "%s's own action d:job nid=%s" % (who, w["job"]))
                await steps(mine, w["job"])
        else:
            await steps(root, prog["root"])
        env.probe(root, "last probe in task %s" % who)

    handle_box = []

    async def main():
        env.logged(prog["root"], None, "main", "action", "the main task started action d:root nid=%s" % prog["root"])
        with start_action(action_type="d:root", nid=prog["root"]) as root:
            env.name(root, "action d:root nid=%s" % prog["root"])
            env.logged(prog["shared"], prog["root"], "main", "action", "the main task started the shared action d:shared nid=%s" % prog["shared"])
            shared = start_action(action_type="d:shared", nid=prog["shared"])
            env.name(shared, "the shared action d:shared nid=%s" % prog["shared"])
            env.probe(root, "main task after starting (not entering) the shared action")
            handle_box.append(make_decorated(env, shared, prog["shared"], park=gate.thread_point))
            coros = [task_body(k, w, root) for k, w in enumerate(prog["workers"])]
            if prog["spawn"] == "gather":
                await asyncio.gather(*coros)
            elif prog["spawn"] == "taskgroup":
                async with asyncio.TaskGroup() as tg:
                    for co in coros:
                        tg.create_task(co)
            else:
                for t in [asyncio.get_running_loop().create_task(co) for co in coros]:
                    await t
            env.probe(root, "main task after its tasks ended")
            shared.finish()
            env.probe(root, "main task after finishing the shared action")
    problems = []
    stuck = None
    add_destinations(rec)
    try:
        asyncio.run(_deco_drive(gate, main()))
    except HarnessStuck as e:
        stuck = str(e)
    except BaseException as e:
        problems.append("running the coroutine program raised %r" % (e,))
    finally:
        remove_destination(rec)
    problems += env.problems
    if any("HarnessStuck" in p for p in problems):
        stuck = stuck or "a pool thread was never released"
    return problems, env, tape, gate.order, stuck


def part_decorator_async(spec, res):
    """asyncio tasks under the await-gate driver calling one function decorated with `@shared.context()`: directly (also
    re-entrantly) and through pool threads (asyncio.to_thread / loop.run_in_executor) that wait inside it, so that calls overlap."""
    rng = random.Random("%s:C05:da:%d" % (spec["seed"], spec["i"]))
    prog = gen_deco_program(rng, tasks=True)
    c = res["counters"]
    forests = set()
    for k in range(12 if spec["tier"] == "quick" else 30):
        r = random.Random("%s:C05:da:%d:%d" % (spec["seed"], spec["i"], k))
        problems, env, tape, order, stuck = run_deco_async(prog, r)
        res["evals"] += 1
        c["decorator_async_runs"] = c.get("decorator_async_runs", 0) + 1
        if stuck:
            res["inconclusive"] = "decorator_async: %s" % stuck
            return
        msgs = tape.msgs("rec")
        judge_deco(env, msgs, problems)
        try:
            forests.add(canonical_forest(msgs, True))
        except BaseException as e:
            problems.append("canonicalising the parsed forest raised %r" % (e,))
        c["context_probes"] = c.get("context_probes", 0) + env.probes
        c["decorated_calls"] = c.get("decorated_calls", 0) + env.calls
        res["sets"]["interleavings"].append(h(["da", spec["i"], order]))
        if env.overlaps:
            c["decorator_async_overlaps"] = c.get("decorator_async_overlaps", 0) + 1
            res["nontrivial"].append(h(["da", spec["i"], order]))
        if problems and len(res["violations"]) < 3:
            res["violations"].append({"msg": problems[0], "mech": None, "detail": {"part": "decorator_async", "program": prog, "release_order": order, "problems": problems[:6],
                                                                                  "overlapping_calls": env.overlaps}})
    if len(forests) > 1:
        res["violations"].append({"msg": "the parsed forest of one decorator coroutine program differs between schedules (%d distinct forests)" % len(forests), "mech": None,
                                  "detail": {"part": "decorator_async", "program": prog}})
    c["decorator_async_programs"] = c.get("decorator_async_programs", 0) + 1
    if spec["i"] % 10 == 0:
        res["sample"] = {"part": "decorator_async", "program": prog}


def part_async(spec, res):
    rng = random.Random("%s:C05:a:%d" % (spec["seed"], spec["i"]))
    prog = conc.gen_async_program(rng, max_tasks=rng.choice([2, 4, 6, 8]))
    c = res["counters"]
    forests = set()
    orders = set()
    nruns = 24 if spec["tier"] == "quick" else 60
    for k in range(nruns):
        r = random.Random("%s:C05:a:%d:%d" % (spec["seed"], spec["i"], k))
        problems, it, tape, order = conc.run_async_program(prog, r)
        conc.judge_async_run(tape, it.forest, problems)
        res["evals"] += 1
        c["async_runs"] = c.get("async_runs", 0) + 1
        c["context_probes"] = c.get("context_probes", 0) + it.probes
        orders.add(tuple(order))
        res["sets"]["interleavings"].append(h(["a", spec["i"], order]))
        if it.max_active >= 2:
            res["nontrivial"].append(h(["a", spec["i"], order]))
        try:
            forests.add(canonical_forest(tape.msgs("rec"), True))
        except BaseException as e:
            problems.append("canonicalising the parsed forest raised %r" % (e,))
        if problems and len(res["violations"]) < 3:
            res["violations"].append({"msg": problems[0], "mech": None, "detail": {"part": "async", "program": prog, "release_order": order, "problems": problems[:6]}})
    if len(forests) > 1:
        res["violations"].append({"msg": "the parsed forest of one coroutine program differs between schedules (%d distinct forests)" % len(forests), "mech": None,
                                  "detail": {"part": "async", "program": prog}})
    c["async_programs"] = c.get("async_programs", 0) + 1
    c["distinct_release_orders"] = c.get("distinct_release_orders", 0) + len(orders)
    if spec["i"] % 20 == 0:
        res["sample"] = {"part": "async", "program": prog, "distinct_release_orders": len(orders)}


def run_case(spec):
    res = {"evals": 0, "nontrivial": [], "counters": {}, "violations": [], "sample": None, "sets": {"interleavings": [], "preemption_lines": []}}
    if spec["part"] == "threads":
        part_threads(spec, res)
    elif spec["part"] == "failures":
        part_failures(spec, res)
    elif spec["part"] == "decorator":
        part_decorator(spec, res)
    elif spec["part"] == "decorator_async":
        part_decorator_async(spec, res)
    else:
        part_async(spec, res)
    return res


def finalize(agg, tier):
    c = agg["counters"]
    if c.get("thread_schedules_run", 0) < 1000 or c.get("async_runs", 0) < 500:
        return "too few schedules"
    if c.get("dynamic_threads_registered", 0) == 0:
        return "spawned threads were never registered with the scheduler"
    if c.get("preemptions_inside_failure_reporting", 0) < 20:
        return "part 'failures': too few preemptions landed inside eliot's failure reporting"
    if not any(l.startswith("_action.py") for l in agg["sets"].get("preemption_lines", {})):
        return "no preemption landed inside eliot/_action.py"
    if ENABLE_DECORATOR:
        if c.get("decorator_thread_schedules", 0) < 200 or c.get("decorator_thread_overlaps", 0) < 50:
            return "part 'decorator': too few schedules in which two threads were inside the decorated function at the same time"
        if c.get("decorator_async_runs", 0) < 100 or c.get("decorator_async_overlaps", 0) < 20:
            return "part 'decorator' (tasks): too few runs in which two calls of the decorated function overlapped"
    return None
