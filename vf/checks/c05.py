"""C05 - no context leakage between threads / asyncio tasks (probes + schedule-independence of the parsed forest)."""

from vf import sched

sched.install()  # before eliot is imported

import itertools
import json
import random
import threading

import eliot
from eliot import _action, _output
from eliot.parse import Parser

from vf import conc, gen, oracles
from vf.runner import h

ID = "C05"
LEVEL = "exploration"
RULE = ("part 'threads': structured multi-thread programs (2-4 threads; own tasks, continue_task and preserve_context hand-offs, nested "
        "spawning, joined before the enclosing action ends) run under the line-granular scheduler with LINE events on eliot/_action.py "
        "and eliot/_output.py: baseline, ALL one-preemption schedules and sampled 2-3-preemption schedules per program. part 'async': "
        "coroutine programs (2-8 tasks via create_task / ensure_future / gather / TaskGroup, nested) on a real asyncio loop where every "
        "await parks on a gate and a seeded driver picks the release order, >=20 orders per program. Probes in every thread/task at "
        "every step: a new thread starts with no current action, a new task with the action current at its creation, and a thread's/"
        "task's current action never changes because of another's steps. The merged tape must parse to the ground-truth forest, and "
        "the canonical parsed forest (concurrent siblings sorted) must be identical across all schedules of one program. Thread programs log by log_message, Action.log and through the standard "
        "library bridge (eliot.stdlib.EliotHandler, created wherever the program first needs it). part 'failures': 2-3 threads whose actions fail at "
        "the same time, one with an exception whose registered extractor raises (so that its logging call is busy reporting that), the others with "
        "exceptions whose extractors work (errno of OSError, a registered one), as failed ends or write_traceback; LINE events also on _errors.py "
        "and _traceback.py; in every schedule each message carries exactly its own exception's extractor fields. non-trivial = "
        "schedule with a preemption inside eliot code / release order with >=2 live contexts; distinct by interleaving hash")
ASSUMPTIONS = ["programs join the work they spawn before the enclosing action ends", "switch points: statement boundaries (threads), awaits (tasks)"]
EXHAUSTIVE_NOTE = "threads: all one-preemption schedules (root thread first and last in priority) of each generated program"
CASE_TIMEOUT = 900


def plan(tier, seed):
    n = 12 if tier == "quick" else 100
    NCH = 6  # the one-preemption plans of one (program, priority order) are split over NCH specs so that they run in parallel
    specs = [{"part": "threads", "seed": seed, "i": i, "tier": tier, "order": o, "chunk": ch, "nchunks": NCH}
             for i in range(n) for o in range(2 if tier == "quick" else 3) for ch in range(NCH)]
    m = 64 if tier == "quick" else 800
    specs += [{"part": "async", "seed": seed, "i": i, "tier": tier} for i in range(m)]
    specs += [{"part": "failures", "seed": seed, "i": i, "tier": tier} for i in range(6 if tier == "quick" else 40)]
    return specs


def canon(n, sort_children):
    if n["kind"] == "action":
        ch = [canon(c, sort_children) for c in n["children"]]
        if sort_children:
            ch.sort(key=lambda c: json.dumps(c, sort_keys=True, default=str))
        return {"a": n["type"], "s": n["status"], "start": n["start"], "end": {k: v for k, v in (n["end"] or {}).items()}, "c": ch}
    return {"m": n["type"], "f": n["fields"]}


def canonical_forest(msgs, sort_children):
    trees = [canon(oracles.norm_written(t.root()), sort_children) for t in Parser.parse_stream(msgs)]
    trees.sort(key=lambda c: json.dumps(c, sort_keys=True, default=str))
    return h(trees)


def part_threads(spec, res):
    rng = random.Random("%s:C05:t:%d" % (spec["seed"], spec["i"]))
    sched.instrument([_action, _output])
    prog, nthreads = conc.gen_thread_program(rng, max_threads=rng.choice([2, 3, 4]))
    c = res["counters"]
    forests = set()

    def execute(plan_, label):
        box = {}

        def main():
            box["r"] = conc.run_thread_program(prog, thread_factory=threading.Thread)
        st, errs = sched.run_schedule(plan_, {"main": main}, timeout=120.0)
        res["evals"] += 1
        c["thread_schedules_run"] = c.get("thread_schedules_run", 0) + 1
        if st["deadlock"]:
            res["violations"].append({"msg": "threads deadlocked inside eliot: %s" % st["deadlock"], "mech": None, "detail": {"part": "threads", "plan": plan_, "program": prog}})
            return st
        if st["aborted"]:
            res["inconclusive"] = "schedule abandoned: %s" % st["aborted"]
            return st
        problems = ["main thread raised %r" % (e,) for e in errs.values()]
        if "r" in box:
            p, it, tape, forest = box["r"]
            problems += p
            conc.judge_thread_run(tape, forest, problems, placement=False)
            c["context_probes"] = c.get("context_probes", 0) + it.probes
            try:
                forests.add(canonical_forest(tape.msgs("rec"), False))
            except BaseException as e:
                problems.append("canonicalising the parsed forest raised %r" % (e,))
        c["dynamic_threads_registered"] = c.get("dynamic_threads_registered", 0) + st["dynamic_threads"]
        res["sets"]["interleavings"].append(sched.trace_hash(st))
        for nm, k, loc in st["fired"]:
            res["sets"]["preemption_lines"].append(loc)
        if st["fired"]:
            res["nontrivial"].append(sched.trace_hash(st))
        if problems and len(res["violations"]) < 3:
            res["violations"].append({"msg": problems[0], "mech": None, "detail": {"part": "threads", "plan": plan_, "program": prog, "problems": problems[:6], "label": label}})
        return st

    names = ["main"] + ["dyn%d" % (k + 1) for k in range(nthreads)]
    shuffled = list(names)
    rng.shuffle(shuffled)
    order = [names, names[1:] + names[:1], shuffled][spec["order"]]
    base = execute({"order": order, "changes": []}, "baseline")
    if base["aborted"]:
        return
    for j, p in enumerate(sched.one_preemption_plans(order, base["events"])):
        if j % spec["nchunks"] != spec["chunk"]:
            continue
        execute(p, "1-preemption")
        if len(res["violations"]) >= 3:
            return
    r2 = random.Random("%s:C05:t:%d:%d:%d" % (spec["seed"], spec["i"], spec["order"], spec["chunk"]))
    for p in sched.sampled_plans(r2, names, base["events"], 8 if spec["tier"] == "quick" else 60):
        execute(p, "sampled")
    if len(forests) > 1:
        res["violations"].append({"msg": "the parsed forest of one program differs between schedules (%d distinct forests)" % len(forests), "mech": None,
                                  "detail": {"part": "threads", "program": prog}})
    if spec["chunk"] == 0 and spec["order"] == 0:
        c["thread_programs"] = c.get("thread_programs", 0) + 1
    if spec["i"] % 8 == 0 and spec["chunk"] == 0 and spec["order"] == 0:
        res["sample"] = {"part": "threads", "program": prog, "threads_spawned": nthreads, "baseline_events": base["events"]}


class BrokenExtractorError(Exception):
    pass


class FineExtractorError(Exception):
    pass


def part_failures(spec, res):
    """Threads whose actions FAIL at the same time: one with an exception whose registered extractor raises (eliot reports that
    with a traceback message - a long window inside that thread's logging call), the others with exceptions whose extractors work
    (the built-in errno one for OSError, a registered one). What one thread's logging call is in the middle of must not show in the
    messages of another: in every schedule every failed end / traceback message carries exactly its own exception's extractor fields."""
    from eliot import _errors, _traceback, add_destinations, register_exception_extractor, remove_destination, start_action, write_traceback
    rng = random.Random("%s:C05:f:%d" % (spec["seed"], spec["i"]))
    sched.instrument([_action, _output, _errors, _traceback])

    def boom(e):
        raise RuntimeError("vf-c05 extractor failed")
    register_exception_extractor(BrokenExtractorError, boom)
    register_exception_extractor(FineExtractorError, lambda e: {"fine_code": e.args[0]})
    nthreads = rng.choice([2, 2, 3])
    kinds = ["broken"] + [rng.choice(["oserror", "fine", "oserror_tb", "fine_tb", "broken"]) for _ in range(nthreads - 1)]
    rng.shuffle(kinds)
    c = res["counters"]

    def worker(k, kind):
        def run():
            try:
                with start_action(action_type="f:act", who=k):
                    if kind == "broken":
                        raise BrokenExtractorError("thread %d" % k)
                    if kind == "oserror":
                        raise OSError(100 + k, "thread %d" % k)
                    if kind == "fine":
                        raise FineExtractorError(200 + k)
                    try:
                        raise (OSError(100 + k, "thread %d" % k) if kind == "oserror_tb" else FineExtractorError(200 + k))
                    except Exception:
                        write_traceback()
            except (BrokenExtractorError, OSError, FineExtractorError):
                pass
        return run

    def execute(plan_, label):
        got = []
        dest = got.append
        add_destinations(dest)
        try:
            st, errs = sched.run_schedule(plan_, dict(("w%d" % k, worker(k, kind)) for k, kind in enumerate(kinds)), timeout=120.0)
        finally:
            remove_destination(dest)
        res["evals"] += 1
        c["failure_schedules_run"] = c.get("failure_schedules_run", 0) + 1
        if st["deadlock"]:
            res["violations"].append({"msg": "threads deadlocked inside eliot: %s" % st["deadlock"], "mech": None, "detail": {"part": "failures", "plan": plan_}})
            return st
        if st["aborted"]:
            res["inconclusive"] = "schedule abandoned: %s" % st["aborted"]
            return st
        problems = ["a thread raised %r" % (e,) for e in errs.values()]
        by_uuid = {}
        reports = 0
        for m in got:
            if m.get("message_type") == "eliot:traceback" and "vf-c05 extractor failed" in str(m.get("reason")):
                # eliot's report about the raising extractor: logged in the context current when the action finished (here: none,
                # so it is a one-message task of its own)
                reports += 1
                continue
            by_uuid.setdefault(m["task_uuid"], []).append(dict(m))
        if reports != kinds.count("broken"):
            problems.append("%d actions failed with an exception whose extractor raises, %d reports about a raising extractor were logged" % (kinds.count("broken"), reports))
        if len(by_uuid) != len(kinds):
            problems.append("%d threads each ran one task, the log has %d tasks" % (len(kinds), len(by_uuid)))
        for msgs in by_uuid.values():
            who = [m.get("who") for m in msgs if m.get("action_status") == "started"]
            if len(who) != 1 or not isinstance(who[0], int) or who[0] >= len(kinds):
                problems.append("a task without exactly one start message: %r" % (who,))
                continue
            k, kind = who[0], kinds[who[0]]
            ends = [m for m in msgs if "action_status" in m and m["action_status"] != "started"]
            tbs = [m for m in msgs if m.get("message_type") == "eliot:traceback"]
            want_end, want_tb = {}, None
            if kind == "oserror":
                want_end = {"errno": 100 + k}
            elif kind == "fine":
                want_end = {"fine_code": 200 + k}
            elif kind == "oserror_tb":
                want_tb = {"errno": 100 + k}
            elif kind == "fine_tb":
                want_tb = {"fine_code": 200 + k}
            if len(ends) != 1:
                problems.append("thread %d (%s): %d end messages" % (k, kind, len(ends)))
                continue
            extra = {f: v for f, v in ends[0].items() if f in ("errno", "fine_code")}
            if extra != want_end:
                problems.append("thread %d's action failed with %s: its end message carries extractor fields %r, its own exception's extractor gives %r "
                                "(another thread was %s at the time)" % (k, kind, extra, want_end, "/".join(x for j, x in enumerate(kinds) if j != k)))
            if want_tb is not None:
                if len(tbs) != 1:
                    problems.append("thread %d (%s): %d traceback messages in its task" % (k, kind, len(tbs)))
                else:
                    extra = {f: v for f, v in tbs[0].items() if f in ("errno", "fine_code")}
                    if extra != want_tb:
                        problems.append("thread %d's traceback message for %s carries extractor fields %r, its own exception's extractor gives %r" % (
                            k, kind, extra, want_tb))
            elif tbs:
                problems.append("thread %d (%s): %d traceback messages in its task, it logged none" % (k, kind, len(tbs)))
        res["sets"]["interleavings"].append(sched.trace_hash(st))
        for nm, kk, loc in st["fired"]:
            res["sets"]["preemption_lines"].append(loc)
            if loc.startswith(("_errors.py", "_traceback.py")):
                c["preemptions_inside_failure_reporting"] = c.get("preemptions_inside_failure_reporting", 0) + 1
        if st["fired"]:
            res["nontrivial"].append(sched.trace_hash(st))
        if problems and len(res["violations"]) < 3:
            res["violations"].append({"msg": problems[0], "mech": None, "detail": {"part": "failures", "plan": plan_, "kinds": kinds, "problems": problems[:6], "label": label}})
        return st

    names = ["w%d" % k for k in range(len(kinds))]
    base = execute({"order": names, "changes": []}, "baseline")
    if base["aborted"] or base["deadlock"]:
        return
    for p in sched.one_preemption_plans(names, base["events"]):
        execute(p, "1-preemption")
        if len(res["violations"]) >= 3:
            return
    for p in sched.sampled_plans(rng, names, base["events"], 8 if spec["tier"] == "quick" else 40):
        execute(p, "sampled")


def part_async(spec, res):
    rng = random.Random("%s:C05:a:%d" % (spec["seed"], spec["i"]))
    prog = conc.gen_async_program(rng, max_tasks=rng.choice([2, 4, 6, 8]))
    c = res["counters"]
    forests = set()
    orders = set()
    nruns = 24 if spec["tier"] == "quick" else 60
    for k in range(nruns):
        r = random.Random("%s:C05:a:%d:%d" % (spec["seed"], spec["i"], k))
        problems, it, tape, order = conc.run_async_program(prog, r)
        conc.judge_async_run(tape, it.forest, problems)
        res["evals"] += 1
        c["async_runs"] = c.get("async_runs", 0) + 1
        c["context_probes"] = c.get("context_probes", 0) + it.probes
        orders.add(tuple(order))
        res["sets"]["interleavings"].append(h(["a", spec["i"], order]))
        if it.max_active >= 2:
            res["nontrivial"].append(h(["a", spec["i"], order]))
        try:
            forests.add(canonical_forest(tape.msgs("rec"), True))
        except BaseException as e:
            problems.append("canonicalising the parsed forest raised %r" % (e,))
        if problems and len(res["violations"]) < 3:
            res["violations"].append({"msg": problems[0], "mech": None, "detail": {"part": "async", "program": prog, "release_order": order, "problems": problems[:6]}})
    if len(forests) > 1:
        res["violations"].append({"msg": "the parsed forest of one coroutine program differs between schedules (%d distinct forests)" % len(forests), "mech": None,
                                  "detail": {"part": "async", "program": prog}})
    c["async_programs"] = c.get("async_programs", 0) + 1
    c["distinct_release_orders"] = c.get("distinct_release_orders", 0) + len(orders)
    if spec["i"] % 20 == 0:
        res["sample"] = {"part": "async", "program": prog, "distinct_release_orders": len(orders)}


def run_case(spec):
    res = {"evals": 0, "nontrivial": [], "counters": {}, "violations": [], "sample": None, "sets": {"interleavings": [], "preemption_lines": []}}
    if spec["part"] == "threads":
        part_threads(spec, res)
    elif spec["part"] == "failures":
        part_failures(spec, res)
    else:
        part_async(spec, res)
    return res


def finalize(agg, tier):
    c = agg["counters"]
    if c.get("thread_schedules_run", 0) < 1000 or c.get("async_runs", 0) < 500:
        return "too few schedules"
    if c.get("dynamic_threads_registered", 0) == 0:
        return "spawned threads were never registered with the scheduler"
    if c.get("preemptions_inside_failure_reporting", 0) < 20:
        return "part 'failures': too few preemptions landed inside eliot's failure reporting"
    if not any(l.startswith("_action.py") for l in agg["sets"].get("preemption_lines", {})):
        return "no preemption landed inside eliot/_action.py"
    return None
