"""C05 - no context leakage between threads / asyncio tasks (probes + schedule-independence of the parsed forest)."""

from vf import sched

sched.install()  # before eliot is imported

import itertools
import json
import random
import threading

import eliot
from eliot import _action, _output
from eliot.parse import Parser

from vf import conc, gen, oracles
from vf.runner import h

ID = "C05"
LEVEL = "exploration"
RULE = ("part 'threads': structured multi-thread programs (2-4 threads; own tasks, continue_task and preserve_context hand-offs, nested "
        "spawning, joined before the enclosing action ends) run under the line-granular scheduler with LINE events on eliot/_action.py "
        "and eliot/_output.py: baseline, ALL one-preemption schedules and sampled 2-3-preemption schedules per program. part 'async': "
        "coroutine programs (2-8 tasks via create_task / ensure_future / gather / TaskGroup, nested) on a real asyncio loop where every "
        "await parks on a gate and a seeded driver picks the release order, >=20 orders per program. Probes in every thread/task at "
        "every step: a new thread starts with no current action, a new task with the action current at its creation, and a thread's/"
        "task's current action never changes because of another's steps. The merged tape must parse to the ground-truth forest, and "
        "the canonical parsed forest (concurrent siblings sorted) must be identical across all schedules of one program. Thread programs log by log_message, Action.log and through the standard "
        "library bridge (eliot.stdlib.EliotHandler, created wherever the program first needs it). non-trivial = "
        "schedule with a preemption inside eliot code / release order with >=2 live contexts; distinct by interleaving hash")
ASSUMPTIONS = ["programs join the work they spawn before the enclosing action ends", "switch points: statement boundaries (threads), awaits (tasks)"]
EXHAUSTIVE_NOTE = "threads: all one-preemption schedules (root thread first and last in priority) of each generated program"
CASE_TIMEOUT = 900


def plan(tier, seed):
    n = 12 if tier == "quick" else 100
    NCH = 6  # the one-preemption plans of one (program, priority order) are split over NCH specs so that they run in parallel
    specs = [{"part": "threads", "seed": seed, "i": i, "tier": tier, "order": o, "chunk": ch, "nchunks": NCH}
             for i in range(n) for o in range(2 if tier == "quick" else 3) for ch in range(NCH)]
    m = 64 if tier == "quick" else 800
    specs += [{"part": "async", "seed": seed, "i": i, "tier": tier} for i in range(m)]
    return specs


def canon(n, sort_children):
    if n["kind"] == "action":
        ch = [canon(c, sort_children) for c in n["children"]]
        if sort_children:
            ch.sort(key=lambda c: json.dumps(c, sort_keys=True, default=str))
        return {"a": n["type"], "s": n["status"], "start": n["start"], "end": {k: v for k, v in (n["end"] or {}).items()}, "c": ch}
    return {"m": n["type"], "f": n["fields"]}


def canonical_forest(msgs, sort_children):
    trees = [canon(oracles.norm_written(t.root()), sort_children) for t in Parser.parse_stream(msgs)]
    trees.sort(key=lambda c: json.dumps(c, sort_keys=True, default=str))
    return h(trees)


def part_threads(spec, res):
    rng = random.Random("%s:C05:t:%d" % (spec["seed"], spec["i"]))
    sched.instrument([_action, _output])
    prog, nthreads = conc.gen_thread_program(rng, max_threads=rng.choice([2, 3, 4]))
    c = res["counters"]
    forests = set()

    def execute(plan_, label):
        box = {}

        def main():
            box["r"] = conc.run_thread_program(prog, thread_factory=threading.Thread)
        st, errs = sched.run_schedule(plan_, {"main": main}, timeout=120.0)
        res["evals"] += 1
        c["thread_schedules_run"] = c.get("thread_schedules_run", 0) + 1
        if st["deadlock"]:
            res["violations"].append({"msg": "threads deadlocked inside eliot: %s" % st["deadlock"], "mech": None, "detail": {"part": "threads", "plan": plan_, "program": prog}})
            return st
        if st["aborted"]:
            res["inconclusive"] = "schedule abandoned: %s" % st["aborted"]
            return st
        problems = ["main thread raised %r" % (e,) for e in errs.values()]
        if "r" in box:
            p, it, tape, forest = box["r"]
            problems += p
            conc.judge_thread_run(tape, forest, problems, placement=False)
            c["context_probes"] = c.get("context_probes", 0) + it.probes
            try:
                forests.add(canonical_forest(tape.msgs("rec"), False))
            except BaseException as e:
                problems.append("canonicalising the parsed forest raised %r" % (e,))
        c["dynamic_threads_registered"] = c.get("dynamic_threads_registered", 0) + st["dynamic_threads"]
        res["sets"]["interleavings"].append(sched.trace_hash(st))
        for nm, k, loc in st["fired"]:
            res["sets"]["preemption_lines"].append(loc)
        if st["fired"]:
            res["nontrivial"].append(sched.trace_hash(st))
        if problems and len(res["violations"]) < 3:
            res["violations"].append({"msg": problems[0], "mech": None, "detail": {"part": "threads", "plan": plan_, "program": prog, "problems": problems[:6], "label": label}})
        return st

    names = ["main"] + ["dyn%d" % (k + 1) for k in range(nthreads)]
    shuffled = list(names)
    rng.shuffle(shuffled)
    order = [names, names[1:] + names[:1], shuffled][spec["order"]]
    base = execute({"order": order, "changes": []}, "baseline")
    if base["aborted"]:
        return
    for j, p in enumerate(sched.one_preemption_plans(order, base["events"])):
        if j % spec["nchunks"] != spec["chunk"]:
            continue
        execute(p, "1-preemption")
        if len(res["violations"]) >= 3:
            return
    r2 = random.Random("%s:C05:t:%d:%d:%d" % (spec["seed"], spec["i"], spec["order"], spec["chunk"]))
    for p in sched.sampled_plans(r2, names, base["events"], 8 if spec["tier"] == "quick" else 60):
        execute(p, "sampled")
    if len(forests) > 1:
        res["violations"].append({"msg": "the parsed forest of one program differs between schedules (%d distinct forests)" % len(forests), "mech": None,
                                  "detail": {"part": "threads", "program": prog}})
    if spec["chunk"] == 0 and spec["order"] == 0:
        c["thread_programs"] = c.get("thread_programs", 0) + 1
    if spec["i"] % 8 == 0 and spec["chunk"] == 0 and spec["order"] == 0:
        res["sample"] = {"part": "threads", "program": prog, "threads_spawned": nthreads, "baseline_events": base["events"]}


def part_async(spec, res):
    rng = random.Random("%s:C05:a:%d" % (spec["seed"], spec["i"]))
    prog = conc.gen_async_program(rng, max_tasks=rng.choice([2, 4, 6, 8]))
    c = res["counters"]
    forests = set()
    orders = set()
    nruns = 24 if spec["tier"] == "quick" else 60
    for k in range(nruns):
        r = random.Random("%s:C05:a:%d:%d" % (spec["seed"], spec["i"], k))
        problems, it, tape, order = conc.run_async_program(prog, r)
        conc.judge_async_run(tape, it.forest, problems)
        res["evals"] += 1
        c["async_runs"] = c.get("async_runs", 0) + 1
        c["context_probes"] = c.get("context_probes", 0) + it.probes
        orders.add(tuple(order))
        res["sets"]["interleavings"].append(h(["a", spec["i"], order]))
        if it.max_active >= 2:
            res["nontrivial"].append(h(["a", spec["i"], order]))
        try:
            forests.add(canonical_forest(tape.msgs("rec"), True))
        except BaseException as e:
            problems.append("canonicalising the parsed forest raised %r" % (e,))
        if problems and len(res["violations"]) < 3:
            res["violations"].append({"msg": problems[0], "mech": None, "detail": {"part": "async", "program": prog, "release_order": order, "problems": problems[:6]}})
    if len(forests) > 1:
        res["violations"].append({"msg": "the parsed forest of one coroutine program differs between schedules (%d distinct forests)" % len(forests), "mech": None,
                                  "detail": {"part": "async", "program": prog}})
    c["async_programs"] = c.get("async_programs", 0) + 1
    c["distinct_release_orders"] = c.get("distinct_release_orders", 0) + len(orders)
    if spec["i"] % 20 == 0:
        res["sample"] = {"part": "async", "program": prog, "distinct_release_orders": len(orders)}


def run_case(spec):
    res = {"evals": 0, "nontrivial": [], "counters": {}, "violations": [], "sample": None, "sets": {"interleavings": [], "preemption_lines": []}}
    if spec["part"] == "threads":
        part_threads(spec, res)
    else:
        part_async(spec, res)
    return res


def finalize(agg, tier):
    c = agg["counters"]
    if c.get("thread_schedules_run", 0) < 1000 or c.get("async_runs", 0) < 500:
        return "too few schedules"
    if c.get("dynamic_threads_registered", 0) == 0:
        return "spawned threads were never registered with the scheduler"
    if not any(l.startswith("_action.py") for l in agg["sets"].get("preemption_lines", {})):
        return "no preemption landed inside eliot/_action.py"
    return None
