"""C06 - serialized task ids and preserve_context (placement of remote sub-trees across threads and real processes; at-most-once race)."""

from vf import sched

sched.install()  # before eliot is imported

import itertools
import json
import os
import random
import shutil
import subprocess
import sys
import tempfile
import threading

import eliot
from eliot import Action, FileDestination, add_destinations, current_action, log_message, preserve_context, remove_destination, start_action
from eliot import _action, _output
from eliot._action import TooManyCalls
from eliot.parse import Parser

from vf import excs, gen, oracles
from vf.interp import Interp
from vf.runner import REPO, h

ID = "C06"
LEVEL = "exploration"
RULE = ("part 'handoff': ProgGen programs whose remote nodes hand work (multi-hop, ids as bytes or text, continue_task or "
        "preserve_context) to the same thread, another thread, or a real forked child process that logs to its own file; all "
        "files' lines are merged in several orders (concatenated, remote-first, reversed, random shuffles) and parsed: exactly the "
        "ground-truth forest, every task complete, remote sub-trees at the reserved positions with the originator's task_uuid; ids "
        "returned within a run are pairwise distinct; placement (unique, contiguous, start at 1, end at n) holds on the merged "
        "messages. part 'chain': 2-4 hops deep chains of preserved callables / continued tasks (each hop synchronous or on a joined thread) run as the "
        "only registered thread of a schedule: no hop blocks on something an earlier hop still holds (deadlock = violation), merged tape == "
        "ground truth. part 'rewrap' (sequential scenario): an already preserved callable preserved again under another action (both get their remote_task child, positions stay "
        "1..n) and ids serialized after the action finished (unique, on fresh positions). part 'forkbuffering': the same while no destination exists yet and the other thread is inside a buffered logging call. part 'forkwrite': the worker is forked while another thread of the parent is parked inside its file destination's write(): the "
        "single-threaded child still continues the task into its own file (a child still stuck after 90 s as the only thread of its process "
        "counts as blocked for good). part 'subprocess': the id crosses to a fresh interpreter via argv. part 'race': one preserve_context callable "
        "invoked by 2-4 threads under the line-granular scheduler (LINE events on eliot/_action.py), ALL one-preemption schedules "
        "per priority order plus sampled deeper ones: f runs exactly once, that caller gets f's result / f's exception object, "
        "every other caller gets TooManyCalls, exactly one remote action is logged; with no current action preserve_context(f) is f; the callables handed over are functions, functools.partial objects, objects with "
        "__call__ and bound methods (the preserved callable being the only reference to them); in half of the race cases the function invokes the callable again itself, "
        "or keeps running until every other invocation has come back: those invocations raise TooManyCalls as well (blocking on the running one = deadlock = violation). "
        "non-trivial = hand-off program with >=2 hops or a child process; race schedule whose preemption fired in _action.py")
ASSUMPTIONS = ["each serialized id is continued exactly once", "merge orders are sampled (the parser's order-independence is C09's subject)"]
EXHAUSTIVE_NOTE = "race: all one-preemption schedules for every priority order of the invoking threads"
CASE_TIMEOUT = 240


def plan(tier, seed):
    n = 480 if tier == "quick" else 12000
    B = 12
    specs = [{"part": "handoff", "seed": seed, "lo": i, "hi": min(n, i + B)} for i in range(0, n, B)]
    m = 400 if tier == "quick" else 8000
    specs += [{"part": "chain", "seed": seed, "lo": i, "hi": min(m, i + 25)} for i in range(0, m, 25)]
    specs += [{"part": "rewrap", "seed": seed, "lo": i, "hi": i + 50} for i in range(0, 200 if tier == "quick" else 2000, 50)]
    specs += [{"part": "forkbuffering", "seed": seed, "i": i} for i in range(4 if tier == "quick" else 20)]
    specs += [{"part": "forkwrite", "seed": seed, "i": i} for i in range(8 if tier == "quick" else 60)]
    specs += [{"part": "subprocess", "seed": seed, "i": i} for i in range(6 if tier == "quick" else 60)]
    specs += [{"part": "race", "seed": seed, "i": i, "tier": tier} for i in range(16 if tier == "quick" else 200)]
    return specs


# --------------------------------------------------------------------------- hand-off programs


class ForkInterp(Interp):
    def __init__(self, logdir, *a, **kw):
        Interp.__init__(self, *a, **kw)
        self.logdir = logdir
        self.remote_fork = self.fork_remote
        self.forks = 0
        self.dests = []  # destinations registered in this process (a forked child must drop the ones it inherited)

    def fork_remote(self, _self, node, gt, tid):
        """Continue the task in a real child process with its own log file; get its ground-truth sub-tree back over a pipe."""
        r, w = os.pipe()
        self.forks += 1
        pid = os.fork()
        if pid == 0:
            code = 0
            try:
                os.close(r)
                path = os.path.join(self.logdir, "child-%d.log" % os.getpid())
                f = open(path, "ab")
                for d in self.dests:
                    remove_destination(d)
                own = FileDestination(file=f)
                add_destinations(own)
                sub = ForkInterp(self.logdir)
                sub.dests = [own]

                def in_child():
                    ok, action = sub.api("continue_task", Action.continue_task, task_id=tid, action_type=node["type"], **gt["start"])
                    if ok:
                        sub._run_remote_action(node, gt, action, None)
                # fork copies the parent's execution context; a separate process starts with an empty one
                import contextvars
                contextvars.Context().run(in_child)
                f.close()
                data = json.dumps({"gt": gt, "violations": [v["msg"] for v in sub.violations], "forest": sub.forest, "forks": sub.forks}).encode()
                off = 0
                while off < len(data):
                    off += os.write(w, data[off:off + 65536])
            except BaseException:
                import traceback
                traceback.print_exc()
                code = 3
            finally:
                os._exit(code)
        os.close(w)
        chunks = []
        while True:
            b = os.read(r, 1 << 20)
            if not b:
                break
            chunks.append(b)
        os.close(r)
        _, status = os.waitpid(pid, 0)
        if status != 0 or not chunks:
            self.viol("child process failed (status %d)" % status)
            return
        data = json.loads(b"".join(chunks).decode())
        gt.update(data["gt"])
        self.forest.extend(data["forest"])  # tasks started inside the child
        self.forks += data["forks"]
        for v in data["violations"]:
            self.viol("in child process: " + v)


def max_hops(prog):
    best = [0]

    def walk(nodes, hops):
        for n in nodes:
            if n["k"] == "remote":
                best[0] = max(best[0], hops + 1)
                walk(n["children"], hops + 1)
            elif n["k"] == "act":
                walk(n["children"], hops)
    walk(prog, 0)
    return best[0]


def one_handoff(seed, i, res):
    rng = random.Random("%s:C06:h:%d" % (seed, i))
    g = gen.ProgGen(rng, max_depth=rng.choice([3, 4, 5, 7]), max_nodes=rng.choice([12, 25, 40]), value_depth=1, allow_tb=False,
                    remote_vias=("same", "thread", "fork", "fork"), act_styles=["with", "ctx_finish", "run_finish", "ActionType", "start_task", "as_task"], fail_p=0.2)
    # make remote nodes frequent
    prog = g.program()
    tries = 0
    while max_hops(prog) == 0 and tries < 20:
        g = gen.ProgGen(rng, max_depth=4, max_nodes=25, value_depth=1, allow_tb=False, remote_vias=("same", "thread", "fork", "fork"),
                        act_styles=["with", "ctx_finish", "run_finish", "ActionType", "start_task", "as_task"], fail_p=0.2)
        prog = g.program()
        tries += 1
    if rng.random() < 0.3:
        # multi-digit positions: pad some actions with many messages ahead of their other children
        def pad(nodes):
            for n in nodes:
                if n["k"] in ("act", "remote"):
                    if rng.random() < 0.4:
                        n["children"] = [g.msg() for _ in range(rng.randint(9, 12))] + n["children"]
                    pad(n["children"])
        pad(prog)
    logdir = tempfile.mkdtemp(prefix="vf-c06-")
    try:
        f = open(os.path.join(logdir, "parent.log"), "ab")
        dest = FileDestination(file=f)
        add_destinations(dest)
        from vf.tape import Tape
        tape = Tape()
        it = ForkInterp(logdir, tape=tape)
        it.dests = [dest]
        try:
            forest = it.run(prog)
        finally:
            remove_destination(dest)
            f.close()
        files = {}
        for name in sorted(os.listdir(logdir)):
            with open(os.path.join(logdir, name), "rb") as rf:
                files[name] = [json.loads(l) for l in rf.read().split(b"\n") if l]
    finally:
        shutil.rmtree(logdir, ignore_errors=True)
    problems = [v["msg"] for v in it.violations]
    tids = [e["tid"] for e in tape.events("reserved") if e.get("tid")]
    if len(tids) != len(set(tids)):
        problems.append("serialize_task_id returned the same id twice: %s" % [t for t in tids if tids.count(t) > 1][:2])
    parent = files.pop("parent.log", [])
    children = [m for name in files for m in files[name]]
    merges = {"concatenated": parent + children, "remote-first": children + parent, "reversed": (parent + children)[::-1]}
    for k in range(3):
        sh = parent + children
        rng.shuffle(sh)
        merges["shuffle%d" % k] = sh
    for name, msgs in merges.items():
        try:
            tasks = list(Parser.parse_stream(msgs))
        except BaseException as e:
            problems.append("%s merge: parser raised %r" % (name, e))
            continue
        diff = oracles.compare_forest(forest, tasks)
        if diff:
            problems.append("%s merge: %s" % (name, diff[0]))
            break
    allm = sorted(parent + children, key=lambda m: (m.get("task_uuid", ""), m.get("task_level", [])))
    problems += oracles.check_placement([("msg", m) for m in allm], structured=False)
    res["evals"] += 1
    c = res["counters"]
    c["handoff_programs"] = c.get("handoff_programs", 0) + 1
    c["child_processes"] = c.get("child_processes", 0) + it.forks
    c["ids_serialized"] = c.get("ids_serialized", 0) + len(tids)
    c["merge_orders_parsed"] = c.get("merge_orders_parsed", 0) + len(merges)
    for k, v in it.counters.items():
        if k.startswith("remote:"):
            d = c.setdefault("handoffs", {})
            d[k] = d.get(k, 0) + v
    hops = max_hops(prog)
    if hops >= 2 or it.forks:
        res["nontrivial"].append(h(gen.prog_shape(prog)))
    if res.get("sample") is None and it.forks and gen.prog_stats(prog)["nodes"] <= 10:
        res["sample"] = {"part": "handoff", "program": prog, "files": {k: len(v) for k, v in files.items()}, "parent_lines": len(parent)}
    if problems:
        res["violations"].append({"msg": problems[0], "mech": None, "detail": {"part": "handoff", "case": i, "problems": problems[:6], "program": prog}})


CHILD_SRC = r'''
import sys
sys.path.insert(0, sys.argv[1])
from eliot import Action, to_file, log_message, start_action
tid = sys.argv[3]
if sys.argv[4] == "bytes":
    tid = tid.encode("ascii")
f = open(sys.argv[2], "ab")
to_file(f)
with Action.continue_task(task_id=tid, action_type="sub:proc", nid=9001):
    log_message(message_type="sub:m", nid=9002)
    try:
        with start_action(action_type="sub:inner", nid=9003):
            raise ValueError("in child")
    except ValueError:
        pass
f.close()
'''


def one_subprocess(spec, res):
    rng = random.Random("%s:C06:s:%d" % (spec["seed"], spec["i"]))
    logdir = tempfile.mkdtemp(prefix="vf-c06s-")
    problems = []
    try:
        f = open(os.path.join(logdir, "parent.log"), "ab")
        dest = FileDestination(file=f)
        add_destinations(dest)
        form = rng.choice(["bytes", "str"])
        try:
            with start_action(action_type="top", nid=1) as a:
                log_message(message_type="m", nid=2)
                with start_action(action_type="mid", nid=3) as b:
                    tid = b.serialize_task_id()
                    log_message(message_type="m", nid=4)
                    p = subprocess.run([sys.executable, "-c", CHILD_SRC, REPO, os.path.join(logdir, "child.log"), tid.decode("ascii"), form],
                                       capture_output=True, timeout=120, env=dict(os.environ, PYTHONWARNINGS="ignore"))
                    if p.returncode != 0:
                        problems.append("child interpreter failed: %s" % p.stderr.decode()[-300:])
                    log_message(message_type="m", nid=5)
        finally:
            remove_destination(dest)
            f.close()
        msgs = []
        for name in ("child.log", "parent.log"):
            pth = os.path.join(logdir, name)
            if os.path.exists(pth):
                with open(pth, "rb") as rf:
                    msgs += [json.loads(l) for l in rf.read().split(b"\n") if l]
    finally:
        shutil.rmtree(logdir, ignore_errors=True)
    rng.shuffle(msgs)
    tasks = list(Parser.parse_stream(msgs))
    if len(tasks) != 1 or not tasks[0].is_complete():
        problems.append("merged logs of parent and child interpreter parse to %d tasks (complete: %s)" % (len(tasks), [t.is_complete() for t in tasks]))
    else:
        root = oracles.norm_written(tasks[0].root())
        mid = [c for c in root["children"] if c["kind"] == "action"]
        shape = [(c["kind"], c["type"]) for c in (mid[0]["children"] if mid else [])]
        want = [("action", "sub:proc"), ("message", "m"), ("message", "m")]
        if not mid or shape != want:
            problems.append("remote sub-tree not at the reserved position: children of 'mid' are %s, expected %s" % (shape, want))
        else:
            sub = mid[0]["children"][0]
            if [(c["kind"], c["type"], c.get("status")) for c in sub["children"]] != [("message", "sub:m", None), ("action", "sub:inner", "failed")]:
                problems.append("child interpreter's sub-tree has the wrong shape: %s" % [(c["kind"], c["type"]) for c in sub["children"]])
    res["evals"] += 1
    res["counters"]["subprocess_handoffs"] = res["counters"].get("subprocess_handoffs", 0) + 1
    res["nontrivial"].append(h(["subprocess", spec["i"], form]))
    if problems:
        res["violations"].append({"msg": problems[0], "mech": None, "detail": {"part": "subprocess", "problems": problems}})


# --------------------------------------------------------------------------- preserve_context race


def race_once(plan_, ncallers, outcome, tape_msgs, body="plain"):
    calls = {"f": 0}
    inner = {}
    exc_obj = excs.UserError("f fails")
    result_obj = ("result", object())
    from vf.tape import Recorder, Tape
    tape = Tape()
    rec = Recorder(tape, "rec", deep=False)
    add_destinations(rec)
    results = {}
    try:
        with start_action(action_type="race:outer", nid=1) as outer:
            def f(x):
                calls["f"] += 1
                log_message(message_type="race:in_f", nid=2)
                if body == "reentrant":
                    # the function itself invokes the callable again (a retry helper, a recursive job): another call like any other
                    try:
                        inner["r"] = ("ret", g(x))
                    except TooManyCalls as e:
                        inner["r"] = ("toomany", e)
                elif body == "overlap":
                    # a long-running function: it is still running while every other invocation arrives - and is rejected
                    sched.wait_until(lambda: len(results) >= ncallers - 1)
                if outcome == "raise":
                    raise exc_obj
                return result_obj
            g = preserve_context(f)

            def caller(k):
                def run():
                    try:
                        r = ("ret", g(k))
                    except TooManyCalls as e:
                        r = ("toomany", e)
                    except BaseException as e:
                        r = ("raise", e)
                    results[k] = r
                    sched.notify()
                return run
            st, errs = sched.run_schedule(plan_, {"C%d" % k: caller(k) for k in range(ncallers)}, timeout=60.0)
    finally:
        remove_destination(rec)
    problems = ["caller %s raised %r outside the call" % (n, e) for n, e in errs.items()]
    if st["deadlock"]:
        if body == "overlap":
            problems.append("invocations made while the first invocation of the preserved callable was still running were not rejected with TooManyCalls "
                            "but blocked until it would finish: %s" % st["deadlock"])
        elif body == "reentrant":
            problems.append("an invocation of the preserved callable made by the function itself did not raise TooManyCalls but blocked for ever: %s" % st["deadlock"])
        else:
            problems.append("invocations of the preserved callable deadlocked: %s" % st["deadlock"])
        return st, problems, False
    if st["aborted"]:
        return st, problems, True
    if g is f:
        problems.append("preserve_context returned f itself although an action is current")
    if calls["f"] != 1:
        problems.append("f ran %d times for %d concurrent invocations of one preserved callable" % (calls["f"], ncallers))
    winners = [k for k, r in results.items() if r[0] != "toomany"]
    if len(winners) != 1:
        problems.append("%d invocations did not raise TooManyCalls (expected exactly one)" % len(winners))
    for k in winners:
        kind, val = results[k]
        if outcome == "raise" and not (kind == "raise" and val is exc_obj):
            problems.append("the running invocation got %r, f raised %r" % (val, exc_obj))
        if outcome == "return" and not (kind == "ret" and val is result_obj):
            problems.append("the running invocation got %r, not f's result object" % (val,))
    if len(results) != ncallers:
        problems.append("%d of %d callers finished" % (len(results), ncallers))
    if body == "reentrant" and inner.get("r", ("", None))[0] != "toomany":
        problems.append("the invocation made by the function itself gave %r, expected TooManyCalls" % (inner.get("r"),))
    msgs = tape.msgs("rec")
    remote_starts = [m for m in msgs if m.get("action_type") == "eliot:remote_task" and m.get("action_status") == "started"]
    if len(remote_starts) != 1:
        problems.append("%d eliot:remote_task actions were started" % len(remote_starts))
    try:
        tasks = list(Parser.parse_stream(msgs))
        if len(tasks) != 1 or not tasks[0].is_complete():
            problems.append("race log parses to %d tasks (complete: %s)" % (len(tasks), [t.is_complete() for t in tasks]))
    except BaseException as e:
        problems.append("parser raised %r" % (e,))
    problems += oracles.check_placement([("msg", m) for m in msgs], structured=False)
    return st, problems, False


def part_race(spec, res):
    rng = random.Random("%s:C06:r:%d" % (spec["seed"], spec["i"]))
    sched.instrument([_action], post_call=True)  # also between a call and the use of its result inside one line
    ncallers = rng.choice([2, 2, 3, 4])
    outcome = rng.choice(["return", "raise"])
    names = ["C%d" % k for k in range(ncallers)]
    c = res["counters"]
    # no current action: the function itself
    def plain(x):
        return x
    if preserve_context(plain) is not plain:
        res["violations"].append({"msg": "preserve_context(f) is not f although no action is current", "mech": None, "detail": {}})

    body = ["plain", "reentrant", "overlap", "plain"][spec["i"] % 4]
    c["race_bodies_" + body] = c.get("race_bodies_" + body, 0) + 1

    def execute(plan_, label):
        st, problems, aborted = race_once(plan_, ncallers, outcome, None, body)
        res["evals"] += 1
        c["race_schedules_run"] = c.get("race_schedules_run", 0) + 1
        if aborted:
            res["inconclusive"] = "schedule abandoned: %s" % st["aborted"]
            return st
        res["sets"]["interleavings"].append(sched.trace_hash(st))
        for nm, k, loc in st["fired"]:
            res["sets"]["preemption_lines"].append(loc)
        if st["fired"]:
            res["nontrivial"].append(sched.trace_hash(st))
        if problems and len(res["violations"]) < 3:
            res["violations"].append({"msg": problems[0], "mech": None, "detail": {"part": "race", "plan": plan_, "callers": ncallers, "outcome": outcome, "body": body,
                                                                                   "problems": problems[:6], "label": label}})
        return st

    orders = list(itertools.permutations(names)) if ncallers <= 3 else [tuple(rng.sample(names, ncallers)) for _ in range(6)]
    base = None
    for order in orders:
        base = execute({"order": list(order), "changes": []}, "baseline")
        for p in sched.one_preemption_plans(list(order), base["events"]):
            execute(p, "1-preemption")
            if len(res["violations"]) >= 3:
                return
    for p in sched.sampled_plans(rng, names, base["events"], 60 if spec["tier"] == "quick" else 600):
        execute(p, "sampled")
    if spec["i"] % 8 == 0:
        res["sample"] = {"part": "race", "callers": ncallers, "outcome": outcome, "baseline_events": base["events"]}


def one_forkbuffering(seed, i, res):
    """Before any destination exists eliot buffers messages (under a lock of its own). The process forks its worker while another
    thread is in the middle of such a logging call; the single-threaded child must still be able to log - into a destination it
    adds itself."""
    import signal
    import sys as _sys
    if _output.Logger._destinations._any_added:
        res["inconclusive"] = "destinations had already been added in this process"
        return
    logdir = tempfile.mkdtemp(prefix="vf-c06fb-")
    gate, inside = threading.Event(), threading.Event()
    problems = []
    try:
        def background():
            def tracer(frame, event, arg):
                # parks the thread at the entry of the library's delivery function, i.e. in the middle of its logging call
                if event == "call" and frame.f_code.co_name == "_send" and frame.f_code.co_filename.endswith("_output.py"):
                    inside.set()
                    gate.wait(120)
                    return None
                return tracer
            _sys.settrace(tracer)
            try:
                log_message(message_type="fb:background", nid=1)
            finally:
                _sys.settrace(None)
        t = threading.Thread(target=background, name="early-logger")
        t.start()
        if not inside.wait(60):
            res["inconclusive"] = "the background thread never reached the output stage"
        pid = os.fork()
        if pid == 0:
            code = 0
            try:
                signal.signal(signal.SIGALRM, lambda *_: os._exit(17))
                signal.alarm(90)
                log_message(message_type="fb:child-early", nid=10)
                f = open(os.path.join(logdir, "child.log"), "ab")
                add_destinations(FileDestination(file=f))
                with start_action(action_type="fb:child", nid=11):
                    log_message(message_type="fb:in-child", nid=12)
                f.close()
            except BaseException:
                code = 3
            finally:
                os._exit(code)
        _, status = os.waitpid(pid, 0)
        gate.set()
        t.join()
        if os.WIFEXITED(status) and os.WEXITSTATUS(status) == 17:
            problems.append("a worker forked while another thread of the parent was inside a (buffered) logging call never got past its own first logging call (blocked for 90 s as the only thread of its process)")
        elif not os.WIFEXITED(status) or os.WEXITSTATUS(status) != 0:
            problems.append("the forked worker ended with wait status %r" % (status,))
        else:
            with open(os.path.join(logdir, "child.log"), "rb") as rf:
                nids = [json.loads(l).get("nid") for l in rf.read().split(b"\n") if l]
            if sorted(x for x in nids if x is not None and x >= 10) != [10, 11, 12]:
                problems.append("the forked worker's own log holds nids %s, expected its three messages 10, 11, 12" % (nids,))
    finally:
        gate.set()
        shutil.rmtree(logdir, ignore_errors=True)
    res["evals"] += 1
    c = res["counters"]
    c["forks_while_a_thread_is_buffering"] = c.get("forks_while_a_thread_is_buffering", 0) + 1
    res["nontrivial"].append(h(["forkbuffering", i]))
    if problems:
        res["violations"].append({"msg": problems[0], "mech": None, "detail": {"part": "forkbuffering", "problems": problems[:4]}})


def one_rewrap(seed, i, res):
    """(a) A callable that was already made with preserve_context is handed to preserve_context again under ANOTHER action (a
    generic submit-to-pool helper that always preserves): both actions get their eliot:remote_task child. (b) Ids serialized
    after the action has finished are still unique and take fresh positions."""
    from vf.tape import Recorder, Tape
    rng = random.Random("%s:C06:rw:%d" % (seed, i))
    tape = Tape()
    rec = Recorder(tape, "rec")
    add_destinations(rec)
    problems = []
    try:
        ran = []

        def job():
            ran.append(current_action())
            log_message(message_type="rw:job")
            return "result"
        with start_action(action_type="rw:P") as p_act:
            g = preserve_context(job)
            log_message(message_type="rw:p-after")
        with start_action(action_type="rw:Q") as q_act:
            g2 = preserve_context(g)
            log_message(message_type="rw:q-after")
            if rng.random() < 0.5:
                out = g2()
            else:
                box = []
                t = threading.Thread(target=lambda: box.append(g2()))
                t.start()
                t.join()
                out = box[0] if box else None
        if out != "result" or len(ran) != 1:
            problems.append("the doubly preserved callable returned %r after %d runs" % (out, len(ran)))
        # ids taken from a finished action
        ids = [p_act.serialize_task_id() for _ in range(3)] + [q_act.serialize_task_id()]
        if len(set(ids)) != len(ids):
            problems.append("serialize_task_id on a finished action returned the same id twice: %r" % (ids,))
    except BaseException as e:
        problems.append("scenario raised %r" % (e,))
    finally:
        remove_destination(rec)
    msgs = tape.msgs("rec")
    for name, act in (("P", p_act), ("Q", q_act)):
        mine = [m for m in msgs if m["task_uuid"] == act.task_uuid]
        remote_starts = [m for m in mine if m.get("action_type") == "eliot:remote_task" and m.get("action_status") == "started"]
        if len(remote_starts) != 1:
            problems.append("action %s, under which preserve_context was called once, has %d eliot:remote_task children" % (name, len(remote_starts)))
        levels = sorted(tuple(m["task_level"]) for m in mine if len(m["task_level"]) == 1)
        taken = set(l[0] for l in levels) | set(m["task_level"][0] for m in mine if len(m["task_level"]) > 1)
        end = max(l[0] for l in levels) if levels else 0
        if taken != set(range(1, end + 1)):
            problems.append("action %s: positions %s are not 1..%d (a position reserved by preserve_context was never used, or never reserved)" % (name, sorted(taken), end))
    if not problems:
        used = set()
        for m in msgs:
            used.add((m["task_uuid"], m["task_level"][0]))
        for tid in ids:
            u, lvl = tid.decode("ascii").split("@")
            pos = int(lvl.strip("/").split("/")[0])
            if (u, pos) in used:
                problems.append("an id serialized after the action finished names position %d, which one of its own messages already has" % pos)
                break
    res["evals"] += 1
    c = res["counters"]
    c["rewrap_scenarios"] = c.get("rewrap_scenarios", 0) + 1
    res["nontrivial"].append(h(["rewrap", i % 4]))
    if problems:
        res["violations"].append({"msg": problems[0], "mech": None, "detail": {"part": "rewrap", "problems": problems[:5]}})


def one_forkwrite(seed, i, res):
    """The originating process forks its worker while another of its threads is in the middle of writing a log line (slow disk or
    pipe). The child - a single-threaded copy - must still be able to continue the task and log into its own file."""
    import signal
    rng = random.Random("%s:C06:fw:%d" % (seed, i))
    logdir = tempfile.mkdtemp(prefix="vf-c06fw-")
    problems = []
    try:
        real = open(os.path.join(logdir, "parent.log"), "ab")
        gate, inside = threading.Event(), threading.Event()

        class SlowFile(object):
            def write(self, data):
                if data and threading.current_thread().name == "slow-writer":
                    inside.set()
                    gate.wait(120)
                return real.write(data)

            def flush(self):
                real.flush()
        dest = FileDestination(file=SlowFile())
        add_destinations(dest)
        status = None
        try:
            with start_action(action_type="fw:origin", nid=1) as a:
                log_message(message_type="fw:m", nid=2)
                t = threading.Thread(target=lambda: log_message(message_type="fw:background", nid=3), name="slow-writer")
                t.start()
                if not inside.wait(60):
                    res["inconclusive"] = "the background writer never reached the file"
                tid = a.serialize_task_id()
                pid = os.fork()
                if pid == 0:
                    code = 0
                    try:
                        signal.signal(signal.SIGALRM, lambda *_: os._exit(17))
                        signal.alarm(90)  # this process has one thread: if it is still here after 90 s it waits for something nobody can release
                        remove_destination(dest)
                        f = open(os.path.join(logdir, "child.log"), "ab")
                        add_destinations(FileDestination(file=f))
                        with Action.continue_task(task_id=tid, action_type="fw:remote", nid=10):
                            log_message(message_type="fw:in-child", nid=11)
                        f.close()
                    except BaseException:
                        code = 3
                    finally:
                        os._exit(code)
                # let the background writer finish only after the child is done (or stuck)
                _, status = os.waitpid(pid, 0)
                gate.set()
                t.join()
                log_message(message_type="fw:m", nid=4)
        finally:
            gate.set()
            remove_destination(dest)
            real.close()
        if status is not None and os.WIFEXITED(status) and os.WEXITSTATUS(status) == 17:
            problems.append("a worker forked while another thread of the parent was writing a log line never got past its own first logging call (blocked for 90 s as the only thread of its process)")
        elif status is None or not os.WIFEXITED(status) or os.WEXITSTATUS(status) != 0:
            problems.append("the forked worker ended with wait status %r" % (status,))
        msgs = []
        for name in sorted(os.listdir(logdir)):
            with open(os.path.join(logdir, name), "rb") as rf:
                msgs += [json.loads(l) for l in rf.read().split(b"\n") if l]
        if not problems:
            tasks = list(Parser.parse_stream(msgs))
            nids = sorted(m.get("nid") for m in msgs if m.get("nid") is not None)
            if nids != [1, 2, 3, 4, 10, 11] or len(tasks) != 2 or not all(t.is_complete() for t in tasks):
                problems.append("merged logs of parent and forked worker: nids %s, %d tasks, complete=%s" % (nids, len(tasks), [t.is_complete() for t in tasks]))
    finally:
        shutil.rmtree(logdir, ignore_errors=True)
    res["evals"] += 1
    c = res["counters"]
    c["forks_while_a_thread_is_writing"] = c.get("forks_while_a_thread_is_writing", 0) + 1
    res["nontrivial"].append(h(["forkwrite", i]))
    if problems:
        res["violations"].append({"msg": problems[0], "mech": None, "detail": {"part": "forkwrite", "problems": problems[:4]}})


def one_chain(seed, i, res):
    """Multi-hop hand-offs: a preserved callable / continued task whose body hands work to a further one (synchronously or on a
    thread it joins), 2-4 hops deep, run as the only registered thread of a schedule so that blocking on a lock somebody in the
    chain still holds is a verdict ("no thread can make progress") instead of a hang."""
    from vf.tape import Recorder, Tape
    rng = random.Random("%s:C06:chain:%d" % (seed, i))
    g = gen.ProgGen(rng, max_depth=2, max_nodes=10**6, value_depth=0, allow_tb=False, remote_vias=("same", "thread"), fail_p=0.15)
    hops = rng.randint(2, 4)
    node = None
    for k in range(hops):
        r = g.remote(99)
        r["api"] = "preserve_context" if rng.random() < 0.7 else "continue_task"
        if r["api"] == "preserve_context":
            r["type"], r["start"] = "eliot:remote_task", {}
        r.pop("defer", None)
        r["children"] = [g.msg()] + ([node] if node is not None else []) + ([g.msg()] if rng.random() < 0.5 else [])
        node = r
    root = g.act(99, force_style="with")
    root["outcome"] = "ok"
    root.pop("exc", None)
    root["children"] = [g.msg(), node, g.msg()]
    prog = [root]
    tape = Tape()
    rec = Recorder(tape, "rec")
    add_destinations(rec)
    it = Interp(tape=tape)
    box = {}

    def body():
        box["forest"] = it.run(prog)
    try:
        st, errs = sched.run_schedule({"order": ["main"], "changes": []}, {"main": body}, timeout=120.0)
    finally:
        remove_destination(rec)
    problems = ["running the chain raised %r" % (e,) for e in errs.values()]
    if st["deadlock"]:
        problems.append("a %d-hop chain of hand-offs deadlocked: %s" % (hops, st["deadlock"]))
    elif st["aborted"]:
        res["inconclusive"] = "chain schedule abandoned: %s" % st["aborted"]
    else:
        problems += [v["msg"] for v in it.violations]
        try:
            tasks = list(Parser.parse_stream(tape.msgs("rec")))
            problems += oracles.compare_forest(box.get("forest", []), tasks)[:3]
        except BaseException as e:
            problems.append("parser raised %r" % (e,))
    res["evals"] += 1
    c = res["counters"]
    c["multi_hop_chains"] = c.get("multi_hop_chains", 0) + 1
    res["nontrivial"].append(h(["chain", gen.prog_shape(prog)]))
    if problems:
        res["violations"].append({"msg": problems[0], "mech": None, "detail": {"part": "chain", "case": i, "hops": hops, "problems": problems[:5], "program": prog}})


def run_case(spec):
    res = {"evals": 0, "nontrivial": [], "counters": {}, "violations": [], "sample": None, "sets": {"interleavings": [], "preemption_lines": []}}
    if spec["part"] == "forkbuffering":
        one_forkbuffering(spec["seed"], spec["i"], res)
    elif spec["part"] == "rewrap":
        for i in range(spec["lo"], spec["hi"]):
            one_rewrap(spec["seed"], i, res)
    elif spec["part"] == "forkwrite":
        one_forkwrite(spec["seed"], spec["i"], res)
    elif spec["part"] == "chain":
        for i in range(spec["lo"], spec["hi"]):
            one_chain(spec["seed"], i, res)
    elif spec["part"] == "handoff":
        for i in range(spec["lo"], spec["hi"]):
            one_handoff(spec["seed"], i, res)
    elif spec["part"] == "subprocess":
        one_subprocess(spec, res)
    else:
        part_race(spec, res)
    return res


def finalize(agg, tier):
    c = agg["counters"]
    if c.get("child_processes", 0) < 50 or c.get("race_schedules_run", 0) < 500 or c.get("subprocess_handoffs", 0) < 3:
        return "too few child processes / race schedules / subprocess hand-offs"
    if not any(l.startswith("_action.py") for l in agg["sets"].get("preemption_lines", {})):
        return "no preemption landed inside eliot/_action.py"
    if c.get("race_bodies_reentrant", 0) < 1 or c.get("race_bodies_overlap", 0) < 1:
        return "no race case with a re-entrant / overlapping invocation"
    return None
