"""C07 - logging never raises into, or alters, the application (API-boundary monitor under injected faults)."""

import os
import random
import tempfile

from eliot import FileDestination, add_destinations, register_exception_extractor, remove_destination

from vf import excs, faults, gen, shutdown
from vf.interp import Interp
from vf.runner import REPO, h
from vf.tape import MaskedDestination, Recorder, Tape

ID = "C07"
LEVEL = "fault_enumeration"
RULE = ("each forked case runs a ProgGen program through the production Logger with a FileDestination on a real file, a recording "
        "destination and 0-3 masked faulty destinations; ~1/3 of all field values (and log_call results) come from the hostile domain "
        "(str/repr raising, non-string dict keys, >64-bit integers, NaN, bytes, lone surrogates, plain objects, nesting beyond the "
        "encoder's limit, self-referential containers, Enum members, namedtuples, dataclasses, str/int subclasses, objects whose __iter__/__len__/__bool__/"
        "__getattr__ raise, numpy look-alikes, generators - which must still be unconsumed afterwards -, Decimal, Fraction, exception instances and "
        "groups); part of the traceback calls are made with no exception in flight; typed-field serializers raise on masked calls; extractors (some raising, some "
        "registered on Exception/BaseException, i.e. on bases of their own exception) are registered on random classes of the pool's "
        "MROs. Monitor: every public API call returns normally, the exception leaving every block is the object the body raised, "
        "log_call / preserved callables return the function's own result object. non-trivial = >=1 injected fault actually fired; "
        "distinct by (fault kind x message kind hit) signature of the run plus program shape. Part of the messages go through the standard "
        "library bridge (EliotHandler): plain records, object messages, text with per cent signs and no arguments, arguments that do not fit "
        "the format string. Part 'shutdown': fresh interpreters whose leftover objects (module global, reference cycle, function "
        "attribute) log messages, actions and tasks with rich field values from __del__ while the interpreter is being torn down (destinations: stdout as text/binary, to_file, a "
        "function of the main module writing to a raw descriptor); every such call must return, and every such object must have been finalized. Part 'outermost': log_message / start_task as the outermost Python frame of a raw "
        "thread, default logger a MemoryLogger, values that fail validation: no exception reaches the thread's top")
ASSUMPTIONS = ["destinations, serializers and extractors raise Exception subclasses; what a buggy extractor returns instead of a dict (None, a list, a number) must not make logging raise, what is logged for it is not judged",
               "a MemoryLogger appears as explicit logger argument of part of the calls (it must not raise either); what it records is judged by C14/C16"]

REG_CLASSES = ["BaseException", "Exception", "OSError", "LookupError", "ValueError", "KeyError", "UserError", "DeepUserError",
               "UserBase", "RuntimeError", "BadStr", "ExtractorBoom"]


class ExtractorBoom(Exception):
    pass


class ExtractorBoomBadStr(ExtractorBoom):
    def __str__(self):
        raise RuntimeError("no text")


CLASSMAP = dict(excs.POOL, BaseException=BaseException, Exception=Exception, LookupError=LookupError, ExtractorBoom=ExtractorBoom)


def plan(tier, seed):
    n = 6000 if tier == "quick" else 60000
    specs = [{"seed": seed, "i": i} for i in range(n)]
    combos = [(d, hw, v) for d in shutdown.DESTS for hw in shutdown.HOWS for v in sorted(shutdown.EXPECTED_JSON)]
    random.Random("%s:C07:shutdown" % seed).shuffle(combos)
    if tier == "quick":
        combos = [c_ for d in shutdown.DESTS for c_ in [x for x in combos if x[0] == d][:3]]  # three per kind of destination
    specs += [{"part": "shutdown", "seed": seed, "dest": d, "how": hw, "value": v} for d, hw, v in combos]
    specs += [{"part": "outermost", "seed": seed, "i": i} for i in range(12 if tier == "quick" else 120)]
    return specs


def shutdown_case(spec):
    """Logging calls made from finalizers that run while the interpreter shuts down (a fresh interpreter per case)."""
    res = {"evals": 1, "nontrivial": [], "counters": {}, "violations": [], "sets": {}}
    import subprocess
    try:
        out = shutdown.run_probe(REPO, {"dest": spec["dest"], "how": spec["how"], "value": spec["value"]})
    except subprocess.TimeoutExpired:
        return {"inconclusive": "the shutdown probe did not finish in time"}
    problems, inc = shutdown.judge_no_raise(out)
    if inc:
        return {"inconclusive": inc}
    res["counters"]["logging_calls_made_during_interpreter_shutdown"] = 3
    res["nontrivial"].append(h(["shutdown", spec["dest"], spec["how"], spec["value"]]))
    if problems:
        res["violations"].append({"msg": problems[0], "mech": None, "detail": {"problems": problems, "spec": spec, "stderr": out["stderr"][-10:]}})
    return res


def kind_of(m):
    mt = m.get("message_type")
    if mt == "eliot:destination_failure":
        return "destination_failure_report"
    if mt == "eliot:serialization_failure":
        return "serialization_failure_report"
    if mt == "eliot:traceback":
        return "traceback"
    if "action_type" in m:
        return "action_" + str(m.get("action_status"))
    lvl = m.get("task_level")
    return "contextless_message" if lvl == [1] else "in_action_message"


def outermost_case(spec):
    """An eliot function as the OUTERMOST Python frame of its thread (the direct target of _thread.start_new_thread, a callback run
    from C) with a MemoryLogger as default logger and a value that fails validation: the call returns, the message is recorded."""
    import _thread
    import functools
    import sys
    import time
    from eliot import MemoryLogger, log_message, start_task
    from eliot.testing import swap_logger
    res = {"evals": 1, "nontrivial": [], "counters": {}, "violations": [], "sets": {}}
    rng = random.Random("%s:C07:outer:%d" % (spec["seed"], spec["i"]))
    logger = MemoryLogger()
    previous = swap_logger(logger)
    unraisable = []
    old_hook = sys.unraisablehook
    sys.unraisablehook = lambda u: unraisable.append("%s: %s" % (type(u.exc_value).__name__, u.exc_value))
    done = []
    try:
        kinds = []
        for j in range(rng.randint(1, 3)):
            kind = rng.choice(["log_message", "start_task", "log_message_ok"])
            value = faults.Plain() if kind != "log_message_ok" else j
            kinds.append(kind)
            if kind == "start_task":
                target = functools.partial(start_task, action_type="outer:t", v=value)
            else:
                target = functools.partial(log_message, "outer:m", v=value)

            def finished(lock):
                done.append(1)
            lock = _thread.allocate_lock()
            _thread.start_new_thread(target, ())
        deadline = time.monotonic() + 20
        while time.monotonic() < deadline and len(logger.messages) + len(unraisable) < len(kinds):
            time.sleep(0.005)
        time.sleep(0.02)
    finally:
        sys.unraisablehook = old_hook
        swap_logger(previous)
    if len(logger.messages) + len(unraisable) < len(kinds):
        return {"inconclusive": "raw threads did not finish"}
    res["counters"]["logging_calls_as_outermost_frame_of_a_thread"] = len(kinds)
    res["nontrivial"].append(h(["outermost", kinds]))
    if unraisable:
        res["violations"].append({"msg": "a logging call that was the outermost frame of its thread (target of _thread.start_new_thread), to a MemoryLogger, raised %s" % unraisable[0],
                                  "mech": None, "detail": {"kinds": kinds, "raised": unraisable[:4], "recorded": len(logger.messages)}})
    return res


def run_case(spec):
    if spec.get("part") == "shutdown":
        return shutdown_case(spec)
    if spec.get("part") == "outermost":
        return outermost_case(spec)
    rng = random.Random("%s:C07:%d" % (spec["seed"], spec["i"]))
    res = {"evals": 1, "nontrivial": [], "counters": {}, "violations": [], "sets": {"fault_x_message_kind": [], "hostile_value_types": []}}
    fired = {"dest": 0, "ser": 0, "extractor": 0, "hostile": 0}

    # ---- hostile values
    use_hostile = rng.random() < 0.7

    one_shot = []

    def hostile(r):
        v = faults.hostile_value(r)
        fired["hostile"] += 1
        if type(v).__name__ == "generator":
            one_shot.append(v)
        res["sets"]["hostile_value_types"].append(type(v).__name__)
        return v

    # ---- extractors
    regs = {}
    if rng.random() < 0.6:
        for name in REG_CLASSES:
            if rng.random() < 0.3:
                regs[name] = rng.choice(["ok", "raise", "raise", "raise_badstr", "hostile", "raise_pool", "raise_pool", "collide", "not_a_dict", "not_a_dict"])
    ext_calls = {"n": 0}

    def make_extractor(name, kind):
        def extractor(e):
            ext_calls["n"] += 1
            if kind == "raise":
                fired["extractor"] += 1
                raise ExtractorBoom("extractor for %s failed" % name)
            if kind == "raise_badstr":
                fired["extractor"] += 1
                raise ExtractorBoomBadStr()
            if kind == "raise_pool":
                # fails with an exception class that other (possibly also failing) extractors are registered for
                fired["extractor"] += 1
                raise excs.make(random.Random(name).choice(["ValueError", "KeyError", "UserError", "DeepUserError", "OSError", "RuntimeError", "BadStr"]),
                                "extractor for %s failed" % name)
            if kind == "not_a_dict":
                # a buggy extractor: returns None (`lambda e: e.details` without details), a list that is no list of pairs, an iterator
                # that fails while it is consumed - whatever eliot makes of it, the logging call returns
                fired["extractor"] += 1
                k = ext_calls["n"] % 4
                if k == 0:
                    return None
                if k == 1:
                    return ["not", "pairs", 3]
                if k == 2:
                    return (x for x in [("a", 1), 1 / 0 if False else None])
                return 7
            if kind == "collide":
                # a well-behaved extractor whose field names coincide with the names eliot itself uses
                return {"exception": 5, "reason": faults.Plain(), "traceback": 7, "message_type": "mine", "action_status": "x", "task_uuid": 3}
            if kind == "hostile":
                return {"ext": faults.hostile_value(random.Random(ext_calls["n"]))}
            return {"ext_" + name: name}
        return extractor

    for name, kind in regs.items():
        register_exception_extractor(CLASSMAP[name], make_extractor(name, kind))

    # ---- serializers failing on masked calls
    ser_desc, ser_pred = faults.gen_mask(rng, 10)
    ser_on = rng.random() < 0.5
    ser_calls = {"n": 0}
    ser_exc = rng.choice([excs.SerFault, StopIteration, KeyError, ValueError, TypeError, RuntimeError, AssertionError, excs.BadStr, RecursionError])

    def ser_hook(name, f):
        def wrapped(v):
            i = ser_calls["n"]
            ser_calls["n"] += 1
            if ser_on and ser_pred(i):
                fired["ser"] += 1
                raise ser_exc("serializer %s failed on call %d" % (name, i))
            return f(v)
        return wrapped

    g = gen.ProgGen(rng, max_depth=rng.choice([2, 3, 4]), max_nodes=rng.choice([8, 20, 40]), value_depth=1,
                    hostile=hostile if use_hostile else None, fail_p=0.4, early_finish_p=0.2, extra_styles=("pre_created", "ctx_finish_inside"),
                    msg_styles=gen.MSG_STYLES + ["stdlib"], underscore_field_p=0.1)
    prog = g.program()
    st = gen.prog_stats(prog)

    # ---- destinations
    tape = Tape()
    fd, path = tempfile.mkstemp(prefix="vf-c07-")
    os.close(fd)
    f = open(path, rng.choice(["ab", "a"]))
    filedest = FileDestination(file=f)
    file_failures = {"n": 0}

    def counting_file_destination(message):
        try:
            filedest(message)
        except Exception:
            file_failures["n"] += 1
            res["sets"]["fault_x_message_kind"].append("unencodable_value@file_destination:" + kind_of(message))
            raise

    dests = [counting_file_destination, Recorder(tape, "rec", deep=False)]
    masks = []
    for j in range(rng.choice([0, 0, 1, 2, 3])):
        desc, pred = faults.gen_mask(rng, st["nodes"] * 2)
        ename, fac = faults.exc_factory(rng)
        masks.append(desc + ":" + ename)
        dests.insert(rng.randint(0, len(dests)), MaskedDestination(tape, "bad%d" % j, pred, fac))
    rng.shuffle(dests)
    add_destinations(*dests)
    it = Interp(tape=tape, ser_hook=ser_hook)
    it.explicit_loggers = True
    it.late_calls = True
    it.tb_without_exception = True
    it.memory_loggers = True
    it.stdlib_bad_format = True
    it.strict_warnings = spec["i"] % 3 == 0  # a third of the processes run with warnings turned into errors
    try:
        it.run(prog)
    finally:
        for d in dests:
            remove_destination(d)
        f.close()
        os.unlink(path)

    # ---- what was hit
    n_filefail = 0
    for e in tape.entries:
        if e["k"] != "msg":
            continue
        if e.get("failed"):
            fired["dest"] += 1
            res["sets"]["fault_x_message_kind"].append("dest_fault@" + kind_of(e["m"]))
        if e["dest"] == "rec":
            k = kind_of(e["m"])
            if k == "serialization_failure_report":
                res["sets"]["fault_x_message_kind"].append("serializer_fault@reported")
    if fired["extractor"]:
        res["sets"]["fault_x_message_kind"].append("extractor_fault@failed_end_or_traceback")
    c = res["counters"]
    c["api_calls_monitored"] = it.api_calls
    c["blocks_identity_checked"] = sum(v for k, v in it.counters.items() if k.startswith(("act:", "remote:")))
    c["faults_fired"] = dict(fired)
    c["file_destination_encode_failures"] = file_failures["n"]
    relevant = [v for v in it.violations if "current_action" not in v["msg"]]
    # "or alters the application": a one-shot iterator the application logged is still unconsumed afterwards
    for gobj in one_shot:
        rest = list(gobj)
        c["one_shot_iterators_checked"] = c.get("one_shot_iterators_checked", 0) + 1
        if rest != [1, 2, 3]:
            relevant.append({"msg": "logging consumed a generator the application passed as a field value (left: %r)" % (rest,)})
    if any(fired.values()):
        sig = sorted(set(res["sets"]["fault_x_message_kind"]))
        res["nontrivial"].append(h([sig, gen.prog_shape(prog), sorted(regs.items())]))
    if spec["i"] % 101 == 0:
        res["sample"] = {"program": prog, "masks": masks, "extractor_registrations": regs, "serializer_mask": ser_desc if ser_on else None,
                         "faults_fired": dict(fired)}
    if relevant:
        res["violations"].append({"msg": relevant[0]["msg"], "mech": None,
                                  "detail": {"problems": [v["msg"] for v in relevant[:8]], "program": prog, "masks": masks, "registrations": regs}})
    return res


def finalize(agg, tier):
    f = agg["counters"].get("faults_fired", {})
    for k in ("dest", "ser", "extractor", "hostile"):
        if f.get(k, 0) < 20:
            return "fault kind %s fired only %d times" % (k, f.get(k, 0))
    if agg["counters"].get("file_destination_encode_failures", 0) < 20:
        return "hostile values rarely reached the file destination"
    if agg["counters"].get("logging_calls_made_during_interpreter_shutdown", 0) < 9:
        return "too few logging calls were made during interpreter shutdown"
    if agg["counters"].get("logging_calls_as_outermost_frame_of_a_thread", 0) < 5:
        return "too few logging calls were made as the outermost frame of a thread"
    kinds = set(agg["sets"].get("fault_x_message_kind", {}))
    need = ["dest_fault@action_started", "dest_fault@action_succeeded", "dest_fault@action_failed", "dest_fault@in_action_message",
            "dest_fault@contextless_message", "dest_fault@traceback", "dest_fault@destination_failure_report",
            "dest_fault@serialization_failure_report", "serializer_fault@reported", "extractor_fault@failed_end_or_traceback"]
    missing = [k for k in need if k not in kinds]
    if missing:
        return "fault/message-kind combinations never hit: %s" % missing
    return None
