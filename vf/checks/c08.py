"""C08 - per-destination exactly-once, ordered delivery; faults isolated and reported (accounting checker)."""

from vf import sched

sched.install()  # before eliot is imported (part 'threads' runs under the line-granular scheduler)

import ast
import itertools
import random

from eliot import add_destinations, log_message, remove_destination, start_action
from eliot import _output

from vf import excs, faults, gen
from vf.interp import Interp
from vf.runner import h
from vf.tape import MaskedDestination, Recorder, Tape

ID = "C08"
LEVEL = "fault_enumeration"
RULE = ("1-4 destinations (one always-healthy reference at a random position, the others failing on the calls selected by a mask over "
        "their own call index, exception classes incl. one whose str() raises) receive ProgGen programs through the production "
        "Logger. part 'enum': ALL masks over the first K calls of D destinations on a fixed 3-message program (quick D=2,K=4; thorough "
        "also D=3,K=4 and D=2,K=6). part 'storm': permanently failing destination x 1000 messages. Oracle: every destination is offered "
        "the identical sequence; non-report messages exactly once each; after each message its failures are reported in destination "
        "order by exactly one eliot:destination_failure each (exception=module.Class, reason=str(exc), message rendering naming the "
        "affected message's task_uuid and task_level); failures on reports produce no report; report count == failed non-report "
        "deliveries. part 'prebuffered': a program is logged BEFORE the first add_destinations (fresh process), then the "
        "destinations (some failing) are added and a second program runs: the same accounting over re-delivered and later messages. "
        "part 'threads': 2-3 threads log while 1-2 destinations fail, under the line-granular scheduler (LINE events on "
        "eliot/_output.py), all one-preemption schedules per priority order + sampled deeper ones: every destination is offered the "
        "same set of messages once, per-thread order kept, every failed delivery reported exactly once. part 'reentrant': destinations that log while handling a message (a relay answering "
        "with a message of its own, a FileDestination whose json_default logs a diagnostic, optionally a failing one in between) run as a one-thread "
        "schedule: no self-deadlock, every destination offered every outer and nested message exactly once, reports == failed deliveries. part 'interrupted_report': 2-3 destinations fail on one message and the delivery of the first report "
        "is cut short by a non-Exception from another destination: the healthy destination (registered first) is still offered one report per failure. A quarter of the random programs run inside an action bound to a logger object of its "
        "own, half of the hand-overs happen inside an open action (a third of those inside an action bound to a MemoryLogger: recorded finding). Destination exceptions include ones whose text is the empty string (raised without arguments). part 'deferred': a destination schedules follow-up work for what it is offered, reports included (loop.call_soon, a new asyncio task, a saved copy_context()), which later logs a message of its own; a failure on that message is reported like any other. The rendering clause of the accounting oracle also demands, for every field of the affected message (as the failing destination was offered it) whose value is an int/str/float/bool/None or a list/tuple/dict of those, that the report's message text - read as the dict display of repr texts it is - shows the field's name together with repr(value); values of other classes are not judged. part 'tuples': messages, action start fields, success fields and action.log messages whose fields are or hold tuples ((), one-element tuples, pairs, nested tuples, lists of tuples, dicts with tuple keys/values) go to 1-2 raising recording destinations and the reference, same accounting. part 'mainmodule': fresh interpreters started as `python -m prog`, `python -m pkg` (pkg/__main__.py), `python -m pkg.tool`, `python prog.py` and `python -c` (tree under test first on PYTHONPATH) run a program whose failing destination raises an exception class defined in that main module: the report's exception field equals the type(e).__module__ + '.' + type(e).__name__ the program computed itself (reason, one report per failure and position behind the affected message are judged too). non-trivial = >=2 faulty destinations or a mask that hits a report; distinct by (program shape, masks)" " part 'signals': a Python signal handler that itself logs, delivered at EVERY point inside the program's logging calls at which CPython can run one (vf/sigreent.py; one forked process per point), with a destination failing on every n-th call registered before or between two accepting destinations: both accepting destinations are offered every message exactly once (the same multiset), every failed delivery is reported exactly once, no call raises.")
ASSUMPTIONS = ["destinations raise Exception subclasses (part 'interrupted_report' alone lets one raise a non-Exception, and only while it is offered a failure report)", "under concurrency only per-destination sets, per-thread order and report counts are judged "
               "(destinations may legitimately see different total orders)"]
EXHAUSTIVE_NOTE = "part 'enum' enumerates every failure mask over the first K calls of D destinations"
BATCH = 100


def plan(tier, seed):
    n = 20000 if tier == "quick" else 200000
    specs = [{"part": "random", "seed": seed, "lo": i, "hi": min(n, i + BATCH)} for i in range(0, n, BATCH)]
    combos = [(2, 4)] if tier == "quick" else [(2, 4), (3, 4), (2, 6), (1, 8)]
    for D, K in combos:
        total = 2 ** (D * K)
        step = 64
        for lo in range(0, total, step):
            specs.append({"part": "enum", "seed": seed, "D": D, "K": K, "lo": lo, "hi": min(total, lo + step)})
    for j in range(2 if tier == "quick" else 8):
        specs.append({"part": "storm", "seed": seed, "i": j})
    for j in range(8 if tier == "quick" else 64):
        specs.insert(0, {"part": "signals", "seed": seed, "i": j})  # (long cases first)
    for j in range(600 if tier == "quick" else 6000):
        specs.append({"part": "prebuffered", "seed": seed, "i": j})
    for j in range(16 if tier == "quick" else 200):
        specs.append({"part": "threads", "seed": seed, "i": j, "tier": tier})
    for j in range(300 if tier == "quick" else 3000):
        specs.append({"part": "reentrant", "seed": seed, "i": j})
    for j in range(100 if tier == "quick" else 1000):
        specs.append({"part": "interrupted_report", "seed": seed, "i": j})
    for j in range(300 if tier == "quick" else 3000):
        specs.append({"part": "deferred", "seed": seed, "i": j})
    for j in range(12 if tier == "quick" else 120):
        specs.append({"part": "globaltype", "seed": seed, "i": j})
    for j in range(300 if tier == "quick" else 3000):
        specs.append({"part": "tuples", "seed": seed, "i": j})
    for j in range(10 if tier == "quick" else 100):
        specs.append({"part": "mainmodule", "seed": seed, "i": j})
    return specs


def key(m):
    return (m["task_uuid"], tuple(m["task_level"]))


def is_report(m):
    return m.get("message_type") == "eliot:destination_failure"

_PLAIN_SCALARS = (int, str, float, bool, type(None))
_MISSING = object()


def plain(v, depth=0):
    """True for an int/str/float/bool/None (exactly these classes, no subclasses) or a list/tuple/dict built from such values only:
    the values whose repr() is fixed by the language."""
    t = type(v)
    if t in _PLAIN_SCALARS:
        return True
    if depth > 40:
        return False
    if t is list or t is tuple:
        return all(plain(x, depth + 1) for x in v)
    if t is dict:
        return all(plain(k, depth + 1) and plain(x, depth + 1) for k, x in v.items())
    return False


def holds_tuple(v):
    t = type(v)
    if t is tuple:
        return True
    if t is list:
        return any(holds_tuple(x) for x in v)
    if t is dict:
        return any(holds_tuple(k) or holds_tuple(x) for k, x in v.items())
    return False


def rendering_gaps(rendering, m, stats=None):
    """'A rendering of the affected message': for every field of the message the destination was offered whose value is plain
    (see plain()), the report's `message` text has to show the field's name together with repr(value). The text is read the way it
    presents itself - a Python dict display whose keys and values are the repr() texts of the message's keys and values (a
    display of the values themselves is accepted as well); a text that is no dict display is searched for name and repr(value).
    Fields whose value is of any other class (their repr may raise and is then replaced by a placeholder) are not judged."""
    out = []
    try:
        parsed = ast.literal_eval(rendering)
    except BaseException:
        parsed = None
    for name, value in m.items():
        if type(name) is not str or not plain(value):
            continue
        try:
            want = repr(value)
        except BaseException:
            continue
        if isinstance(parsed, dict):
            shown = parsed.get(repr(name), _MISSING)
            if shown is _MISSING:
                shown = parsed.get(name, _MISSING)
            if shown is _MISSING:
                ok = False
            elif type(shown) is str:
                ok = shown == want or (type(value) is str and shown == value)  # (the latter: a display of the values themselves)
            else:
                ok = plain(shown) and repr(shown) == want
        else:
            shown = _MISSING
            ok = name in rendering and (want in rendering or repr(want)[1:-1] in rendering)
        if stats is not None:
            stats["fields"] = stats.get("fields", 0) + 1
            if holds_tuple(value):
                stats["tuple_fields"] = stats.get("tuple_fields", 0) + 1
                if value == ():
                    stats["empty_tuples"] = stats.get("empty_tuples", 0) + 1
                if type(value) is tuple and len(value) == 1:
                    stats["one_tuples"] = stats.get("one_tuples", 0) + 1
                if type(value) is dict and any(type(k) is tuple for k in value):
                    stats["tuple_keys"] = stats.get("tuple_keys", 0) + 1
        if not ok:
            out.append("report's message rendering does not show field %r of the affected message with its value: the destination was offered %s=%s, "
                       "the rendering %s" % (name, name, want[:200], ("shows %r for it" % (shown,))[:260] if shown is not _MISSING else
                                             ("has no entry for it" if isinstance(parsed, dict) else "is %r" % (rendering[:300],))))
    return out


def account(tape, names, ref, problems, stats=None):
    """The oracle. names: destination names in registration order."""
    per = {n: [e for e in tape.entries if e["k"] == "msg" and e["dest"] == n] for n in names}
    refseq = [key(e["m"]) for e in per[ref]]
    if len(set(refseq)) != len(refseq):
        problems.append("reference destination was offered some message twice")
    for n in names:
        seq = [key(e["m"]) for e in per[n]]
        if seq != refseq:
            a, b = seq, refseq
            i = next((j for j in range(min(len(a), len(b))) if a[j] != b[j]), min(len(a), len(b)))
            problems.append("destination %s was offered %d messages, reference %d; sequences diverge at offer %d" % (n, len(a), len(b), i))
    # walk the reference sequence: message, then its reports in destination order
    failures_total = 0
    reports_total = 0
    hits_report = 0
    idx = 0
    refmsgs = [e["m"] for e in per[ref]]
    while idx < len(refmsgs):
        m = refmsgs[idx]
        if is_report(m):
            problems.append("report at reference offer %d is not preceded by a failed delivery" % idx)
            idx += 1
            continue
        failed = []
        for n in names:
            if idx < len(per[n]) and per[n][idx].get("failed"):
                failed.append(n)
        failures_total += len(failed)
        j = idx + 1
        for n in failed:
            if j >= len(refmsgs) or not is_report(refmsgs[j]):
                problems.append("failure of destination %s on message %s%s was not reported (next offer is %s)" % (
                    n, m["task_uuid"][:8], m["task_level"], "missing" if j >= len(refmsgs) else "not a report"))
                break
            r = refmsgs[j]
            reports_total += 1
            dest = tape_dest[n]
            call = per[n][idx]["call"]
            exc = dict(dest.failed)[call]
            if r.get("exception") != excs.qualname(type(exc)):
                problems.append("report names exception %r, destination raised %s" % (r.get("exception"), excs.qualname(type(exc))))
            ok, text = excs.safe_text(exc)
            if ok and r.get("reason") != text:
                problems.append("report reason %r, exception text %r" % (r.get("reason"), text))
            if not isinstance(r.get("reason"), str):
                problems.append("report reason is not text")
            rendering = r.get("message")
            if not isinstance(rendering, str) or repr(m["task_uuid"]) not in rendering or repr(m["task_level"]) not in rendering:
                problems.append("report's message rendering %r does not show the affected message %s%s" % (rendering, m["task_uuid"][:8], m["task_level"]))
            if "nid" in m and ("'nid'" not in rendering or repr(str(m["nid"])) not in rendering and repr(m["nid"]) not in rendering):
                problems.append("report's message rendering does not show the affected message's nid field")
            if isinstance(rendering, str):
                problems.extend(rendering_gaps(rendering, m, stats)[:3])
            # failures while delivering the report are not reported
            for n2 in names:
                if j < len(per[n2]) and per[n2][j].get("failed"):
                    hits_report += 1
            j += 1
        if j < len(refmsgs) and is_report(refmsgs[j]) and len(problems) == 0:
            problems.append("more reports than failed deliveries after message %s%s" % (m["task_uuid"][:8], m["task_level"]))
        idx = j
        while idx < len(refmsgs) and is_report(refmsgs[idx]) and problems:
            idx += 1
    n_reports = sum(1 for m in refmsgs if is_report(m))
    if n_reports != failures_total:
        problems.append("%d eliot:destination_failure messages for %d failed deliveries of non-report messages" % (n_reports, failures_total))
    return failures_total, hits_report


def fold_rendering_stats(res, stats):
    c = res["counters"]
    for k, name in (("fields", "report_rendering_fields_judged"), ("tuple_fields", "report_rendering_fields_holding_tuples_judged"),
                    ("empty_tuples", "report_rendering_empty_tuples_judged"), ("one_tuples", "report_rendering_one_element_tuples_judged"),
                    ("tuple_keys", "report_rendering_dicts_with_tuple_keys_judged")):
        if stats.get(k):
            c[name] = c.get(name, 0) + stats[k]


tape_dest = {}


def run_with(dests_spec, body, res, label, shape):
    """dests_spec: list of ("ref",) or ("bad", predicate, exc_factory, desc)."""
    tape = Tape()
    dests = []
    names = []
    tape_dest.clear()
    for j, d in enumerate(dests_spec):
        if d[0] == "ref":
            obj = MaskedDestination(tape, "ref", lambda i: False, None)
            names.append("ref")
        elif d[0] == "closed":
            from vf.tape import ClosedFileDestination
            name = "bad%d" % j
            obj = ClosedFileDestination(tape, name)
            names.append(name)
        else:
            name = "bad%d" % j
            obj = MaskedDestination(tape, name, d[1], d[2])
            names.append(name)
        tape_dest[names[-1]] = obj
        dests.append(obj)
    add_destinations(*dests)
    problems = []
    try:
        body(tape, problems)
    except BaseException as e:
        problems.append("logging raised %r" % (e,))
    finally:
        for d in dests:
            try:
                remove_destination(d)
            except ValueError:
                problems.append("destination %s is no longer registered at the end although the program never removed it" % getattr(d, "name", d))
    stats = {}
    failures, hits_report = account(tape, names, "ref", problems, stats)
    fold_rendering_stats(res, stats)
    c = res["counters"]
    c["offers_checked"] = c.get("offers_checked", 0) + sum(1 for e in tape.entries if e["k"] == "msg")
    c["failed_deliveries"] = c.get("failed_deliveries", 0) + failures
    c["failures_while_delivering_reports"] = c.get("failures_while_delivering_reports", 0) + hits_report
    res["evals"] += 1
    nbad = sum(1 for d in dests_spec if d[0] in ("bad", "closed"))
    if failures and (nbad >= 2 or hits_report):
        res["nontrivial"].append(h([shape, [d[3] for d in dests_spec if d[0] in ("bad", "closed")], label]))
    if problems:
        res["violations"].append({"msg": problems[0], "mech": None, "detail": {"label": label, "problems": problems[:10],
                                                                               "masks": [d[3] for d in dests_spec if d[0] in ("bad", "closed")], "shape": shape}})
    return tape


class EqualRecorder(object):
    """Healthy destination with value equality: all instances compare equal (like a dataclass without fields)."""

    def __init__(self, tape, name):
        self.tape = tape
        self.name = name

    def __eq__(self, other):
        return isinstance(other, EqualRecorder)

    def __hash__(self):
        return 7

    def __call__(self, m):
        self.tape.add("msg", dest=self.name, m=dict(m))


def part_prebuffered(spec, res):
    """Messages logged before the first add_destinations are re-delivered by that call: faults on them count like any other."""
    rng = random.Random("%s:C08:pre:%d" % (spec["seed"], spec["i"]))
    g1 = gen.ProgGen(rng, max_depth=3, max_nodes=rng.choice([2, 5, 10]), value_depth=0, remote_vias=("same",))
    g2 = gen.ProgGen(rng, max_depth=3, max_nodes=rng.choice([2, 5]), value_depth=0, remote_vias=("same",))
    p1, p2 = g1.program(), g2.program()
    for n in _walk(p2):
        n["nid"] += 1000
    tape = Tape()
    names = []
    dests = []
    tape_dest.clear()
    dspec = [("ref",)]
    for j in range(rng.choice([1, 1, 2])):
        desc, pred = faults.gen_mask(rng, 12)
        ename, fac = faults.exc_factory(rng)
        dspec.insert(rng.randint(0, len(dspec)), ("bad", pred, fac, desc + ":" + ename))
    for j, d in enumerate(dspec):
        name = "ref" if d[0] == "ref" else "bad%d" % j
        obj = MaskedDestination(tape, name, (lambda i: False) if d[0] == "ref" else d[1], None if d[0] == "ref" else d[2])
        names.append(name)
        tape_dest[name] = obj
        dests.append(obj)
    problems = []
    it = Interp(tape=tape)
    # two further destinations that compare EQUAL to each other (value objects) but are distinct: both must be served
    twins = [EqualRecorder(tape, "twin0"), EqualRecorder(tape, "twin1")]
    foreign = [None]

    def body():
        it.run(p1)  # buffered: no destination exists yet
        if spec["i"] % 2:
            # logging is set up from inside an action (a main() wrapped in one): reports about re-delivered messages are
            # logged while that action is current
            res["counters"]["handovers_inside_an_action"] = res["counters"].get("handovers_inside_an_action", 0) + 1
            if spec["i"] % 6 == 5:
                # ... an action bound to a logger object of its own (recorded finding: reports about re-delivered messages go to THAT logger)
                from eliot import MemoryLogger
                foreign[0] = MemoryLogger()
                with start_action(foreign[0], action_type="c08:setup", nid=999):
                    add_destinations(*dests)
            else:
                with start_action(action_type="c08:setup", nid=999):
                    add_destinations(*dests)
        else:
            add_destinations(*dests)
        add_destinations(twins[0])
        add_destinations(twins[1])
        it.forest = []
        it.run(p2)
    # run as the only registered thread of a schedule: if the hand-over blocks on a lock it holds itself, the scheduler
    # reports a deadlock instead of the case hanging
    st, errs = sched.run_schedule({"order": ["main"], "changes": []}, {"main": body}, timeout=120.0)
    for e in errs.values():
        problems.append("logging raised %r" % (e,))
    if st["deadlock"]:
        problems.append("logging / add_destinations deadlocked: %s" % st["deadlock"])
    elif st["aborted"]:
        res["inconclusive"] = "prebuffered run abandoned: %s" % st["aborted"]
    for tw in twins:
        try:
            remove_destination(tw)
        except ValueError:
            pass
    t0 = [key(e["m"]) for e in tape.entries if e["k"] == "msg" and e["dest"] == "twin0"]
    t1 = [key(e["m"]) for e in tape.entries if e["k"] == "msg" and e["dest"] == "twin1"]
    if not st["aborted"] and (not t1 or t1 != t0[len(t0) - len(t1):]):
        problems.append("of two equal-but-distinct destinations registered one after the other, the second received %d messages, the first %d" % (len(t1), len(t0)))
    problems.extend(v["msg"] for v in it.violations if v["msg"].startswith("eliot API call"))
    stats = {}
    failures, hits_report = account(tape, names, "ref", problems, stats)
    fold_rendering_stats(res, stats)
    c = res["counters"]
    c["prebuffered_runs"] = c.get("prebuffered_runs", 0) + 1
    c["failed_deliveries"] = c.get("failed_deliveries", 0) + failures
    c["offers_checked"] = c.get("offers_checked", 0) + sum(1 for e in tape.entries if e["k"] == "msg")
    res["evals"] += 1
    if failures:
        res["nontrivial"].append(h(["pre", gen.prog_shape(p1), gen.prog_shape(p2), [d[3] for d in dspec if d[0] in ("bad", "closed")]]))
    if problems:
        mech = None
        if foreign[0] is not None and any(m.get("message_type") == "eliot:destination_failure" for m in foreign[0].messages):
            mech = "handover-report-to-foreign-logger"
        res["violations"].append({"msg": problems[0], "mech": mech, "detail": {"label": "prebuffered", "problems": problems[:8], "buffered_program": p1,
                                                                               "later_program": p2, "masks": [d[3] for d in dspec if d[0] in ("bad", "closed")]}})


def part_interrupted_report(spec, res):
    """Two destinations fail on the same message; while the report about the FIRST failure is being delivered, a destination
    raises something that is not an Exception (KeyboardInterrupt during a slow write, a cancellation): that report's delivery is cut
    short, but the second failure is still reported. The healthy destination is registered first, so it is offered everything."""
    rng = random.Random("%s:C08:ir:%d" % (spec["seed"], spec["i"]))
    got = []

    def ref(m):
        got.append(dict(m))
    reports_seen = [0]
    interrupt = rng.choice([KeyboardInterrupt, excs.UserBase, SystemExit, GeneratorExit])

    def interrupter(m):
        if m.get("message_type") == "eliot:destination_failure":
            reports_seen[0] += 1
            if reports_seen[0] == 1:
                raise interrupt("while the first report is delivered")
    nbad = rng.choice([2, 2, 3])
    target = rng.randint(1, 4)

    def make_bad(j):
        def bad(m):
            if m.get("n") == target:
                raise excs.DestFault("destination %d fails on message %d" % (j, target))
        return bad
    others = [make_bad(j) for j in range(nbad)] + [interrupter]
    rng.shuffle(others)
    dests = [ref] + others
    add_destinations(*dests)
    problems = []
    try:
        with start_action(action_type="ir:act"):
            for n in range(1, 6):
                log_message(message_type="ir:m", n=n)
    except BaseException as e:
        problems.append("logging raised %r" % (e,))
    finally:
        for d in dests:
            remove_destination(d)
    reps = [m for m in got if m.get("message_type") == "eliot:destination_failure"]
    if len(reps) != nbad:
        problems.append("%d destinations failed on one message (delivery of the first report was interrupted by %s): the healthy destination was offered %d reports" % (
            nbad, interrupt.__name__, len(reps)))
    if [m.get("n") for m in got if m.get("message_type") == "ir:m"] != [1, 2, 3, 4, 5]:
        problems.append("the healthy destination did not receive the five messages once each, in order")
    res["evals"] += 1
    c = res["counters"]
    c["interrupted_report_runs"] = c.get("interrupted_report_runs", 0) + 1
    res["nontrivial"].append(h(["ir", nbad, target, interrupt.__name__, [getattr(d, "__name__", "") for d in dests]]))
    if problems:
        res["violations"].append({"msg": problems[0], "mech": None, "detail": {"label": "interrupted_report", "problems": problems[:4]}})


def part_deferred(spec, res):
    """A destination that hands follow-up work to later: for what it is offered (ordinary messages and failure reports alike) it
    schedules a callback - loop.call_soon, a new asyncio task, or a saved contextvars.copy_context() - which later logs a message
    of its own. Whatever execution context that follow-up work inherited, a destination failing on ITS message is reported like any
    other failure, and the healthy destination is offered everything once."""
    import asyncio
    import contextvars
    rng = random.Random("%s:C08:df:%d" % (spec["seed"], spec["i"]))
    mode = rng.choice(["copy_context", "call_soon", "create_task"])
    nmsg = rng.randint(2, 8)
    got, failed, pending = [], [], []
    counter = [0]
    follow_budget = [30]
    loop_box = [None]
    desc, pred = faults.gen_mask(rng, nmsg * 4)
    bad_calls = [0]

    def ref(m):
        got.append(dict(m))

    def bad(m):
        i = bad_calls[0]
        bad_calls[0] += 1
        if pred(i):
            failed.append(dict(m))
            raise excs.DestFault("deferred part, call %d" % i)

    def follow(about):
        counter[0] += 1
        log_message(message_type="df:shipped", about=about, k=counter[0])

    async def follow_coro(about):
        follow(about)

    def shipper(m):
        if m.get("message_type") == "df:shipped" or follow_budget[0] <= 0:
            return
        follow_budget[0] -= 1
        about = "report" if is_report(m) else m.get("n", "action")
        if mode == "copy_context":
            pending.append((contextvars.copy_context(), about))
        elif mode == "call_soon":
            loop_box[0].call_soon(follow, about)
        else:
            loop_box[0].create_task(follow_coro(about))

    def drain():
        while pending:
            ctx, about = pending.pop(0)
            ctx.run(follow, about)

    dests = [ref, bad, shipper]
    rng.shuffle(dests)
    problems = []
    add_destinations(*dests)
    try:
        if mode == "copy_context":
            with start_action(action_type="df:act"):
                for n in range(1, nmsg + 1):
                    log_message(message_type="df:m", n=n)
                    drain()
            drain()
        else:
            async def main():
                loop_box[0] = asyncio.get_running_loop()
                with start_action(action_type="df:act"):
                    for n in range(1, nmsg + 1):
                        log_message(message_type="df:m", n=n)
                        await asyncio.sleep(0)
                for _ in range(200):
                    before = len(got)
                    await asyncio.sleep(0)
                    await asyncio.sleep(0)
                    if len(got) == before:
                        break
            asyncio.run(main())
    except BaseException as e:
        problems.append("logging raised %r" % (e,))
    finally:
        for d in dests:
            remove_destination(d)
    reps = [m for m in got if is_report(m)]
    failed_plain = [m for m in failed if not is_report(m)]
    if len(reps) != len(failed_plain):
        kinds = sorted(set(str(m.get("message_type") or m.get("action_type")) for m in failed_plain))
        problems.append("a destination failed on %d messages that are not failure reports (%s; follow-up work scheduled by a destination via %s "
                        "logged part of them), but %d eliot:destination_failure reports reached the healthy destination" % (
                            len(failed_plain), ", ".join(kinds), mode, len(reps)))
    if [m.get("n") for m in got if m.get("message_type") == "df:m"] != list(range(1, nmsg + 1)):
        problems.append("the healthy destination did not receive the program's messages once each, in order")
    ks = [m.get("k") for m in got if m.get("message_type") == "df:shipped"]
    if ks != list(range(1, counter[0] + 1)):
        problems.append("the healthy destination did not receive the follow-up messages once each, in order: %r of %d" % (ks[:10], counter[0]))
    res["evals"] += 1
    c = res["counters"]
    c["deferred_runs"] = c.get("deferred_runs", 0) + 1
    c["failures_on_messages_logged_by_deferred_work"] = c.get("failures_on_messages_logged_by_deferred_work", 0) + sum(
        1 for m in failed_plain if m.get("message_type") == "df:shipped")
    c["deferred_work_scheduled_while_a_report_was_delivered"] = c.get("deferred_work_scheduled_while_a_report_was_delivered", 0) + sum(
        1 for m in got if m.get("message_type") == "df:shipped" and m.get("about") == "report")
    res["nontrivial"].append(h(["df", mode, nmsg, desc, [d.__name__ for d in dests]]))
    if problems:
        res["violations"].append({"msg": problems[0], "mech": None, "detail": {"label": "deferred", "mode": mode, "mask": desc, "problems": problems[:6]}})


def part_globaltype(spec, res):
    """Global fields may have any name - also message_type. A destination that keeps failing gets each message and the one report
    about its failure, and no more (it recovers after a bounded number of calls so that an unbounded chain of reports stays finite here)."""
    from eliot import add_global_fields
    rng = random.Random("%s:C08:gt:%d" % (spec["seed"], spec["i"]))
    name = ["message_type", "message_type", "action_type", "reason", "exception", "message"][spec["i"] % 6]
    add_global_fields(**{name: rng.choice(["app:global", "eliot:destination_failure:not", 7])})
    nmsg = rng.randint(1, 4)
    budget = [rng.randint(8, 14)]
    calls, got = [0], []

    def bad(m):
        calls[0] += 1
        if budget[0] > 0:
            budget[0] -= 1
            raise excs.DestFault("always failing (call %d)" % calls[0])

    def ref(m):
        got.append(dict(m))
    dests = [bad, ref] if spec["i"] % 2 else [ref, bad]
    add_destinations(*dests)
    problems = []
    try:
        for n in range(nmsg):
            log_message(message_type="gt:m", n=n)
    except BaseException as e:
        problems.append("logging raised %r" % (e,))
    finally:
        for d in dests:
            remove_destination(d)
    failed_calls = min(calls[0], calls[0] - max(0, 0))  # (all calls while the budget lasted failed)
    originals = [m for m in got if m.get("n") is not None and "message" not in m or (name == "message" and m.get("n") is not None and "reason" not in m)]
    if len(got) > 2 * nmsg:
        problems.append("with a global field named %s set, %d messages were logged and one destination kept failing: the healthy destination was offered %d messages "
                        "(at most one report per message is due: failures while delivering a report are not reported), the failing one was called %d times" % (
                            name, nmsg, len(got), calls[0]))
    if len(got) < nmsg:
        problems.append("the healthy destination was offered %d messages, %d were logged" % (len(got), nmsg))
    res["evals"] += 1
    c = res["counters"]
    if name != "message_type":
        # what a report says - exception class, its text, a rendering of the affected message - is the report's own, whatever
        # fields the application attaches to every message
        for m in got:
            if m.get("message_type") != "eliot:destination_failure":
                continue
            c["reports_judged_with_a_global_field_named_like_a_report_field"] = c.get("reports_judged_with_a_global_field_named_like_a_report_field", 0) + 1
            if m.get("exception") != excs.qualname(excs.DestFault):
                problems.append("with a global field named %s set, the report about a destination raising %s names the exception class %r" % (
                    name, excs.qualname(excs.DestFault), m.get("exception")))
            if not (isinstance(m.get("reason"), str) and m["reason"].startswith("always failing (call ")):
                problems.append("with a global field named %s set, the report about a destination raising DestFault('always failing (call k)') gives the text %r" % (
                    name, m.get("reason")))
            if not (isinstance(m.get("message"), str) and "gt:m" in m["message"]):
                problems.append("with a global field named %s set, the report's rendering of the affected message (type gt:m) is %r" % (name, m.get("message")))
    c["global_field_named_like_eliot_fields_runs"] = c.get("global_field_named_like_eliot_fields_runs", 0) + 1
    res["nontrivial"].append(h(["gt", name, nmsg, spec["i"] % 2]))
    if problems:
        res["violations"].append({"msg": problems[0], "mech": None, "detail": {"label": "globaltype", "global_field": name, "problems": problems[:4]}})


TUPLE_ATOMS = [1, 2, 0, -1, 7, 2 ** 63, 1.5, -0.0, 1e22, "one", "", "it's", 'q"', "back\\slash", "é", "line\nbreak", None, True, False]
TUPLE_FIELD_NAMES = ["coords", "only", "none", "pair", "shape", "path", "key", "span", "args", "f0", "f1", "alpha"]


def gen_tuple_value(rng, depth=2):
    """A field value that is, or holds, a tuple: the empty tuple, one-element tuples, pairs, longer and nested ones, lists of
    tuples, dicts with tuple keys and/or tuple values."""
    atom = lambda: rng.choice(TUPLE_ATOMS)
    r = rng.random()
    if r < 0.18:
        return ()
    if r < 0.40:
        return (atom(),)
    if r < 0.62:
        return (atom(), atom())
    if r < 0.70 or depth <= 0:
        return tuple(atom() for _ in range(rng.randint(3, 5)))
    if r < 0.80:
        return tuple(rng.choice([gen_tuple_value(rng, depth - 1), atom()]) for _ in range(rng.randint(1, 3)))
    if r < 0.88:
        return [gen_tuple_value(rng, depth - 1) for _ in range(rng.randint(1, 3))]
    d = {}
    for _ in range(rng.randint(1, 3)):
        k = rng.choice([(), (atom(),), (atom(), atom()), ((atom(),), atom()), "k%d" % rng.randint(0, 9), rng.randint(0, 9)])
        d[k] = rng.choice([atom(), gen_tuple_value(rng, depth - 1)])
    return d


def part_tuples(spec, res):
    """Messages and actions whose fields are tuples - (), one-element tuples, pairs, nested ones, tuples inside lists, tuple keys
    and values inside dicts - go to destinations that take any value (the recording ones); one or two of them raise. Judged by the
    accounting oracle, whose rendering clause demands every plain field of the affected message, name with repr(value)."""
    rng = random.Random("%s:C08:tup:%d" % (spec["seed"], spec["i"]))
    ops = []
    nid = [0]

    def fields():
        names = rng.sample(TUPLE_FIELD_NAMES, rng.randint(1, 3))
        out = {}
        for nm in names:
            out[nm] = gen_tuple_value(rng) if rng.random() < 0.85 else rng.choice(TUPLE_ATOMS)
        return out
    for _ in range(rng.randint(1, 5)):
        nid[0] += 1
        style = rng.choice(["log_message", "log_message", "action", "action.log"])
        if style == "log_message":
            ops.append(("log_message", nid[0], fields()))
        elif style == "action":
            nid[0] += 1
            ops.append(("action", nid[0] - 1, fields(), fields()))
        else:
            nid[0] += 1
            ops.append(("action.log", nid[0] - 1, fields(), nid[0]))
    dspec = [("ref",)]
    for j in range(rng.choice([1, 1, 2])):
        if rng.random() < 0.5:
            desc, pred = "all", (lambda i: True)
        else:
            desc, pred = faults.gen_mask(rng, 8)
        ename, fac = faults.exc_factory(rng)
        dspec.insert(rng.randint(0, len(dspec)), ("bad", pred, fac, desc + ":" + ename))

    def body(tape, problems):
        for op in ops:
            if op[0] == "log_message":
                log_message(message_type="tup:m", nid=op[1], **op[2])
            elif op[0] == "action":
                with start_action(action_type="tup:act", nid=op[1], **op[2]) as a:
                    a.add_success_fields(**op[3])
            else:
                with start_action(action_type="tup:act", nid=op[1]) as a:
                    a.log(message_type="tup:inner", nid=op[3], **op[2])
    run_with(dspec, body, res, "tuples", repr(ops)[:1500])
    res["counters"]["tuple_field_runs"] = res["counters"].get("tuple_field_runs", 0) + 1
    if res["sample"] is None and spec["i"] < 3:
        res["sample"] = {"part": "tuples", "ops": repr(ops)[:600], "masks": [d[3] for d in dspec if d[0] == "bad"]}


MAIN_PROGRAM = r"""
import json
import sys
import eliot
from eliot import add_destinations, log_message, start_action


class @CLS@(@BASE@):
    pass


seen = []
raised = []
errors = []


def record(message):
    seen.append(dict(message))


def flaky(message):
    if message.get("message_type") != "eliot:destination_failure" and message.get("n") in @FAIL@:
        e = @CLS@(@TEXT@)
        raised.append([message.get("n"), type(e).__module__ + "." + type(e).__name__, str(e)])
        raise e


add_destinations(@ORDER@)
try:
    with start_action(action_type="mm:act", n=0):
        for n in range(1, @N@ + 1):
            log_message(message_type="mm:m", n=n)
except BaseException as exc:
    errors.append(repr(exc))
spec = getattr(sys.modules["__main__"], "__spec__", None)
print(json.dumps({
    "eliot": eliot.__file__,
    "main_spec": None if spec is None else spec.name,
    "class": @CLS@.__module__ + "." + @CLS@.__name__,
    "raised": raised,
    "errors": errors,
    "seen": [[m.get("message_type") or "%s/%s" % (m.get("action_type"), m.get("action_status")), m.get("n"), m.get("exception"),
              m.get("reason"), m.get("message")] for m in seen],
}))
"""
MAIN_LAUNCHES = ["-m module", "-m package", "script", "-m package.module", "-c"]


def part_mainmodule(spec, res):
    """The class named in the report when the exception class lives in the program's main module, for every way of starting the
    program: `python -m prog`, `python -m pkg` (pkg/__main__.py), `python -m pkg.tool`, `python prog.py`, `python -c`. A fresh
    interpreter (the tree under test first on PYTHONPATH) runs a small program whose failing destination raises a locally defined
    exception; the program reports what its healthy destination saw and what type(e).__module__ + "." + type(e).__name__ was."""
    import json as _json
    import os
    import shutil
    import subprocess
    import tempfile
    from vf import runner
    rng = random.Random("%s:C08:mm:%d" % (spec["seed"], spec["i"]))
    launch = MAIN_LAUNCHES[spec["i"] % len(MAIN_LAUNCHES)]
    cls = rng.choice(["StorageDown", "QueueFull", "Unreachable", "boom"])
    base = rng.choice(["Exception", "Exception", "RuntimeError", "OSError", "LookupError"])
    nmsg = rng.randint(1, 4)
    fail = sorted(rng.sample(range(0, nmsg + 1), rng.randint(1, nmsg)))
    if 0 in fail and rng.random() < 0.5:
        fail.remove(0)
    if not fail:
        fail = [1]
    text = rng.choice(["disk unplugged", "", "queue is full: 17 waiting", "é \U0001f600"])
    order = rng.choice(["record, flaky", "flaky, record"])
    src = (MAIN_PROGRAM.replace("@CLS@", cls).replace("@BASE@", base).replace("@FAIL@", repr(tuple(fail)))
           .replace("@TEXT@", ascii(text)).replace("@ORDER@", order).replace("@N@", str(nmsg)))
    c = res["counters"]
    res["evals"] += 1
    tmp = tempfile.mkdtemp(prefix="vf-c08-main-")
    try:
        def put(rel, content):
            path = os.path.join(tmp, rel)
            os.makedirs(os.path.dirname(path), exist_ok=True)
            with open(path, "w", encoding="utf-8") as f:
                f.write(content)
        if launch == "-m module":
            put("prog.py", src)
            argv = ["-m", "prog"]
        elif launch == "script":
            put("prog.py", src)
            argv = ["prog.py"]
        elif launch == "-m package":
            put("pkg/__init__.py", "")
            put("pkg/__main__.py", src)
            argv = ["-m", "pkg"]
        elif launch == "-m package.module":
            put("pkg/__init__.py", "")
            put("pkg/tool.py", src)
            argv = ["-m", "pkg.tool"]
        else:
            argv = ["-c", src]
        env = dict(os.environ)
        env["PYTHONPATH"] = os.pathsep.join([runner.REPO] + ([env["PYTHONPATH"]] if env.get("PYTHONPATH") else []))
        env["PYTHONIOENCODING"] = "utf-8"
        try:
            out = subprocess.run(["/venv/bin/python"] + argv, cwd=tmp, env=env, stdin=subprocess.DEVNULL, capture_output=True, timeout=60)
        except subprocess.TimeoutExpired:
            res["inconclusive"] = "main-module program (%s) did not finish within 60 s" % launch
            return
    finally:
        shutil.rmtree(tmp, ignore_errors=True)
    try:
        if out.returncode != 0:
            raise ValueError("exit status %d" % out.returncode)
        rep = _json.loads(out.stdout.decode("utf-8").strip().splitlines()[-1])
    except Exception as e:
        res["inconclusive"] = "main-module program (%s) gave no result (%s): %s" % (launch, e, out.stderr.decode("utf-8", "replace")[-300:])
        return
    if not os.path.realpath(rep["eliot"]).startswith(os.path.realpath(runner.REPO) + os.sep):
        res["inconclusive"] = "main-module program imported eliot from %s, not from %s" % (rep["eliot"], runner.REPO)
        return
    problems = ["logging raised %s" % e for e in rep["errors"]]
    raised = {r[0]: r for r in rep["raised"]}
    seen = rep["seen"]
    k = 0
    judged = 0
    expected_plain = [["mm:act/started", 0]] + [["mm:m", n] for n in range(1, nmsg + 1)] + [["mm:act/succeeded", None]]
    plain_seen = [m[:2] for m in seen if m[0] != "eliot:destination_failure"]
    if plain_seen != expected_plain:
        problems.append("the healthy destination of the program started with `python %s` saw %r, the program logged %r" % (launch if launch != "script" else "prog.py", plain_seen, expected_plain))
    while k < len(seen):
        m = seen[k]
        k += 1
        if m[0] == "eliot:destination_failure":
            problems.append("a report that is not preceded by a failed delivery")
            continue
        if m[1] in raised and m[0] != "mm:act/succeeded":
            n, name, reason = raised[m[1]]
            if k >= len(seen) or seen[k][0] != "eliot:destination_failure":
                problems.append("the failure of the destination on message n=%s was not reported" % n)
                continue
            r = seen[k]
            k += 1
            judged += 1
            if r[2] != name:
                problems.append("program started with `python %s`%s: a destination raised an exception of the class %s defined in the main module, "
                                "type(e).__module__ + '.' + type(e).__name__ is %r, the eliot:destination_failure report names exception %r" % (
                                    {"script": "prog.py", "-m module": "-m prog", "-m package": "-m pkg", "-m package.module": "-m pkg.tool", "-c": "-c ..."}[launch],
                                    "" if rep["main_spec"] is None else " (sys.modules['__main__'].__spec__.name == %r)" % rep["main_spec"], cls, name, r[2]))
            if r[3] != reason:
                problems.append("report reason %r, exception text %r" % (r[3], reason))
            if not isinstance(r[4], str) or repr(n) not in r[4]:
                problems.append("report's message rendering %r does not show the affected message (n=%r)" % (r[4], n))
    if len(raised) != len(rep["raised"]) or judged != len(raised):
        problems.append("%d failed deliveries of non-report messages, %d reports reached the healthy destination behind the message they are about" % (len(rep["raised"]), judged))
    d = c.setdefault("main_module_runs_by_launch", {})
    d[launch] = d.get(launch, 0) + 1
    c["main_module_reports_judged"] = c.get("main_module_reports_judged", 0) + judged
    if rep["main_spec"] is not None:
        c["main_module_reports_judged_with_a_main_spec"] = c.get("main_module_reports_judged_with_a_main_spec", 0) + judged
    res["nontrivial"].append(h(["mm", launch, cls, base, fail, text, order]))
    if res["sample"] is None:
        res["sample"] = {"part": "mainmodule", "launch": launch, "main_spec": rep["main_spec"], "class": rep["class"], "seen": [m[:4] for m in seen][:8]}
    if problems:
        res["violations"].append({"msg": problems[0], "mech": None, "detail": {"label": "mainmodule", "launch": launch, "main_spec": rep["main_spec"],
                                                                               "problems": problems[:6], "program": src}})


class Payload(object):
    def __init__(self, v):
        self.v = v


def part_reentrant(spec, res):
    """Destinations that themselves log while they handle a message: a relay that answers selected messages with a message of
    its own, a file destination whose json_default logs a diagnostic for every value it has to convert, an exception-raising one
    in between. Run as the only registered thread of a schedule, so that re-entering the output stage on a lock the thread already
    holds is a verdict. Every destination is offered every message - the program's and the nested ones - exactly once."""
    import json as _json
    from eliot import FileDestination
    from eliot.json import json_default
    from vf.tape import RecordingFile
    rng = random.Random("%s:C08:re:%d" % (spec["seed"], spec["i"]))
    tape = Tape()
    ref = Recorder(tape, "ref", deep=False)
    nmsg = rng.randint(2, 8)

    def relay(m):
        tape.add("msg", dest="relay", m=dict(m))
        if m.get("message_type") == "re:ping" and m["nid"] % 2 == 0:
            log_message(message_type="re:pong", about=m["nid"])

    def logging_default(o):
        if isinstance(o, Payload):
            log_message(message_type="re:diag", converted=o.v)
            return {"payload": o.v}
        return json_default(o)
    rf = RecordingFile("b")
    filedest = FileDestination(file=rf, json_default=logging_default)
    dests = [relay, filedest, ref]
    with_bad = rng.random() < 0.4
    if with_bad:
        dests.append(MaskedDestination(tape, "bad", (lambda i: i % 3 == 1), (lambda i: excs.DestFault("re-entrant part, call %d" % i))))
    rng.shuffle(dests)
    payload_nids = set()

    def body():
        with start_action(action_type="re:act", nid=0):
            for k in range(1, nmsg + 1):
                if rng.random() < 0.5:
                    payload_nids.add(k)
                    log_message(message_type="re:ping", nid=k, data=Payload(k))
                else:
                    log_message(message_type="re:ping", nid=k)
    add_destinations(*dests)
    try:
        st, errs = sched.run_schedule({"order": ["main"], "changes": []}, {"main": body}, timeout=120.0)
    finally:
        for d in dests:
            try:
                remove_destination(d)
            except ValueError:
                pass
    problems = ["logging raised %r" % (e,) for e in errs.values()]
    if st["deadlock"]:
        problems.append("a destination that logs while handling a message blocked the output stage: %s" % st["deadlock"])
    elif st["aborted"]:
        res["inconclusive"] = "re-entrant run abandoned: %s" % st["aborted"]
    else:
        def keys_of(msgs):
            out = []
            for m in msgs:
                t = m.get("message_type") or (m.get("action_type"), m.get("action_status"))
                if t == "eliot:destination_failure":
                    continue
                out.append((str(t), m.get("nid"), m.get("about"), m.get("converted")))
            return out
        want = [("('re:act', 'started')", 0, None, None), ("('re:act', 'succeeded')", None, None, None)]
        want += [("re:ping", k, None, None) for k in range(1, nmsg + 1)]
        want += [("re:pong", None, k, None) for k in range(1, nmsg + 1) if k % 2 == 0]
        want += [("re:diag", None, None, k) for k in sorted(payload_nids)]
        per = {"relay": keys_of(e["m"] for e in tape.entries if e["k"] == "msg" and e["dest"] == "relay"),
               "ref": keys_of(e["m"] for e in tape.entries if e["k"] == "msg" and e["dest"] == "ref")}
        lines = []
        for op in rf.ops:
            if op[0] == "write" and op[1]:
                try:
                    lines.append(_json.loads(bytes(op[1]).decode("utf-8")))
                except Exception as e:
                    problems.append("file destination wrote a line that is not JSON: %r" % (e,))
        per["file"] = keys_of(lines)
        for name, got in per.items():
            if sorted(map(repr, got)) != sorted(map(repr, want)):
                missing = [w for w in want if got.count(w) < 1]
                dup = [g for g in set(got) if got.count(g) > 1]
                problems.append("destination %s was offered %d messages, expected %d (missing %s, more than once %s)" % (name, len(got), len(want), missing[:4], dup[:4]))
        if with_bad:
            nfail = sum(1 for e in tape.entries if e["k"] == "msg" and e["dest"] == "bad" and e.get("failed") and e["m"].get("message_type") != "eliot:destination_failure")
            nrep = sum(1 for e in tape.entries if e["k"] == "msg" and e["dest"] == "ref" and e["m"].get("message_type") == "eliot:destination_failure")
            if nfail != nrep:
                problems.append("%d failed deliveries of non-report messages but %d reports reached the healthy destination" % (nfail, nrep))
    res["evals"] += 1
    c = res["counters"]
    c["reentrant_runs"] = c.get("reentrant_runs", 0) + 1
    c["nested_messages_logged_by_destinations"] = c.get("nested_messages_logged_by_destinations", 0) + len(payload_nids) + nmsg // 2
    res["nontrivial"].append(h(["re", nmsg, sorted(payload_nids), with_bad, [getattr(d, "name", getattr(d, "__name__", type(d).__name__)) for d in dests]]))
    if problems:
        res["violations"].append({"msg": problems[0], "mech": None, "detail": {"label": "reentrant", "problems": problems[:6], "messages": nmsg,
                                                                               "payloads": sorted(payload_nids), "bad": with_bad}})


def _walk(nodes):
    for n in nodes:
        yield n
        for ch in n.get("children", []):
            for x in _walk([ch]):
                yield x


def part_threads(spec, res):
    """Several threads log concurrently while destinations fail: accounting must hold for every interleaving."""
    rng = random.Random("%s:C08:thr:%d" % (spec["seed"], spec["i"]))
    sched.instrument([_output])
    nthreads = rng.choice([2, 2, 3])
    nmsg = rng.choice([1, 2])
    nbad = rng.choice([1, 1, 2])
    masks = []
    for j in range(nbad):
        r = rng.random()
        if r < 0.4:
            masks.append(("all", lambda i: True))
        elif r < 0.7:
            masks.append(("even", lambda i: i % 2 == 0))
        else:
            s = frozenset(i for i in range(40) if rng.random() < 0.5)
            masks.append(("set%s" % sorted(s)[:6], lambda i, s=s: i in s))
    in_action = rng.random() < 0.5
    names = ["T%d" % t for t in range(nthreads)]
    c = res["counters"]

    def execute(plan_, label):
        tape = Tape()
        dests = [MaskedDestination(tape, "ref", lambda i: False, None)]
        for j, (desc, pred) in enumerate(masks):
            nm = "bad%d" % j
            dests.insert(rng.randint(0, len(dests)) if False else (j % (len(dests) + 1)),
                         MaskedDestination(tape, nm, pred, (lambda i, nm=nm: excs.DestFault("%s call %d" % (nm, i)))))
        add_destinations(*dests)
        logged = {t: [] for t in range(nthreads)}

        def worker(t):
            def run():
                if in_action and t == 0:
                    with start_action(action_type="thr:act", t=t, ms=-1):
                        for s in range(nmsg):
                            log_message(message_type="thr:m", t=t, ms=s)
                            logged[t].append(s)
                else:
                    for s in range(nmsg):
                        log_message(message_type="thr:m", t=t, ms=s)
                        logged[t].append(s)
            return run
        try:
            st, errs = sched.run_schedule(plan_, {"T%d" % t: worker(t) for t in range(nthreads)}, timeout=60.0)
        finally:
            for d in dests:
                remove_destination(d)
        res["evals"] += 1
        c["thread_schedules_run"] = c.get("thread_schedules_run", 0) + 1
        problems = ["thread %s raised %r" % (n, e) for n, e in errs.items()]
        if st["deadlock"]:
            problems.append("logging threads deadlocked: %s" % st["deadlock"])
        elif st["aborted"]:
            res["inconclusive"] = "schedule abandoned: %s" % st["aborted"]
            return st
        else:
            per = {d.name: [e for e in tape.entries if e["k"] == "msg" and e["dest"] == d.name] for d in dests}
            refkeys = sorted(key(e["m"]) for e in per["ref"])
            if len(set(refkeys)) != len(refkeys):
                problems.append("reference destination was offered some message twice")
            for d in dests:
                if sorted(key(e["m"]) for e in per[d.name]) != refkeys:
                    problems.append("destination %s was offered a different set of messages than the reference (%d vs %d)" % (d.name, len(per[d.name]), len(refkeys)))
                for t in range(nthreads):
                    seqs = [e["m"]["ms"] for e in per[d.name] if e["m"].get("message_type") == "thr:m" and e["m"].get("t") == t]
                    if seqs != logged[t]:
                        problems.append("destination %s got thread %d's messages as %s, logged %s" % (d.name, t, seqs, logged[t]))
            reports = [e["m"] for e in per["ref"] if is_report(e["m"])]
            reasons = [r.get("reason") for r in reports]
            nfail = 0
            for d in dests:
                for e in per[d.name]:
                    if e.get("failed") and not is_report(e["m"]):
                        nfail += 1
                        text = "%s call %d" % (d.name, e["call"])
                        k = reasons.count(text)
                        if k != 1:
                            problems.append("failed delivery (%s) of message %s%s was reported %d times" % (text, e["m"]["task_uuid"][:6], e["m"]["task_level"], k))
                        else:
                            r = reports[reasons.index(text)]
                            if repr(e["m"]["task_uuid"]) not in str(r.get("message")) or r.get("exception") != excs.qualname(excs.DestFault):
                                problems.append("report for %s does not describe the affected message / exception" % text)
            if len(reports) != nfail:
                problems.append("%d reports for %d failed deliveries of non-report messages" % (len(reports), nfail))
            c["failed_deliveries"] = c.get("failed_deliveries", 0) + nfail
            res["sets"]["interleavings"].append(sched.trace_hash(st))
            for nm, k, loc in st["fired"]:
                res["sets"]["preemption_lines"].append(loc)
            if st["fired"] and nfail:
                res["nontrivial"].append(sched.trace_hash(st))
        if problems and len(res["violations"]) < 3:
            res["violations"].append({"msg": problems[0], "mech": None, "detail": {"label": "threads", "plan": plan_, "masks": [m[0] for m in masks],
                                                                                   "problems": problems[:6], "schedule_kind": label}})
        return st

    base = None
    for order in itertools.permutations(names):
        base = execute({"order": list(order), "changes": []}, "baseline")
        if base["aborted"]:
            continue
        for p in sched.one_preemption_plans(list(order), base["events"]):
            execute(p, "1-preemption")
            if len(res["violations"]) >= 3:
                return
    for p in sched.sampled_plans(rng, names, base["events"], 40 if spec["tier"] == "quick" else 400):
        execute(p, "sampled")


def part_signals(spec, res):
    """The fan-out under same-thread re-entry: a signal handler that logs is delivered at every point inside the program's logging calls at
    which CPython can run one (vf/sigreent.py), with a destination that fails on every n-th call registered before or between two accepting
    destinations. One forked process per point."""
    from vf import sigreent
    from vf.forkrun import call_in_fork
    i = spec["i"]
    rng = random.Random("%s:C08:sig:%d" % (spec["seed"], i // 2))
    prog = sigreent.gen_program(rng)
    hk = ["msg", "action", "typed", "msg"][i % 4]
    fo = {"before": i % 2 == 0, "fail_every": 2 + (i // 2) % 3}
    c = res["counters"]
    res["sets"]["signal_points"] = []
    kind, base = call_in_fork(lambda: sigreent.run_once(prog, 0, hk, fo), timeout=120)
    if kind != "ok" or base.get("skip"):
        res["inconclusive"] = "signals: baseline run %s %s" % (kind, str(base)[-200:])
        return
    for k in range(1, base["points"] + 1):
        kind, d = call_in_fork(lambda: sigreent.run_once(prog, k, hk, fo), timeout=120)
        res["evals"] += 1
        if kind in ("timeout", "died"):
            res["inconclusive"] = "signals: child %s at point %d" % (kind, k)
            return
        problems = []
        if kind != "ok":
            problems.append("run failed: %s" % str(d)[-400:])
        else:
            if d["handler_runs"] != 1:
                continue
            c["signal_handlers_run_inside_the_fan_out"] = c.get("signal_handlers_run_inside_the_fan_out", 0) + int(bool(d["fired"]) and "_send" in d["fired"])
            c["signal_handlers_run_inside_a_logging_call"] = c.get("signal_handlers_run_inside_a_logging_call", 0) + 1
            c["failed_deliveries_with_a_signal_handler_logging"] = c.get("failed_deliveries_with_a_signal_handler_logging", 0) + len(d["faulty"]["failed"])
            res["sets"]["signal_points"].append(d["fired"])
            res["nontrivial"].append(h(["sig", i, k]))
            sigreent.judge_fanout(d, problems)
        if problems and len(res["violations"]) < 3:
            where = d["fired"] if kind == "ok" else "?"
            res["violations"].append({"msg": "a signal handler that logs (%s) ran at %s, in the middle of a logging call, with a failing destination %s the accepting ones: %s" % (
                hk, where, "before" if fo["before"] else "between", problems[0]), "mech": None,
                "detail": {"part": "signals", "program": prog, "handler": hk, "fanout": fo, "point": k, "landed_at": where, "problems": problems[:5]}})


def run_case(spec):
    res = {"evals": 0, "nontrivial": [], "counters": {}, "violations": [], "sample": None, "sets": {"interleavings": [], "preemption_lines": []}}
    if spec["part"] == "signals":
        part_signals(spec, res)
        return res
    if spec["part"] == "prebuffered":
        part_prebuffered(spec, res)
        return res
    if spec["part"] == "threads":
        part_threads(spec, res)
        return res
    if spec["part"] == "reentrant":
        part_reentrant(spec, res)
        return res
    if spec["part"] == "interrupted_report":
        part_interrupted_report(spec, res)
        return res
    if spec["part"] == "deferred":
        part_deferred(spec, res)
        return res
    if spec["part"] == "globaltype":
        part_globaltype(spec, res)
        return res
    if spec["part"] == "tuples":
        part_tuples(spec, res)
        return res
    if spec["part"] == "mainmodule":
        part_mainmodule(spec, res)
        return res
    if spec["part"] == "random":
        for i in range(spec["lo"], spec["hi"]):
            rng = random.Random("%s:C08:%d" % (spec["seed"], i))
            g = gen.ProgGen(rng, max_depth=rng.choice([2, 3, 4]), max_nodes=rng.choice([6, 15, 30]), value_depth=1)
            prog = g.program()
            st = gen.prog_stats(prog)
            nbad = rng.choice([0, 1, 1, 2, 2, 3])
            dspec = [("ref",)]
            for j in range(nbad):
                desc, pred = faults.gen_mask(rng, st["nodes"] * 2)
                ename, fac = faults.exc_factory(rng)
                dspec.insert(rng.randint(0, len(dspec)), ("bad", pred, fac, desc + ":" + ename))

            if rng.random() < 0.12:
                # a file destination whose file was closed under it, registered ahead of or behind the others
                dspec.insert(rng.randint(0, len(dspec)), ("closed", None, None, "closed-file"))
                nbad += 1
            sinkbound = rng.random() < 0.25

            def body(tape, problems, prog=prog, sinkbound=sinkbound):
                it = Interp(tape=tape)
                it.explicit_loggers = True
                if sinkbound:
                    # the program runs inside an action that is bound to a logger object of its own (an in-memory sink): reports
                    # about failed deliveries of the messages that do go to the destinations still have to reach the destinations
                    from vf.interp import _Sink
                    res["counters"]["programs_inside_sink_bound_action"] = res["counters"].get("programs_inside_sink_bound_action", 0) + 1
                    with start_action(_Sink(), "c08:sinkbound"):
                        it.run(prog)
                else:
                    it.run(prog)
                problems.extend(v["msg"] for v in it.violations if v["msg"].startswith("eliot API call"))
            tape = run_with(dspec, body, res, "random", gen.prog_shape(prog))
            if res["sample"] is None and nbad and st["nodes"] <= 4:
                res["sample"] = {"program": prog, "masks": [d[3] for d in dspec if d[0] in ("bad", "closed")],
                                 "offers": [(e["dest"], e["m"].get("message_type") or e["m"].get("action_status"), e.get("failed")) for e in tape.entries if e["k"] == "msg"][:40]}
    elif spec["part"] == "enum":
        D, K = spec["D"], spec["K"]
        for code in range(spec["lo"], spec["hi"]):
            dspec = []
            for d in range(D):
                bits = (code >> (d * K)) & ((1 << K) - 1)
                s = frozenset(i for i in range(K) if bits >> i & 1)
                dspec.append(("bad", (lambda i, s=s: i in s), (lambda i: excs.DestFault("enum call %d" % i)), "bits:%s" % sorted(s)))
            dspec.insert(code % (D + 1), ("ref",))

            def body(tape, problems):
                with start_action(action_type="enum", nid=1):
                    log_message(message_type="enum:m", nid=2)
            run_with(dspec, body, res, "enum", "D%dK%d" % (D, K))
            res["counters"]["enumerated_mask_combinations"] = res["counters"].get("enumerated_mask_combinations", 0) + 1
    else:
        rng = random.Random("%s:C08:storm:%d" % (spec["seed"], spec["i"]))
        ename, fac = faults.exc_factory(rng)
        dspec = [("bad", (lambda i: True), fac, "all:" + ename), ("ref",)]
        if rng.random() < 0.5:
            dspec.reverse()
        if rng.random() < 0.5:
            dspec.append(("bad", (lambda i: True), fac, "all:" + ename))

        def body(tape, problems):
            with start_action(action_type="storm", nid=0):
                for k in range(1000):
                    log_message(message_type="storm:m", nid=k + 1)
        run_with(dspec, body, res, "storm", "storm")
        res["counters"]["storm_runs"] = 1
    return res


def finalize(agg, tier):
    c = agg["counters"]
    if c.get("failed_deliveries", 0) < 1000 or c.get("failures_while_delivering_reports", 0) < 100:
        return "too few failed deliveries / failures on reports observed"
    if c.get("prebuffered_runs", 0) < 100 or c.get("thread_schedules_run", 0) < 500:
        return "too few prebuffered runs / thread schedules"
    if c.get("signal_handlers_run_inside_the_fan_out", 0) < 100 or c.get("failed_deliveries_with_a_signal_handler_logging", 0) < 100:
        return "part 'signals': fewer than 100 logging signal handlers ran inside the fan-out loop / fewer than 100 failed deliveries there"
    if c.get("failures_on_messages_logged_by_deferred_work", 0) < 20 or c.get("deferred_work_scheduled_while_a_report_was_delivered", 0) < 20:
        return "part 'deferred' rarely reached a failure on a message logged by work scheduled while a report was being delivered"
    if c.get("report_rendering_fields_judged", 0) < 1000:
        return "the rendering clause (field name with repr(value) in the report's message text) judged too few fields"
    for k in ("report_rendering_fields_holding_tuples_judged", "report_rendering_empty_tuples_judged", "report_rendering_one_element_tuples_judged",
              "report_rendering_dicts_with_tuple_keys_judged"):
        if c.get(k, 0) < 50:
            return "part 'tuples' rarely reached a failure report about a message with tuple-valued fields (%s = %d)" % (k, c.get(k, 0))
    by = c.get("main_module_runs_by_launch", {})
    for launch in ("-m module", "-m package", "script"):
        if by.get(launch, 0) < 1:
            return "part 'mainmodule' never completed a program started with `python %s`" % {"-m module": "-m prog", "-m package": "-m pkg", "script": "prog.py"}[launch]
    if c.get("main_module_reports_judged_with_a_main_spec", 0) < 2:
        return "part 'mainmodule' judged no failure report in an interpreter whose main module has a __spec__ (python -m ...)"
    return None
