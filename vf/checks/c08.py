"""C08 - per-destination exactly-once, ordered delivery; faults isolated and reported (accounting checker)."""

from vf import sched

sched.install()  # before eliot is imported (part 'threads' runs under the line-granular scheduler)

import itertools
import random

from eliot import add_destinations, log_message, remove_destination, start_action
from eliot import _output

from vf import excs, faults, gen
from vf.interp import Interp
from vf.runner import h
from vf.tape import MaskedDestination, Recorder, Tape

ID = "C08"
LEVEL = "fault_enumeration"
RULE = ("1-4 destinations (one always-healthy reference at a random position, the others failing on the calls selected by a mask over "
        "their own call index, exception classes incl. one whose str() raises) receive ProgGen programs through the production "
        "Logger. part 'enum': ALL masks over the first K calls of D destinations on a fixed 3-message program (quick D=2,K=4; thorough "
        "also D=3,K=4 and D=2,K=6). part 'storm': permanently failing destination x 1000 messages. Oracle: every destination is offered "
        "the identical sequence; non-report messages exactly once each; after each message its failures are reported in destination "
        "order by exactly one eliot:destination_failure each (exception=module.Class, reason=str(exc), message rendering naming the "
        "affected message's task_uuid and task_level); failures on reports produce no report; report count == failed non-report "
        "deliveries. part 'prebuffered': a program is logged BEFORE the first add_destinations (fresh process), then the "
        "destinations (some failing) are added and a second program runs: the same accounting over re-delivered and later messages. "
        "part 'threads': 2-3 threads log while 1-2 destinations fail, under the line-granular scheduler (LINE events on "
        "eliot/_output.py), all one-preemption schedules per priority order + sampled deeper ones: every destination is offered the "
        "same set of messages once, per-thread order kept, every failed delivery reported exactly once. part 'reentrant': destinations that log while handling a message (a relay answering "
        "with a message of its own, a FileDestination whose json_default logs a diagnostic, optionally a failing one in between) run as a one-thread "
        "schedule: no self-deadlock, every destination offered every outer and nested message exactly once, reports == failed deliveries. part 'interrupted_report': 2-3 destinations fail on one message and the delivery of the first report "
        "is cut short by a non-Exception from another destination: the healthy destination (registered first) is still offered one report per failure. A quarter of the random programs run inside an action bound to a logger object of its "
        "own, half of the hand-overs happen inside an open action (a third of those inside an action bound to a MemoryLogger: recorded finding). Destination exceptions include ones whose text is the empty string (raised without arguments). part 'deferred': a destination schedules follow-up work for what it is offered, reports included (loop.call_soon, a new asyncio task, a saved copy_context()), which later logs a message of its own; a failure on that message is reported like any other. non-trivial = >=2 faulty destinations or a mask that hits a report; distinct by (program shape, masks)")
ASSUMPTIONS = ["destinations raise Exception subclasses (part 'interrupted_report' alone lets one raise a non-Exception, and only while it is offered a failure report)", "under concurrency only per-destination sets, per-thread order and report counts are judged "
               "(destinations may legitimately see different total orders)"]
EXHAUSTIVE_NOTE = "part 'enum' enumerates every failure mask over the first K calls of D destinations"
BATCH = 100


def plan(tier, seed):
    n = 20000 if tier == "quick" else 200000
    specs = [{"part": "random", "seed": seed, "lo": i, "hi": min(n, i + BATCH)} for i in range(0, n, BATCH)]
    combos = [(2, 4)] if tier == "quick" else [(2, 4), (3, 4), (2, 6), (1, 8)]
    for D, K in combos:
        total = 2 ** (D * K)
        step = 64
        for lo in range(0, total, step):
            specs.append({"part": "enum", "seed": seed, "D": D, "K": K, "lo": lo, "hi": min(total, lo + step)})
    for j in range(2 if tier == "quick" else 8):
        specs.append({"part": "storm", "seed": seed, "i": j})
    for j in range(600 if tier == "quick" else 6000):
        specs.append({"part": "prebuffered", "seed": seed, "i": j})
    for j in range(16 if tier == "quick" else 200):
        specs.append({"part": "threads", "seed": seed, "i": j, "tier": tier})
    for j in range(300 if tier == "quick" else 3000):
        specs.append({"part": "reentrant", "seed": seed, "i": j})
    for j in range(100 if tier == "quick" else 1000):
        specs.append({"part": "interrupted_report", "seed": seed, "i": j})
    for j in range(300 if tier == "quick" else 3000):
        specs.append({"part": "deferred", "seed": seed, "i": j})
    for j in range(12 if tier == "quick" else 120):
        specs.append({"part": "globaltype", "seed": seed, "i": j})
    return specs


def key(m):
    return (m["task_uuid"], tuple(m["task_level"]))


def is_report(m):
    return m.get("message_type") == "eliot:destination_failure"


def account(tape, names, ref, problems):
    """The oracle. names: destination names in registration order."""
    per = {n: [e for e in tape.entries if e["k"] == "msg" and e["dest"] == n] for n in names}
    refseq = [key(e["m"]) for e in per[ref]]
    if len(set(refseq)) != len(refseq):
        problems.append("reference destination was offered some message twice")
    for n in names:
        seq = [key(e["m"]) for e in per[n]]
        if seq != refseq:
            a, b = seq, refseq
            i = next((j for j in range(min(len(a), len(b))) if a[j] != b[j]), min(len(a), len(b)))
            problems.append("destination %s was offered %d messages, reference %d; sequences diverge at offer %d" % (n, len(a), len(b), i))
    # walk the reference sequence: message, then its reports in destination order
    failures_total = 0
    reports_total = 0
    hits_report = 0
    idx = 0
    refmsgs = [e["m"] for e in per[ref]]
    while idx < len(refmsgs):
        m = refmsgs[idx]
        if is_report(m):
            problems.append("report at reference offer %d is not preceded by a failed delivery" % idx)
            idx += 1
            continue
        failed = []
        for n in names:
            if idx < len(per[n]) and per[n][idx].get("failed"):
                failed.append(n)
        failures_total += len(failed)
        j = idx + 1
        for n in failed:
            if j >= len(refmsgs) or not is_report(refmsgs[j]):
                problems.append("failure of destination %s on message %s%s was not reported (next offer is %s)" % (
                    n, m["task_uuid"][:8], m["task_level"], "missing" if j >= len(refmsgs) else "not a report"))
                break
            r = refmsgs[j]
            reports_total += 1
            dest = tape_dest[n]
            call = per[n][idx]["call"]
            exc = dict(dest.failed)[call]
            if r.get("exception") != excs.qualname(type(exc)):
                problems.append("report names exception %r, destination raised %s" % (r.get("exception"), excs.qualname(type(exc))))
            ok, text = excs.safe_text(exc)
            if ok and r.get("reason") != text:
                problems.append("report reason %r, exception text %r" % (r.get("reason"), text))
            if not isinstance(r.get("reason"), str):
                problems.append("report reason is not text")
            rendering = r.get("message")
            if not isinstance(rendering, str) or repr(m["task_uuid"]) not in rendering or repr(m["task_level"]) not in rendering:
                problems.append("report's message rendering %r does not show the affected message %s%s" % (rendering, m["task_uuid"][:8], m["task_level"]))
            if "nid" in m and ("'nid'" not in rendering or repr(str(m["nid"])) not in rendering and repr(m["nid"]) not in rendering):
                problems.append("report's message rendering does not show the affected message's nid field")
            # failures while delivering the report are not reported
            for n2 in names:
                if j < len(per[n2]) and per[n2][j].get("failed"):
                    hits_report += 1
            j += 1
        if j < len(refmsgs) and is_report(refmsgs[j]) and len(problems) == 0:
            problems.append("more reports than failed deliveries after message %s%s" % (m["task_uuid"][:8], m["task_level"]))
        idx = j
        while idx < len(refmsgs) and is_report(refmsgs[idx]) and problems:
            idx += 1
    n_reports = sum(1 for m in refmsgs if is_report(m))
    if n_reports != failures_total:
        problems.append("%d eliot:destination_failure messages for %d failed deliveries of non-report messages" % (n_reports, failures_total))
    return failures_total, hits_report


tape_dest = {}


def run_with(dests_spec, body, res, label, shape):
    """dests_spec: list of ("ref",) or ("bad", predicate, exc_factory, desc)."""
    tape = Tape()
    dests = []
    names = []
    tape_dest.clear()
    for j, d in enumerate(dests_spec):
        if d[0] == "ref":
            obj = MaskedDestination(tape, "ref", lambda i: False, None)
            names.append("ref")
        elif d[0] == "closed":
            from vf.tape import ClosedFileDestination
            name = "bad%d" % j
            obj = ClosedFileDestination(tape, name)
            names.append(name)
        else:
            name = "bad%d" % j
            obj = MaskedDestination(tape, name, d[1], d[2])
            names.append(name)
        tape_dest[names[-1]] = obj
        dests.append(obj)
    add_destinations(*dests)
    problems = []
    try:
        body(tape, problems)
    except BaseException as e:
        problems.append("logging raised %r" % (e,))
    finally:
        for d in dests:
            try:
                remove_destination(d)
            except ValueError:
                problems.append("destination %s is no longer registered at the end although the program never removed it" % getattr(d, "name", d))
    failures, hits_report = account(tape, names, "ref", problems)
    c = res["counters"]
    c["offers_checked"] = c.get("offers_checked", 0) + sum(1 for e in tape.entries if e["k"] == "msg")
    c["failed_deliveries"] = c.get("failed_deliveries", 0) + failures
    c["failures_while_delivering_reports"] = c.get("failures_while_delivering_reports", 0) + hits_report
    res["evals"] += 1
    nbad = sum(1 for d in dests_spec if d[0] in ("bad", "closed"))
    if failures and (nbad >= 2 or hits_report):
        res["nontrivial"].append(h([shape, [d[3] for d in dests_spec if d[0] in ("bad", "closed")], label]))
    if problems:
        res["violations"].append({"msg": problems[0], "mech": None, "detail": {"label": label, "problems": problems[:10],
                                                                               "masks": [d[3] for d in dests_spec if d[0] in ("bad", "closed")], "shape": shape}})
    return tape


class EqualRecorder(object):
    """Healthy destination with value equality: all instances compare equal (like a dataclass without fields)."""

    def __init__(self, tape, name):
        self.tape = tape
        self.name = name

    def __eq__(self, other):
        return isinstance(other, EqualRecorder)

    def __hash__(self):
        return 7

    def __call__(self, m):
        self.tape.add("msg", dest=self.name, m=dict(m))


def part_prebuffered(spec, res):
    """Messages logged before the first add_destinations are re-delivered by that call: faults on them count like any other."""
    rng = random.Random("%s:C08:pre:%d" % (spec["seed"], spec["i"]))
    g1 = gen.ProgGen(rng, max_depth=3, max_nodes=rng.choice([2, 5, 10]), value_depth=0, remote_vias=("same",))
    g2 = gen.ProgGen(rng, max_depth=3, max_nodes=rng.choice([2, 5]), value_depth=0, remote_vias=("same",))
    p1, p2 = g1.program(), g2.program()
    for n in _walk(p2):
        n["nid"] += 1000
    tape = Tape()
    names = []
    dests = []
    tape_dest.clear()
    dspec = [("ref",)]
    for j in range(rng.choice([1, 1, 2])):
        desc, pred = faults.gen_mask(rng, 12)
        ename, fac = faults.exc_factory(rng)
        dspec.insert(rng.randint(0, len(dspec)), ("bad", pred, fac, desc + ":" + ename))
    for j, d in enumerate(dspec):
        name = "ref" if d[0] == "ref" else "bad%d" % j
        obj = MaskedDestination(tape, name, (lambda i: False) if d[0] == "ref" else d[1], None if d[0] == "ref" else d[2])
        names.append(name)
        tape_dest[name] = obj
        dests.append(obj)
    problems = []
    it = Interp(tape=tape)
    # two further destinations that compare EQUAL to each other (value objects) but are distinct: both must be served
    twins = [EqualRecorder(tape, "twin0"), EqualRecorder(tape, "twin1")]
    foreign = [None]

    def body():
        it.run(p1)  # buffered: no destination exists yet
        if spec["i"] % 2:
            # logging is set up from inside an action (a main() wrapped in one): reports about re-delivered messages are
            # logged while that action is current
            res["counters"]["handovers_inside_an_action"] = res["counters"].get("handovers_inside_an_action", 0) + 1
            if spec["i"] % 6 == 5:
                # ... an action bound to a logger object of its own (recorded finding: reports about re-delivered messages go to THAT logger)
                from eliot import MemoryLogger
                foreign[0] = MemoryLogger()
                with start_action(foreign[0], action_type="c08:setup", nid=999):
                    add_destinations(*dests)
            else:
                with start_action(action_type="c08:setup", nid=999):
                    add_destinations(*dests)
        else:
            add_destinations(*dests)
        add_destinations(twins[0])
        add_destinations(twins[1])
        it.forest = []
        it.run(p2)
    # run as the only registered thread of a schedule: if the hand-over blocks on a lock it holds itself, the scheduler
    # reports a deadlock instead of the case hanging
    st, errs = sched.run_schedule({"order": ["main"], "changes": []}, {"main": body}, timeout=120.0)
    for e in errs.values():
        problems.append("logging raised %r" % (e,))
    if st["deadlock"]:
        problems.append("logging / add_destinations deadlocked: %s" % st["deadlock"])
    elif st["aborted"]:
        res["inconclusive"] = "prebuffered run abandoned: %s" % st["aborted"]
    for tw in twins:
        try:
            remove_destination(tw)
        except ValueError:
            pass
    t0 = [key(e["m"]) for e in tape.entries if e["k"] == "msg" and e["dest"] == "twin0"]
    t1 = [key(e["m"]) for e in tape.entries if e["k"] == "msg" and e["dest"] == "twin1"]
    if not st["aborted"] and (not t1 or t1 != t0[len(t0) - len(t1):]):
        problems.append("of two equal-but-distinct destinations registered one after the other, the second received %d messages, the first %d" % (len(t1), len(t0)))
    problems.extend(v["msg"] for v in it.violations if v["msg"].startswith("eliot API call"))
    failures, hits_report = account(tape, names, "ref", problems)
    c = res["counters"]
    c["prebuffered_runs"] = c.get("prebuffered_runs", 0) + 1
    c["failed_deliveries"] = c.get("failed_deliveries", 0) + failures
    c["offers_checked"] = c.get("offers_checked", 0) + sum(1 for e in tape.entries if e["k"] == "msg")
    res["evals"] += 1
    if failures:
        res["nontrivial"].append(h(["pre", gen.prog_shape(p1), gen.prog_shape(p2), [d[3] for d in dspec if d[0] in ("bad", "closed")]]))
    if problems:
        mech = None
        if foreign[0] is not None and any(m.get("message_type") == "eliot:destination_failure" for m in foreign[0].messages):
            mech = "handover-report-to-foreign-logger"
        res["violations"].append({"msg": problems[0], "mech": mech, "detail": {"label": "prebuffered", "problems": problems[:8], "buffered_program": p1,
                                                                               "later_program": p2, "masks": [d[3] for d in dspec if d[0] in ("bad", "closed")]}})


def part_interrupted_report(spec, res):
    """Two destinations fail on the same message; while the report about the FIRST failure is being delivered, a destination
    raises something that is not an Exception (KeyboardInterrupt during a slow write, a cancellation): that report's delivery is cut
    short, but the second failure is still reported. The healthy destination is registered first, so it is offered everything."""
    rng = random.Random("%s:C08:ir:%d" % (spec["seed"], spec["i"]))
    got = []

    def ref(m):
        got.append(dict(m))
    reports_seen = [0]
    interrupt = rng.choice([KeyboardInterrupt, excs.UserBase, SystemExit, GeneratorExit])

    def interrupter(m):
        if m.get("message_type") == "eliot:destination_failure":
            reports_seen[0] += 1
            if reports_seen[0] == 1:
                raise interrupt("while the first report is delivered")
    nbad = rng.choice([2, 2, 3])
    target = rng.randint(1, 4)

    def make_bad(j):
        def bad(m):
            if m.get("n") == target:
                raise excs.DestFault("destination %d fails on message %d" % (j, target))
        return bad
    others = [make_bad(j) for j in range(nbad)] + [interrupter]
    rng.shuffle(others)
    dests = [ref] + others
    add_destinations(*dests)
    problems = []
    try:
        with start_action(action_type="ir:act"):
            for n in range(1, 6):
                log_message(message_type="ir:m", n=n)
    except BaseException as e:
        problems.append("logging raised %r" % (e,))
    finally:
        for d in dests:
            remove_destination(d)
    reps = [m for m in got if m.get("message_type") == "eliot:destination_failure"]
    if len(reps) != nbad:
        problems.append("%d destinations failed on one message (delivery of the first report was interrupted by %s): the healthy destination was offered %d reports" % (
            nbad, interrupt.__name__, len(reps)))
    if [m.get("n") for m in got if m.get("message_type") == "ir:m"] != [1, 2, 3, 4, 5]:
        problems.append("the healthy destination did not receive the five messages once each, in order")
    res["evals"] += 1
    c = res["counters"]
    c["interrupted_report_runs"] = c.get("interrupted_report_runs", 0) + 1
    res["nontrivial"].append(h(["ir", nbad, target, interrupt.__name__, [getattr(d, "__name__", "") for d in dests]]))
    if problems:
        res["violations"].append({"msg": problems[0], "mech": None, "detail": {"label": "interrupted_report", "problems": problems[:4]}})


def part_deferred(spec, res):
    """A destination that hands follow-up work to later: for what it is offered (ordinary messages and failure reports alike) it
    schedules a callback - loop.call_soon, a new asyncio task, or a saved contextvars.copy_context() - which later logs a message
    of its own. Whatever execution context that follow-up work inherited, a destination failing on ITS message is reported like any
    other failure, and the healthy destination is offered everything once."""
    import asyncio
    import contextvars
    rng = random.Random("%s:C08:df:%d" % (spec["seed"], spec["i"]))
    mode = rng.choice(["copy_context", "call_soon", "create_task"])
    nmsg = rng.randint(2, 8)
    got, failed, pending = [], [], []
    counter = [0]
    follow_budget = [30]
    loop_box = [None]
    desc, pred = faults.gen_mask(rng, nmsg * 4)
    bad_calls = [0]

    def ref(m):
        got.append(dict(m))

    def bad(m):
        i = bad_calls[0]
        bad_calls[0] += 1
        if pred(i):
            failed.append(dict(m))
            raise excs.DestFault("deferred part, call %d" % i)

    def follow(about):
        counter[0] += 1
        log_message(message_type="df:shipped", about=about, k=counter[0])

    async def follow_coro(about):
        follow(about)

    def shipper(m):
        if m.get("message_type") == "df:shipped" or follow_budget[0] <= 0:
            return
        follow_budget[0] -= 1
        about = "report" if is_report(m) else m.get("n", "action")
        if mode == "copy_context":
            pending.append((contextvars.copy_context(), about))
        elif mode == "call_soon":
            loop_box[0].call_soon(follow, about)
        else:
            loop_box[0].create_task(follow_coro(about))

    def drain():
        while pending:
            ctx, about = pending.pop(0)
            ctx.run(follow, about)

    dests = [ref, bad, shipper]
    rng.shuffle(dests)
    problems = []
    add_destinations(*dests)
    try:
        if mode == "copy_context":
            with start_action(action_type="df:act"):
                for n in range(1, nmsg + 1):
                    log_message(message_type="df:m", n=n)
                    drain()
            drain()
        else:
            async def main():
                loop_box[0] = asyncio.get_running_loop()
                with start_action(action_type="df:act"):
                    for n in range(1, nmsg + 1):
                        log_message(message_type="df:m", n=n)
                        await asyncio.sleep(0)
                for _ in range(200):
                    before = len(got)
                    await asyncio.sleep(0)
                    await asyncio.sleep(0)
                    if len(got) == before:
                        break
            asyncio.run(main())
    except BaseException as e:
        problems.append("logging raised %r" % (e,))
    finally:
        for d in dests:
            remove_destination(d)
    reps = [m for m in got if is_report(m)]
    failed_plain = [m for m in failed if not is_report(m)]
    if len(reps) != len(failed_plain):
        kinds = sorted(set(str(m.get("message_type") or m.get("action_type")) for m in failed_plain))
        problems.append("a destination failed on %d messages that are not failure reports (%s; follow-up work scheduled by a destination via %s "
                        "logged part of them), but %d eliot:destination_failure reports reached the healthy destination" % (
                            len(failed_plain), ", ".join(kinds), mode, len(reps)))
    if [m.get("n") for m in got if m.get("message_type") == "df:m"] != list(range(1, nmsg + 1)):
        problems.append("the healthy destination did not receive the program's messages once each, in order")
    ks = [m.get("k") for m in got if m.get("message_type") == "df:shipped"]
    if ks != list(range(1, counter[0] + 1)):
        problems.append("the healthy destination did not receive the follow-up messages once each, in order: %r of %d" % (ks[:10], counter[0]))
    res["evals"] += 1
    c = res["counters"]
    c["deferred_runs"] = c.get("deferred_runs", 0) + 1
    c["failures_on_messages_logged_by_deferred_work"] = c.get("failures_on_messages_logged_by_deferred_work", 0) + sum(
        1 for m in failed_plain if m.get("message_type") == "df:shipped")
    c["deferred_work_scheduled_while_a_report_was_delivered"] = c.get("deferred_work_scheduled_while_a_report_was_delivered", 0) + sum(
        1 for m in got if m.get("message_type") == "df:shipped" and m.get("about") == "report")
    res["nontrivial"].append(h(["df", mode, nmsg, desc, [d.__name__ for d in dests]]))
    if problems:
        res["violations"].append({"msg": problems[0], "mech": None, "detail": {"label": "deferred", "mode": mode, "mask": desc, "problems": problems[:6]}})


def part_globaltype(spec, res):
    """Global fields may have any name - also message_type. A destination that keeps failing gets each message and the one report
    about its failure, and no more (it recovers after a bounded number of calls so that an unbounded chain of reports stays finite here)."""
    from eliot import add_global_fields
    rng = random.Random("%s:C08:gt:%d" % (spec["seed"], spec["i"]))
    name = ["message_type", "message_type", "action_type", "reason", "exception", "message"][spec["i"] % 6]
    add_global_fields(**{name: rng.choice(["app:global", "eliot:destination_failure:not", 7])})
    nmsg = rng.randint(1, 4)
    budget = [rng.randint(8, 14)]
    calls, got = [0], []

    def bad(m):
        calls[0] += 1
        if budget[0] > 0:
            budget[0] -= 1
            raise excs.DestFault("always failing (call %d)" % calls[0])

    def ref(m):
        got.append(dict(m))
    dests = [bad, ref] if spec["i"] % 2 else [ref, bad]
    add_destinations(*dests)
    problems = []
    try:
        for n in range(nmsg):
            log_message(message_type="gt:m", n=n)
    except BaseException as e:
        problems.append("logging raised %r" % (e,))
    finally:
        for d in dests:
            remove_destination(d)
    failed_calls = min(calls[0], calls[0] - max(0, 0))  # (all calls while the budget lasted failed)
    originals = [m for m in got if m.get("n") is not None and "message" not in m or (name == "message" and m.get("n") is not None and "reason" not in m)]
    if len(got) > 2 * nmsg:
        problems.append("with a global field named %s set, %d messages were logged and one destination kept failing: the healthy destination was offered %d messages "
                        "(at most one report per message is due: failures while delivering a report are not reported), the failing one was called %d times" % (
                            name, nmsg, len(got), calls[0]))
    if len(got) < nmsg:
        problems.append("the healthy destination was offered %d messages, %d were logged" % (len(got), nmsg))
    res["evals"] += 1
    c = res["counters"]
    c["global_field_named_like_eliot_fields_runs"] = c.get("global_field_named_like_eliot_fields_runs", 0) + 1
    res["nontrivial"].append(h(["gt", name, nmsg, spec["i"] % 2]))
    if problems:
        res["violations"].append({"msg": problems[0], "mech": None, "detail": {"label": "globaltype", "global_field": name, "problems": problems[:4]}})


class Payload(object):
    def __init__(self, v):
        self.v = v


def part_reentrant(spec, res):
    """Destinations that themselves log while they handle a message: a relay that answers selected messages with a message of
    its own, a file destination whose json_default logs a diagnostic for every value it has to convert, an exception-raising one
    in between. Run as the only registered thread of a schedule, so that re-entering the output stage on a lock the thread already
    holds is a verdict. Every destination is offered every message - the program's and the nested ones - exactly once."""
    import json as _json
    from eliot import FileDestination
    from eliot.json import json_default
    from vf.tape import RecordingFile
    rng = random.Random("%s:C08:re:%d" % (spec["seed"], spec["i"]))
    tape = Tape()
    ref = Recorder(tape, "ref", deep=False)
    nmsg = rng.randint(2, 8)

    def relay(m):
        tape.add("msg", dest="relay", m=dict(m))
        if m.get("message_type") == "re:ping" and m["nid"] % 2 == 0:
            log_message(message_type="re:pong", about=m["nid"])

    def logging_default(o):
        if isinstance(o, Payload):
            log_message(message_type="re:diag", converted=o.v)
            return {"payload": o.v}
        return json_default(o)
    rf = RecordingFile("b")
    filedest = FileDestination(file=rf, json_default=logging_default)
    dests = [relay, filedest, ref]
    with_bad = rng.random() < 0.4
    if with_bad:
        dests.append(MaskedDestination(tape, "bad", (lambda i: i % 3 == 1), (lambda i: excs.DestFault("re-entrant part, call %d" % i))))
    rng.shuffle(dests)
    payload_nids = set()

    def body():
        with start_action(action_type="re:act", nid=0):
            for k in range(1, nmsg + 1):
                if rng.random() < 0.5:
                    payload_nids.add(k)
                    log_message(message_type="re:ping", nid=k, data=Payload(k))
                else:
                    log_message(message_type="re:ping", nid=k)
    add_destinations(*dests)
    try:
        st, errs = sched.run_schedule({"order": ["main"], "changes": []}, {"main": body}, timeout=120.0)
    finally:
        for d in dests:
            try:
                remove_destination(d)
            except ValueError:
                pass
    problems = ["logging raised %r" % (e,) for e in errs.values()]
    if st["deadlock"]:
        problems.append("a destination that logs while handling a message blocked the output stage: %s" % st["deadlock"])
    elif st["aborted"]:
        res["inconclusive"] = "re-entrant run abandoned: %s" % st["aborted"]
    else:
        def keys_of(msgs):
            out = []
            for m in msgs:
                t = m.get("message_type") or (m.get("action_type"), m.get("action_status"))
                if t == "eliot:destination_failure":
                    continue
                out.append((str(t), m.get("nid"), m.get("about"), m.get("converted")))
            return out
        want = [("('re:act', 'started')", 0, None, None), ("('re:act', 'succeeded')", None, None, None)]
        want += [("re:ping", k, None, None) for k in range(1, nmsg + 1)]
        want += [("re:pong", None, k, None) for k in range(1, nmsg + 1) if k % 2 == 0]
        want += [("re:diag", None, None, k) for k in sorted(payload_nids)]
        per = {"relay": keys_of(e["m"] for e in tape.entries if e["k"] == "msg" and e["dest"] == "relay"),
               "ref": keys_of(e["m"] for e in tape.entries if e["k"] == "msg" and e["dest"] == "ref")}
        lines = []
        for op in rf.ops:
            if op[0] == "write" and op[1]:
                try:
                    lines.append(_json.loads(bytes(op[1]).decode("utf-8")))
                except Exception as e:
                    problems.append("file destination wrote a line that is not JSON: %r" % (e,))
        per["file"] = keys_of(lines)
        for name, got in per.items():
            if sorted(map(repr, got)) != sorted(map(repr, want)):
                missing = [w for w in want if got.count(w) < 1]
                dup = [g for g in set(got) if got.count(g) > 1]
                problems.append("destination %s was offered %d messages, expected %d (missing %s, more than once %s)" % (name, len(got), len(want), missing[:4], dup[:4]))
        if with_bad:
            nfail = sum(1 for e in tape.entries if e["k"] == "msg" and e["dest"] == "bad" and e.get("failed") and e["m"].get("message_type") != "eliot:destination_failure")
            nrep = sum(1 for e in tape.entries if e["k"] == "msg" and e["dest"] == "ref" and e["m"].get("message_type") == "eliot:destination_failure")
            if nfail != nrep:
                problems.append("%d failed deliveries of non-report messages but %d reports reached the healthy destination" % (nfail, nrep))
    res["evals"] += 1
    c = res["counters"]
    c["reentrant_runs"] = c.get("reentrant_runs", 0) + 1
    c["nested_messages_logged_by_destinations"] = c.get("nested_messages_logged_by_destinations", 0) + len(payload_nids) + nmsg // 2
    res["nontrivial"].append(h(["re", nmsg, sorted(payload_nids), with_bad, [getattr(d, "name", getattr(d, "__name__", type(d).__name__)) for d in dests]]))
    if problems:
        res["violations"].append({"msg": problems[0], "mech": None, "detail": {"label": "reentrant", "problems": problems[:6], "messages": nmsg,
                                                                               "payloads": sorted(payload_nids), "bad": with_bad}})


def _walk(nodes):
    for n in nodes:
        yield n
        for ch in n.get("children", []):
            for x in _walk([ch]):
                yield x


def part_threads(spec, res):
    """Several threads log concurrently while destinations fail: accounting must hold for every interleaving."""
    rng = random.Random("%s:C08:thr:%d" % (spec["seed"], spec["i"]))
    sched.instrument([_output])
    nthreads = rng.choice([2, 2, 3])
    nmsg = rng.choice([1, 2])
    nbad = rng.choice([1, 1, 2])
    masks = []
    for j in range(nbad):
        r = rng.random()
        if r < 0.4:
            masks.append(("all", lambda i: True))
        elif r < 0.7:
            masks.append(("even", lambda i: i % 2 == 0))
        else:
            s = frozenset(i for i in range(40) if rng.random() < 0.5)
            masks.append(("set%s" % sorted(s)[:6], lambda i, s=s: i in s))
    in_action = rng.random() < 0.5
    names = ["T%d" % t for t in range(nthreads)]
    c = res["counters"]

    def execute(plan_, label):
        tape = Tape()
        dests = [MaskedDestination(tape, "ref", lambda i: False, None)]
        for j, (desc, pred) in enumerate(masks):
            nm = "bad%d" % j
            dests.insert(rng.randint(0, len(dests)) if False else (j % (len(dests) + 1)),
                         MaskedDestination(tape, nm, pred, (lambda i, nm=nm: excs.DestFault("%s call %d" % (nm, i)))))
        add_destinations(*dests)
        logged = {t: [] for t in range(nthreads)}

        def worker(t):
            def run():
                if in_action and t == 0:
                    with start_action(action_type="thr:act", t=t, ms=-1):
                        for s in range(nmsg):
                            log_message(message_type="thr:m", t=t, ms=s)
                            logged[t].append(s)
                else:
                    for s in range(nmsg):
                        log_message(message_type="thr:m", t=t, ms=s)
                        logged[t].append(s)
            return run
        try:
            st, errs = sched.run_schedule(plan_, {"T%d" % t: worker(t) for t in range(nthreads)}, timeout=60.0)
        finally:
            for d in dests:
                remove_destination(d)
        res["evals"] += 1
        c["thread_schedules_run"] = c.get("thread_schedules_run", 0) + 1
        problems = ["thread %s raised %r" % (n, e) for n, e in errs.items()]
        if st["deadlock"]:
            problems.append("logging threads deadlocked: %s" % st["deadlock"])
        elif st["aborted"]:
            res["inconclusive"] = "schedule abandoned: %s" % st["aborted"]
            return st
        else:
            per = {d.name: [e for e in tape.entries if e["k"] == "msg" and e["dest"] == d.name] for d in dests}
            refkeys = sorted(key(e["m"]) for e in per["ref"])
            if len(set(refkeys)) != len(refkeys):
                problems.append("reference destination was offered some message twice")
            for d in dests:
                if sorted(key(e["m"]) for e in per[d.name]) != refkeys:
                    problems.append("destination %s was offered a different set of messages than the reference (%d vs %d)" % (d.name, len(per[d.name]), len(refkeys)))
                for t in range(nthreads):
                    seqs = [e["m"]["ms"] for e in per[d.name] if e["m"].get("message_type") == "thr:m" and e["m"].get("t") == t]
                    if seqs != logged[t]:
                        problems.append("destination %s got thread %d's messages as %s, logged %s" % (d.name, t, seqs, logged[t]))
            reports = [e["m"] for e in per["ref"] if is_report(e["m"])]
            reasons = [r.get("reason") for r in reports]
            nfail = 0
            for d in dests:
                for e in per[d.name]:
                    if e.get("failed") and not is_report(e["m"]):
                        nfail += 1
                        text = "%s call %d" % (d.name, e["call"])
                        k = reasons.count(text)
                        if k != 1:
                            problems.append("failed delivery (%s) of message %s%s was reported %d times" % (text, e["m"]["task_uuid"][:6], e["m"]["task_level"], k))
                        else:
                            r = reports[reasons.index(text)]
                            if repr(e["m"]["task_uuid"]) not in str(r.get("message")) or r.get("exception") != excs.qualname(excs.DestFault):
                                problems.append("report for %s does not describe the affected message / exception" % text)
            if len(reports) != nfail:
                problems.append("%d reports for %d failed deliveries of non-report messages" % (len(reports), nfail))
            c["failed_deliveries"] = c.get("failed_deliveries", 0) + nfail
            res["sets"]["interleavings"].append(sched.trace_hash(st))
            for nm, k, loc in st["fired"]:
                res["sets"]["preemption_lines"].append(loc)
            if st["fired"] and nfail:
                res["nontrivial"].append(sched.trace_hash(st))
        if problems and len(res["violations"]) < 3:
            res["violations"].append({"msg": problems[0], "mech": None, "detail": {"label": "threads", "plan": plan_, "masks": [m[0] for m in masks],
                                                                                   "problems": problems[:6], "schedule_kind": label}})
        return st

    base = None
    for order in itertools.permutations(names):
        base = execute({"order": list(order), "changes": []}, "baseline")
        if base["aborted"]:
            continue
        for p in sched.one_preemption_plans(list(order), base["events"]):
            execute(p, "1-preemption")
            if len(res["violations"]) >= 3:
                return
    for p in sched.sampled_plans(rng, names, base["events"], 40 if spec["tier"] == "quick" else 400):
        execute(p, "sampled")


def run_case(spec):
    res = {"evals": 0, "nontrivial": [], "counters": {}, "violations": [], "sample": None, "sets": {"interleavings": [], "preemption_lines": []}}
    if spec["part"] == "prebuffered":
        part_prebuffered(spec, res)
        return res
    if spec["part"] == "threads":
        part_threads(spec, res)
        return res
    if spec["part"] == "reentrant":
        part_reentrant(spec, res)
        return res
    if spec["part"] == "interrupted_report":
        part_interrupted_report(spec, res)
        return res
    if spec["part"] == "deferred":
        part_deferred(spec, res)
        return res
    if spec["part"] == "globaltype":
        part_globaltype(spec, res)
        return res
    if spec["part"] == "random":
        for i in range(spec["lo"], spec["hi"]):
            rng = random.Random("%s:C08:%d" % (spec["seed"], i))
            g = gen.ProgGen(rng, max_depth=rng.choice([2, 3, 4]), max_nodes=rng.choice([6, 15, 30]), value_depth=1)
            prog = g.program()
            st = gen.prog_stats(prog)
            nbad = rng.choice([0, 1, 1, 2, 2, 3])
            dspec = [("ref",)]
            for j in range(nbad):
                desc, pred = faults.gen_mask(rng, st["nodes"] * 2)
                ename, fac = faults.exc_factory(rng)
                dspec.insert(rng.randint(0, len(dspec)), ("bad", pred, fac, desc + ":" + ename))

            if rng.random() < 0.12:
                # a file destination whose file was closed under it, registered ahead of or behind the others
                dspec.insert(rng.randint(0, len(dspec)), ("closed", None, None, "closed-file"))
                nbad += 1
            sinkbound = rng.random() < 0.25

            def body(tape, problems, prog=prog, sinkbound=sinkbound):
                it = Interp(tape=tape)
                it.explicit_loggers = True
                if sinkbound:
                    # the program runs inside an action that is bound to a logger object of its own (an in-memory sink): reports
                    # about failed deliveries of the messages that do go to the destinations still have to reach the destinations
                    from vf.interp import _Sink
                    res["counters"]["programs_inside_sink_bound_action"] = res["counters"].get("programs_inside_sink_bound_action", 0) + 1
                    with start_action(_Sink(), "c08:sinkbound"):
                        it.run(prog)
                else:
                    it.run(prog)
                problems.extend(v["msg"] for v in it.violations if v["msg"].startswith("eliot API call"))
            tape = run_with(dspec, body, res, "random", gen.prog_shape(prog))
            if res["sample"] is None and nbad and st["nodes"] <= 4:
                res["sample"] = {"program": prog, "masks": [d[3] for d in dspec if d[0] in ("bad", "closed")],
                                 "offers": [(e["dest"], e["m"].get("message_type") or e["m"].get("action_status"), e.get("failed")) for e in tape.entries if e["k"] == "msg"][:40]}
    elif spec["part"] == "enum":
        D, K = spec["D"], spec["K"]
        for code in range(spec["lo"], spec["hi"]):
            dspec = []
            for d in range(D):
                bits = (code >> (d * K)) & ((1 << K) - 1)
                s = frozenset(i for i in range(K) if bits >> i & 1)
                dspec.append(("bad", (lambda i, s=s: i in s), (lambda i: excs.DestFault("enum call %d" % i)), "bits:%s" % sorted(s)))
            dspec.insert(code % (D + 1), ("ref",))

            def body(tape, problems):
                with start_action(action_type="enum", nid=1):
                    log_message(message_type="enum:m", nid=2)
            run_with(dspec, body, res, "enum", "D%dK%d" % (D, K))
            res["counters"]["enumerated_mask_combinations"] = res["counters"].get("enumerated_mask_combinations", 0) + 1
    else:
        rng = random.Random("%s:C08:storm:%d" % (spec["seed"], spec["i"]))
        ename, fac = faults.exc_factory(rng)
        dspec = [("bad", (lambda i: True), fac, "all:" + ename), ("ref",)]
        if rng.random() < 0.5:
            dspec.reverse()
        if rng.random() < 0.5:
            dspec.append(("bad", (lambda i: True), fac, "all:" + ename))

        def body(tape, problems):
            with start_action(action_type="storm", nid=0):
                for k in range(1000):
                    log_message(message_type="storm:m", nid=k + 1)
        run_with(dspec, body, res, "storm", "storm")
        res["counters"]["storm_runs"] = 1
    return res


def finalize(agg, tier):
    c = agg["counters"]
    if c.get("failed_deliveries", 0) < 1000 or c.get("failures_while_delivering_reports", 0) < 100:
        return "too few failed deliveries / failures on reports observed"
    if c.get("prebuffered_runs", 0) < 100 or c.get("thread_schedules_run", 0) < 500:
        return "too few prebuffered runs / thread schedules"
    if c.get("failures_on_messages_logged_by_deferred_work", 0) < 20 or c.get("deferred_work_scheduled_while_a_report_was_delivered", 0) < 20:
        return "part 'deferred' rarely reached a failure on a message logged by work scheduled while a report was being delivered"
    return None
