"""C09 - parser order-independence and exact completeness."""

import itertools
import math
import random

import pyrsistent

from eliot import add_destinations, remove_destination
from eliot.parse import Parser, Task, WrittenAction

from vf import gen
from vf.interp import Interp
from vf.runner import h
from vf.tape import Recorder, Tape

ID = "C09"
LEVEL = "exploration"
RULE = ("message sets are produced by really running ProgGen programs (remote sub-tasks, failed actions, context-less messages, "
        "several tasks). Tasks with <= 6 messages (7 in the thorough tier): ALL permutations and ALL subsets; larger tasks: reversed, "
        "level-sorted, ends-before-starts and random permutations, random subsets biased to drop starts/ends/inner messages/"
        "sub-trees; plus random interleavings of all tasks of a program. Oracle: (a) results equal (Task ==) for every order; (b) a task "
        "is returned by Parser.add exactly at the step where its last message arrives, once; (c) every subset parses without "
        "exception, strict subsets are never complete, exactly the present messages appear in the partial tree, states from "
        "different orders of one subset are equal; (d) parse_stream yields completed tasks during the stream and incomplete ones "
        "once at the end. A third of the programs run with a second, failing destination and/or raising exception extractors, so the tasks "
        "contain eliot:destination_failure reports and extractor tracebacks; one case in 40 has an action with 250-400 direct children, one in 40 a stream with 1001-1200 top-level actions open at the same "
        "time; 8% of the untyped messages carry a user field named action_status; one Parser value is continued along two suffixes and compared with "
        "fresh parsers; the lists Parser.add returns are mutated by the caller; a third of the parse_stream inputs are PMaps; in a fifth of the streams the task ids are ones minted elsewhere (upper-case GUIDs, 'Order-n', different tasks whose ids differ only in letter case). part 'deep': one task of 100-700 (thorough: 50-900) nested actions in emission and reversed order. A quarter of the programs ('okfields') give "
        "their untyped actions success fields named reason and/or exception (add_success_fields(reason='cache miss', exception='builtins.OSError')), at every depth and next to failed actions. "
        "Another quarter ('coarse') is logged for real and the recorded dicts are then re-stamped as a coarse clock would have stamped them (all timestamps of a task / of the stream equal; "
        "rounded down to a 1/64 s, 15.6 ms, 1 ms, 1 s or 1 min tick; pairs or whole groups of same-typed siblings equal), the programs holding runs of action.log('same:type') messages and "
        "sibling actions of one type; all oracles apply to both classes unchanged (a message is identified by task_uuid and task_level only). non-trivial = task with >=2 nesting levels or a remote sub-task; distinct by (task shape, order class)")
ASSUMPTIONS = ["message sets come from well-formed tasks (each position used once)"]
EXHAUSTIVE_NOTE = "permutations and subsets of every task with <= 6 (quick) / <= 7 (thorough) messages are enumerated completely"


def plan(tier, seed):
    n = 400 if tier == "quick" else 3000
    specs = [{"part": "deep", "seed": seed, "i": i, "tier": tier, "depth": d} for i, d in enumerate([100, 250, 400, 520, 700] if tier == "quick" else
                                                                                           [50, 100, 200, 300, 400, 430, 480, 500, 520, 600, 700, 900])]  # (long cases first)
    specs += [{"seed": seed, "i": i, "tier": tier} for i in sorted(range(n), key=lambda i: i % 40 != 13)]
    return specs


def part_deep(spec):
    """One task of `depth` nested actions (no recursion in the logging program: the blocks are entered in a loop), fed to the parser in
    emission order and reversed. (At about 490 levels the parser's mutual recursion exhausts the default recursion limit: recorded finding.)"""
    from eliot import start_action
    res = {"evals": 1, "nontrivial": [], "counters": {}, "violations": [], "sets": {"order_classes": []}}
    depth = spec["depth"]
    tape = Tape()
    rec = Recorder(tape, "rec")
    add_destinations(rec)
    try:
        stack = []
        for k in range(depth):
            a = start_action(action_type="deep:a", k=k)
            a.__enter__()
            stack.append(a)
        while stack:
            stack.pop().__exit__(None, None, None)
    finally:
        remove_destination(rec)
    msgs = tape.msgs("rec")
    problems = []
    for label, order in (("emission order", msgs), ("reversed", list(reversed(msgs)))):
        try:
            tasks = list(Parser.parse_stream(order))
            if len(tasks) != 1 or not tasks[0].is_complete():
                problems.append("%s: a task of %d nested actions (%d messages) parsed to %d tasks, complete: %s" % (label, depth, len(msgs), len(tasks), [t.is_complete() for t in tasks]))
            else:
                n, node = 0, tasks[0].root()
                while True:
                    n += 1
                    kids = [c for c in node.children if hasattr(c, "children")]
                    if not kids:
                        break
                    node = kids[0]
                if n != depth:
                    problems.append("%s: parsed nesting depth %d, logged %d" % (label, n, depth))
        except RecursionError as e:
            problems.append("%s: the parser raised RecursionError on a well-formed task of %d nested actions (%d messages)" % (label, depth, len(msgs)))
        except BaseException as e:
            problems.append("%s: the parser raised %r on a task of %d nested actions" % (label, e, depth))
    res["counters"]["deeply_nested_tasks_fed"] = 1
    res["nontrivial"].append(h(["deep", depth]))
    if problems:
        mech = "parser-recursion-deep-nesting" if (depth > 440 and all("RecursionError" in p_ for p_ in problems)) else None
        res["violations"].append({"msg": problems[0], "mech": mech, "detail": {"part": "deep", "depth": depth, "problems": problems}})
    return res


ENABLE_OKFIELDS = True   # input class: succeeded actions whose success fields are named reason / exception
ENABLE_COARSE = True     # input class: messages of one task with equal timestamps (coarse clocks)

OK_FIELD_VALUES = {"reason": ["cache miss", "not modified", "retried", "", "builtins.ValueError: no"],
                   "exception": ["builtins.OSError", "builtins.KeyError", "app.errors.Transient", "OSError"]}
UNTYPED_ACT_STYLES = ("with", "ctx_finish", "run_finish", "start_task", "pre_created", "ctx_finish_inside")
UNTYPED_MSG_STYLES = ("log_message", "action.log", "Message.log", "Message.new.write", "Message.bind.write")
TICKS = [1 / 64.0, 0.0156001, 0.001, 1.0, 60.0]


def _mk_act(g, type_, children, style="with", success=None, exc=None):
    node = {"k": "act", "nid": g._nid(), "style": style, "type": type_, "start": {}, "success": dict(success or {}), "outcome": "ok", "children": children}
    if exc is not None:
        node.update(outcome="raise", exc=exc, cross=0)
    return node


def _mk_log(g, type_, **fields):
    return {"k": "msg", "nid": g._nid(), "style": "action.log", "type": type_, "fields": fields}


def add_ok_fields(g, prog, rng):
    """'reason' and 'exception' are ordinary field names on a success message: a cache lookup says why it missed, a retry wrapper
    records the class of the error it swallowed. Give them to the untyped actions of the program (typed ones declare their fields),
    whatever their depth and whether their neighbours fail or not; add one small hand-written request of that kind."""
    def pick():
        names = rng.choice([("reason",), ("exception",), ("reason", "exception"), ("exception", "reason")])
        return {k: rng.choice(OK_FIELD_VALUES[k]) for k in names}

    def walk(nodes):
        for n in nodes:
            if n["k"] == "act" and n["style"] in UNTYPED_ACT_STYLES and rng.random() < 0.6:
                extra = pick()
                if rng.random() < 0.5:
                    n["success"].update(extra)
                else:
                    n["success"] = dict(extra, **n["success"])  # the two names first, then the others (they may be added in separate calls)
            walk(n.get("children", ()))
    walk(prog)
    if rng.random() < 0.6:
        style = lambda: rng.choice(["with", "with", "ctx_finish", "run_finish"])
        attempt1 = _mk_act(g, "app:attempt", [], exc=rng.choice(["OSError", "KeyError", "ValueError"]))
        both = rng.random() < 0.5
        attempt2 = _mk_act(g, "app:attempt", [_mk_log(g, "app:probe", shard=3)] if rng.random() < (0.25 if both else 0.5) else [], style=style(),
                           success=pick() if rng.random() < 0.5 else {})
        retry = _mk_act(g, "app:retry", [attempt1, attempt2] if both else [attempt2], style=style(), success=dict(pick(), attempts=2))
        if rng.random() < 0.5:
            retry = _mk_act(g, "app:request", [retry] + ([_mk_act(g, "app:render", [], success=pick())] if rng.random() < 0.5 else []), style=style(),
                            success=pick() if rng.random() < 0.5 else {})
        prog.insert(rng.randint(0, len(prog)), retry)


def same_type_siblings(g, prog, rng):
    """Loops log the same message type many times and start one kind of sub-action per item: make the untyped plain messages among
    the children of an action share one type, likewise its untyped child actions; add one small hand-written batch of that kind."""
    def walk(nodes, inside):
        if inside and rng.random() < 0.6:
            mt, at = rng.choice(["same:type", "app:item"]), rng.choice(["same:act", "app:ping"])
            for n in nodes:
                if n["k"] == "msg" and n["style"] in UNTYPED_MSG_STYLES:
                    n["type"] = mt
                    if rng.random() < 0.5:
                        n["style"] = "action.log"
                elif n["k"] == "act" and n["style"] in UNTYPED_ACT_STYLES:
                    n["type"] = at
        for n in nodes:
            walk(n.get("children", ()), True)
    walk(prog, False)
    if rng.random() < 0.6:
        shape = rng.choice(["logs", "logs", "logs", "acts", "mixed", "mixed"])
        if shape == "logs":
            kids = [_mk_log(g, "same:type", i=i) for i in range(rng.choice([2, 2, 3, 3, 4]))]
        elif shape == "acts":
            kids = [_mk_act(g, "app:ping", [], exc=("OSError" if rng.random() < 0.2 else None)) for _ in range(2)]
        else:
            kids = []
            for i in range(rng.randint(2, 3)):
                kids.append(_mk_log(g, "same:type", i=i))
                kids.append(_mk_act(g, "app:ping", [_mk_log(g, "same:type", inner=i)] if rng.random() < 0.5 else [], style=rng.choice(["with", "ctx_finish"])))
            if rng.random() < 0.5:
                kids.append(_mk_log(g, "same:type", i="last"))
        prog.insert(rng.randint(0, len(prog)), _mk_act(g, "app:batch", kids, style=rng.choice(["with", "with", "run_finish", "start_task"])))


def _sibling_key(m):
    """(task, parent position, type, status): messages with equal keys are same-typed siblings (an action's start and end messages sit one
    level below the action's own position)."""
    lvl = m["task_level"]
    if m.get("action_type") is not None:
        return (m["task_uuid"], tuple(lvl[:-2]), "a", m["action_type"], m.get("action_status"))
    return (m["task_uuid"], tuple(lvl[:-1]), "m", m.get("message_type"), None)


def restamp(msgs, mode, rng):
    """Rewrite the timestamp fields of recorded messages to what a coarser clock would have given. Nothing else is touched; the
    order of the timestamps never contradicts the order of logging (equal or increasing)."""
    if mode == "stream":
        t0 = msgs[0]["timestamp"] if msgs else 0.0
        for m in msgs:
            m["timestamp"] = t0
    elif mode == "task":
        first = {}
        for m in msgs:
            m["timestamp"] = first.setdefault(m["task_uuid"], m["timestamp"])
    elif mode.startswith("tick"):
        tick = TICKS[int(mode[4:])]
        for m in msgs:
            m["timestamp"] = math.floor(m["timestamp"] / tick) * tick
    elif mode in ("twins", "groups"):
        groups = {}
        for m in msgs:
            groups.setdefault(_sibling_key(m), []).append(m)
        for grp in groups.values():
            if len(grp) < 2:
                continue
            if mode == "groups":
                for m in grp[1:]:
                    m["timestamp"] = grp[0]["timestamp"]
            else:
                start = rng.randint(0, 1) if len(grp) > 2 else 0
                for a, b in zip(grp[start::2], grp[start + 1::2]):
                    b["timestamp"] = a["timestamp"]
    else:
        raise AssertionError(mode)


def timestamp_sharing(msgs):
    """(messages whose timestamp also occurs on another message of their task, pairs of same-typed siblings with equal timestamps)"""
    per_task, per_sib = {}, {}
    for m in msgs:
        k = (m["task_uuid"], m["timestamp"])
        per_task[k] = per_task.get(k, 0) + 1
        k = _sibling_key(m) + (m["timestamp"],)
        per_sib[k] = per_sib.get(k, 0) + 1
    return sum(n for n in per_task.values() if n > 1), sum(n * (n - 1) // 2 for n in per_sib.values())


def strip(m):
    return m


def feed(order):
    """Feed messages one by one. Returns (completed list of (step, task), final parser)."""
    parser = Parser()
    completed = []
    for step, m in enumerate(order):
        done, parser = parser.add(m)
        for t in done:
            if not isinstance(t, Task):
                raise AssertionError("Parser.add returned %r among the completed tasks" % (t,))
            completed.append((step, t))
        # the returned list is the caller's: collecting results by extending / emptying it is ordinary use and must not matter later
        if step % 2:
            done.append("the caller's own bookkeeping")
        else:
            del done[:]
    return completed, parser


def collect_levels(node, out):
    if isinstance(node, WrittenAction):
        if node.start_message is not None:
            out.append(tuple(node.start_message.task_level.as_list()))
        if node.end_message is not None:
            out.append(tuple(node.end_message.task_level.as_list()))
        for c in node.children:
            collect_levels(c, out)
    else:
        out.append(tuple(node.task_level.as_list()))


def check_order(msgs_by_uuid, order, reference, problems, label):
    """Full message set in some order: completion exactly at the last message, result equals reference."""
    last = {}
    for idx, m in enumerate(order):
        last[m["task_uuid"]] = idx
    try:
        completed, parser = feed(order)
    except BaseException as e:
        problems.append("%s: parser raised %r" % (label, e))
        return
    got = {}
    for step, t in completed:
        u = t.root().task_uuid
        if u in got:
            problems.append("%s: task %s returned as completed twice" % (label, u[:8]))
        got[u] = t
        if last[u] != step:
            problems.append("%s: task %s reported complete at step %d but its last message arrives at step %d" % (label, u[:8], step, last[u]))
        if not t.is_complete():
            problems.append("%s: returned task is not is_complete()" % label)
    left = parser.incomplete_tasks()
    if left:
        problems.append("%s: %d tasks still incomplete after all messages arrived" % (label, len(left)))
    for u in msgs_by_uuid:
        if u not in got:
            problems.append("%s: task %s never returned as completed" % (label, u[:8]))
        elif reference is not None and u in reference and got[u] != reference[u]:
            problems.append("%s: parsed task differs from the one parsed in emission order" % label)
    return got


def check_subset(task_msgs, subset, orders, problems, label):
    """Strict subset of one task in several orders."""
    states = []
    want = sorted(tuple(m["task_level"]) for m in subset)
    for order in orders:
        try:
            completed, parser = feed(order)
        except BaseException as e:
            problems.append("%s: parser raised %r on a subset" % (label, e))
            return
        tasks = [t for _, t in completed] + parser.incomplete_tasks()
        if len(tasks) != (1 if subset else 0):
            problems.append("%s: subset produced %d tasks" % (label, len(tasks)))
            return
        if not subset:
            return
        t = tasks[0]
        if t.is_complete() or completed:
            problems.append("%s: strict subset (%d of %d messages, missing levels %s) reported complete" % (
                label, len(subset), len(task_msgs),
                [m["task_level"] for m in task_msgs if m not in subset][:5]))
        levels = []
        try:
            collect_levels(t.root(), levels)
        except BaseException as e:
            problems.append("%s: walking the partial tree raised %r" % (label, e))
            return
        if sorted(levels) != want:
            problems.append("%s: partial tree holds levels %s, subset has %s" % (label, sorted(levels)[:8], want[:8]))
        states.append(t)
        # parse_stream must yield it exactly once at the end
    if any(s != states[0] for s in states[1:]):
        problems.append("%s: partial trees from different arrival orders of one subset differ" % label)


def task_shape(msgs):
    return sorted((tuple(m["task_level"]), m.get("action_status") or "m") for m in msgs)


def run_case(spec):
    if spec.get("part") == "deep":
        return part_deep(spec)
    rng = random.Random("%s:C09:%d" % (spec["seed"], spec["i"]))
    tier = spec["tier"]
    exh_limit = 6 if tier == "quick" else 7
    res = {"evals": 0, "nontrivial": [], "counters": {}, "violations": [], "sets": {"order_classes": []}}
    small = rng.random() < 0.6
    with_faults = rng.random() < 0.35
    with_bad = with_faults and rng.random() < 0.6
    g = gen.ProgGen(rng, max_depth=rng.choice([2, 3]) if small else rng.choice([3, 4, 5]), max_nodes=rng.choice([3, 5]) if small else rng.choice([12, 30]),
                    value_depth=0, fail_p=0.5 if with_faults else 0.3, allow_tb=True, remote_vias=("same", "thread"), defer_p=0.3, status_field_p=0.08,
                    extra_styles=(("pre_created",) if with_bad else ("ctx_finish_inside", "pre_created")) if with_faults else ())
    prog = g.program()
    if spec["i"] % 40 == 7:
        # breadth: one action with 250-400 direct children (inside another action in half of the cases)
        g.budget = 10**6
        a = g.act(99, force_style="with")
        a["outcome"] = "ok"
        a.pop("exc", None)
        a["children"] = [g.msg() for _ in range(rng.choice([rng.randint(250, 270), rng.randint(300, 400)]))]
        if rng.random() < 0.5:
            b = g.act(99, force_style="with")
            b["outcome"] = "ok"
            b.pop("exc", None)
            b["children"] = [g.msg(), a]
            a = b
        prog = [a]
        res["counters"]["very_wide_tasks"] = 1
    # two input classes the generator does not produce by itself (own random stream: the other cases stay what they were)
    rng2 = random.Random("%s:C09:classes:%d" % (spec["seed"], spec["i"]))
    okfields = ENABLE_OKFIELDS and spec["i"] % 4 == 1
    coarse = ENABLE_COARSE and spec["i"] % 4 == 2
    tags = []
    if okfields:
        add_ok_fields(g, prog, rng2)
    if coarse:
        same_type_siblings(g, prog, rng2)
    tape = Tape()
    rec = Recorder(tape, "rec")
    bad = None
    if with_faults:
        # messages eliot itself adds to a task when something around the logging fails are part of the task like any other:
        # reports about a second, failing destination, and tracebacks of exception extractors that raise
        from eliot import register_exception_extractor
        from vf import excs, faults
        from vf.tape import MaskedDestination
        if with_bad:
            # (not together with finish() inside the action's own context(): the report about a failed delivery of that end
            # message is logged in the still-current finished action, i.e. after its end - not a well-formed task)
            desc, pred = faults.gen_mask(rng, 40)
            ename, fac = faults.exc_factory(rng)
            bad = MaskedDestination(Tape(), "bad", pred, fac)
        for name in ["Exception", "OSError", "LookupError", "ValueError", "KeyError", "UserError", "RuntimeError"]:
            if rng.random() < 0.5:
                cls = dict(excs.POOL, Exception=Exception, LookupError=LookupError)[name]

                def ext(e, name=name):
                    raise RuntimeError("extractor for %s failed" % name)
                register_exception_extractor(cls, ext)
        if bad is not None:
            add_destinations(bad)
    add_destinations(rec)
    try:
        it0 = Interp(tape=tape)
        it0.allow_defer = True
        it0.run(prog)
        if spec["i"] % 40 == 13:
            # a server with more than a thousand requests in flight: 1001-1200 top-level actions are open at the same time
            from eliot import start_action as _start
            # (and, in some of these streams, five or ten thousand: a batch job that starts every unit of work before it collects results)
            lo, hi = {1: (5100, 5400), 3: (10200, 10600)}.get((spec["i"] // 40) % 10, (1001, 1200))
            opened = [_start(action_type="c09:open", n=k) for k in range(rng.randint(lo, hi))]
            res["counters"]["streams_with_over_%d_open_tasks" % (lo - lo % 1000)] = 1
            if rng.random() < 0.5:
                opened.reverse()
            for a in opened:
                a.finish()
            res["counters"]["streams_with_over_1000_open_tasks"] = 1
    finally:
        remove_destination(rec)
        if bad is not None:
            remove_destination(bad)
    import json as _json
    # as a log reader gets them: decoded from JSON text, so equal strings are distinct objects
    msgs = [_json.loads(_json.dumps(m)) for m in tape.msgs("rec")]
    if okfields:
        by_depth = {}
        for m in msgs:
            if m.get("action_status") == "succeeded" and ("reason" in m or "exception" in m):
                d = str(len(m["task_level"]) - 1)
                by_depth[d] = by_depth.get(d, 0) + 1
        res["counters"]["succeeded_end_messages_with_reason_or_exception_by_depth"] = by_depth
        res["counters"]["okfields_tasks_that_also_hold_failed_actions"] = len(
            set(m["task_uuid"] for m in msgs if m.get("action_status") == "failed") &
            set(m["task_uuid"] for m in msgs if m.get("action_status") == "succeeded" and ("reason" in m or "exception" in m)))
        if by_depth:
            tags.append("the tasks hold %d succeeded actions whose success fields are named reason / exception" % sum(by_depth.values()))
    if coarse:
        # the log of a machine whose clock ticks more slowly than the program logs: same messages, same positions, coarser timestamps
        mode = rng2.choice(["stream", "task", "task", "twins", "twins", "groups"] + ["tick%d" % k for k in range(len(TICKS))])
        restamp(msgs, mode, rng2)
        shared, sib_pairs = timestamp_sharing(msgs)
        res["counters"]["coarse_clock_streams"] = 1
        res["counters"]["messages_sharing_their_timestamp_within_a_task"] = shared
        res["counters"]["same_typed_sibling_pairs_with_equal_timestamps"] = sib_pairs
        res["sets"]["restamp_modes"] = [mode.rstrip("0123456789")]
        tags.append("timestamps as a coarse clock gives them (%s): %d messages share their timestamp with another message of their task, %d pairs of "
                    "same-typed siblings have equal timestamps" % (mode if not mode.startswith("tick") else "rounded down to a %g s tick" % TICKS[int(mode[4:])], shared, sib_pairs))
    if spec["i"] % 5 == 2:
        # task ids minted elsewhere (continue_task accepts any text before the '@'): upper-case GUIDs, "Order-42", and pairs of different
        # tasks whose ids differ only in the case of their letters - ids are opaque, distinct strings are distinct tasks
        rename = {}
        for m in msgs:
            u = m["task_uuid"]
            if u not in rename:
                j = len(rename)
                if j % 3 == 0:
                    rename[u] = u.upper()
                elif j % 3 == 1:
                    rename[u] = "Order-%dX-%s" % (j, u[:6])
                else:
                    rename[u] = rename[prev].swapcase() if rename[prev].swapcase() != rename[prev] else u + "-B"
                prev = u
        for m in msgs:
            m["task_uuid"] = rename[m["task_uuid"]]
        res["counters"]["streams_with_foreign_task_ids"] = 1
    by_uuid = {}
    for m in msgs:
        by_uuid.setdefault(m["task_uuid"], []).append(m)
    problems = []
    c = res["counters"]
    c["destination_failure_reports_in_tasks"] = sum(1 for m in msgs if m.get("message_type") == "eliot:destination_failure")
    c["extractor_failure_tracebacks_in_tasks"] = sum(1 for m in msgs if m.get("message_type") == "eliot:traceback" and "extractor for" in str(m.get("reason")))
    # reference: emission order
    ref = (check_order(by_uuid, msgs, None, problems, "emission order") if len(by_uuid) <= 8000 else None) or {}
    c["orders_fed"] = 1

    def nontrivial(tmsgs, cls):
        depth = max(len(m["task_level"]) for m in tmsgs)
        if depth >= 3 or any(m.get("action_type") == "eliot:remote_task" for m in tmsgs):
            res["nontrivial"].append(h([task_shape(tmsgs), cls]))

    # (d) parse_stream on an interleaving (for the ten-thousand-task streams: in emission order, which is what keeps them all open at once;
    # the separate emission-order pass above is then the same input and is what is skipped)
    try:
        inter = list(msgs)
        if len(by_uuid) <= 8000:
            rng.shuffle(inter)
        drop_uuid = rng.choice(list(by_uuid)) if by_uuid else None
        dropped = None
        if drop_uuid and len(by_uuid[drop_uuid]) > 1:
            dropped = rng.choice(by_uuid[drop_uuid])
            inter.remove(dropped)
        consumed = [0]

        as_pmap = spec["i"] % 3 == 1  # messages handed over as immutable mappings (WrittenMessage.as_dict() / pyrsistent.freeze give these)

        def stream():
            for m in inter:
                consumed[0] += 1
                yield (pyrsistent.freeze(m) if as_pmap else m)
        seen = {}
        lastpos = {}
        for idx, m in enumerate(inter):
            lastpos[m["task_uuid"]] = idx
        for t in Parser.parse_stream(stream()):
            u = t.root().task_uuid
            if u in seen:
                problems.append("parse_stream yielded task %s twice" % u[:8])
            seen[u] = t
            if t.is_complete():
                if consumed[0] != lastpos[u] + 1:
                    problems.append("parse_stream yielded a completed task after consuming %d messages; its last message is number %d" % (consumed[0], lastpos[u] + 1))
                if u == drop_uuid and dropped is not None:
                    problems.append("parse_stream reported a task complete although a message was withheld")
            else:
                if consumed[0] != len(inter):
                    problems.append("parse_stream yielded an incomplete task before the stream ended")
                if not (u == drop_uuid and dropped is not None):
                    problems.append("parse_stream yielded task %s as incomplete although all its messages arrived" % u[:8])
        if set(seen) != set(lastpos):
            problems.append("parse_stream yielded %d tasks for %d task uuids" % (len(seen), len(lastpos)))
        c["parse_stream_runs"] = 1
    except BaseException as e:
        problems.append("parse_stream raised %r" % (e,))

    huge = len(by_uuid) > 3000  # thousands of tasks open at once: emission order and one shuffled stream are fed, the order battery is for the smaller streams
    # (d') several tasks truncated at once (front-truncated logs, remote halves): every task yielded exactly once, none complete
    if len(by_uuid) >= 2 and not huge:
        for attempt in range(3):
            kept = []
            truncated = set()
            for u, tm in by_uuid.items():
                if len(tm) >= 2 and rng.random() < 0.8:
                    cut = rng.choice(["first", "last", "random"])
                    drop = tm[0] if cut == "first" else (tm[-1] if cut == "last" else rng.choice(tm))
                    kept.extend(m for m in tm if m is not drop)
                    truncated.add(u)
                else:
                    kept.extend(tm)
            rng.shuffle(kept)
            try:
                seen2 = {}
                for t in Parser.parse_stream(kept):
                    u = t.root().task_uuid
                    if u in seen2:
                        problems.append("parse_stream yielded task %s twice (several truncated tasks in the stream)" % u[:8])
                    seen2[u] = t
                    if u in truncated and t.is_complete():
                        problems.append("a truncated task was reported complete")
                    if u not in truncated and not t.is_complete():
                        problems.append("an untruncated task was reported incomplete")
                if set(seen2) != set(m["task_uuid"] for m in kept):
                    problems.append("parse_stream yielded %d tasks for %d task uuids in a stream with %d truncated tasks" % (
                        len(seen2), len(set(m["task_uuid"] for m in kept)), len(truncated)))
                p2 = Parser()
                for m in kept:
                    _, p2 = p2.add(m)
                left = p2.incomplete_tasks()
                if len(left) != len(truncated):
                    problems.append("incomplete_tasks() holds %d tasks, %d were truncated" % (len(left), len(truncated)))
            except BaseException as e:
                problems.append("parsing a stream with %d truncated tasks raised %r" % (len(truncated), e))
            c["multi_truncated_streams"] = c.get("multi_truncated_streams", 0) + 1

    # whole-program interleavings (several tasks)
    for _ in range(0 if huge else 3 if tier == "quick" else 10):
        order = list(msgs)
        rng.shuffle(order)
        check_order(by_uuid, order, ref, problems, "random interleaving of %d tasks" % len(by_uuid))
        c["orders_fed"] += 1
    res["sets"]["order_classes"].append("interleaving")

    exhaustive_tasks = 0
    bulk_seen = 0
    for u, tmsgs in by_uuid.items():
        if tmsgs[0].get("action_type") == "c09:open":
            bulk_seen += 1
            if bulk_seen > 5:
                continue  # the thousand identical two-message tasks are judged as a stream above, a few of them one by one
        n = len(tmsgs)
        one = {u: tmsgs}
        if n >= 3:
            # a Parser value is immutable: after feeding a common prefix once, continuing THE SAME parser object along two different
            # suffixes gives what two fresh parsers fed prefix+suffix give (how a search over arrival orders shares work)
            for _ in range(2):
                order = list(tmsgs)
                rng.shuffle(order)
                k = rng.randint(1, n - 1)
                try:
                    shared = Parser()
                    for m in order[:k]:
                        _, shared = shared.add(m)
                    suffixes = [order[k:], order[k:][::-1]]
                    for suf in suffixes:
                        done_b, pb = [], shared
                        for m in suf:
                            d_, pb = pb.add(m)
                            done_b += d_
                        done_f, pf = [], Parser()
                        for m in order[:k] + suf:
                            d_, pf = pf.add(m)
                            done_f += d_
                        if done_b != done_f or pb.incomplete_tasks() != pf.incomplete_tasks():
                            problems.append("continuing one parser value along a second suffix gives a different result than a fresh parser "
                                            "fed the same %d messages (%d vs %d tasks completed)" % (n, len(done_b), len(done_f)))
                            break
                    c["branched_parsers"] = c.get("branched_parsers", 0) + 1
                except BaseException as e:
                    problems.append("branching a parser raised %r" % (e,))
        if 2 <= n <= exh_limit:
            exhaustive_tasks += 1
            for perm in itertools.permutations(tmsgs):
                check_order(one, perm, ref, problems, "permutation of a %d-message task" % n)
                c["orders_fed"] += 1
                if len(problems) > 5:
                    break
            nontrivial(tmsgs, "all-perms")
            res["sets"]["order_classes"].append("exhaustive-%d" % n)
            for r in range(0, n):
                for subset in itertools.combinations(tmsgs, r):
                    subset = list(subset)
                    orders = [subset, subset[::-1]]
                    sh = list(subset)
                    rng.shuffle(sh)
                    orders.append(sh)
                    check_subset(tmsgs, subset, orders, problems, "subset of a %d-message task" % n)
                    c["subsets_fed"] = c.get("subsets_fed", 0) + 1
        elif n > exh_limit:
            orders = {"reversed": tmsgs[::-1], "level-sorted": sorted(tmsgs, key=lambda m: m["task_level"]),
                      "ends-first": sorted(tmsgs, key=lambda m: (m.get("action_status") not in ("succeeded", "failed"), rng.random())),
                      "deepest-first": sorted(tmsgs, key=lambda m: (-len(m["task_level"]), rng.random()))}
            for k in range(6 if tier == "quick" else 30):
                o = list(tmsgs)
                rng.shuffle(o)
                orders["random%d" % k] = o
            for name, o in orders.items():
                check_order(one, o, ref, problems, "%s order of a %d-message task" % (name, n))
                c["orders_fed"] += 1
                res["sets"]["order_classes"].append(name.rstrip("0123456789"))
            nontrivial(tmsgs, "sampled")
            for k in range(8 if tier == "quick" else 40):
                mode = rng.choice(["starts", "ends", "inner", "subtree", "random", "one"])
                if mode == "starts":
                    subset = [m for m in tmsgs if not (m.get("action_status") == "started" and rng.random() < 0.5)]
                elif mode == "ends":
                    subset = [m for m in tmsgs if not (m.get("action_status") in ("succeeded", "failed") and rng.random() < 0.5)]
                elif mode == "inner":
                    subset = [m for m in tmsgs if not ("message_type" in m and rng.random() < 0.5)]
                elif mode == "subtree":
                    pivot = rng.choice(tmsgs)["task_level"][:-1]
                    subset = [m for m in tmsgs if not (pivot and m["task_level"][:len(pivot)] == pivot)]
                elif mode == "one":
                    subset = list(tmsgs)
                    subset.remove(rng.choice(subset))
                else:
                    subset = [m for m in tmsgs if rng.random() < 0.6]
                if len(subset) == n:
                    continue
                sh = list(subset)
                rng.shuffle(sh)
                check_subset(tmsgs, subset, [subset, subset[::-1], sh], problems, "%s-dropped subset of a %d-message task" % (mode, n))
                c["subsets_fed"] = c.get("subsets_fed", 0) + 1
                res["sets"]["order_classes"].append("subset-" + mode)
    c["tasks_exhaustively_permuted"] = exhaustive_tasks
    c["tasks"] = len(by_uuid)
    c["messages"] = len(msgs)
    res["evals"] = c["orders_fed"] + c.get("subsets_fed", 0)
    if spec["i"] % 50 == 0:
        res["sample"] = {"program": prog, "task_sizes": [len(v) for v in by_uuid.values()],
                         "levels": [m["task_level"] for m in msgs][:30]}
    if problems:
        res["violations"].append({"msg": problems[0] + (" [input: %s]" % "; ".join(tags) if tags else ""), "mech": None,
                                  "detail": {"problems": problems[:10], "input_classes": tags, "program": prog}})
    return res


def finalize(agg, tier):
    c = agg["counters"]
    if c.get("tasks_exhaustively_permuted", 0) < 50 or c.get("subsets_fed", 0) < 1000:
        return "too few exhaustively explored tasks / subsets"
    if c.get("streams_with_foreign_task_ids", 0) < 20:
        return "too few streams with task ids minted elsewhere"
    if ENABLE_OKFIELDS:
        by_depth = c.get("succeeded_end_messages_with_reason_or_exception_by_depth") or {}
        if sum(by_depth.values()) < 60 or len(by_depth) < 3:
            return "too few succeeded actions with success fields named reason / exception (by depth: %r)" % (by_depth,)
        if c.get("okfields_tasks_that_also_hold_failed_actions", 0) < 10:
            return "too few tasks mixing failed actions with succeeded ones that carry reason / exception fields"
    if ENABLE_COARSE:
        if c.get("coarse_clock_streams", 0) < 40 or c.get("messages_sharing_their_timestamp_within_a_task", 0) < 300:
            return "too few messages with equal timestamps inside one task"
        if c.get("same_typed_sibling_pairs_with_equal_timestamps", 0) < 100:
            return "too few same-typed siblings with equal timestamps"
    return None
