"""C10 - one valid, faithful JSON line per message (recording file object + independent decoder)."""

import datetime
import json
import math
import pathlib
import random
import time as _time

from eliot import FileDestination, add_destinations, log_message, remove_destination, start_action
from eliot.json import json_default

from vf import gen, shutdown
from vf.gen import json_equal
from vf.runner import REPO, h
from vf.tape import RecordingFile

import sys as _sys

# eliot without the orjson package (as on PyPy) uses the standard library's json; the runner starts such cases in a fresh interpreter
NO_ORJSON = "orjson" in _sys.modules and _sys.modules["orjson"] is None

ID = "C10"
LEVEL = "exploration"
RULE = ("messages over the JSON-native domain (boundary integers/floats, control/astral/escape-requiring text, nesting up to 12 quick / "
        "60 thorough) and the documented rich types (Path, date, datetime incl. UTC offsets, time, set, complex, NaN/inf, tuple, dataclasses, Enum/IntEnum "
        "members, UUIDs, custom json_default extensions) are offered to a binary and a text FileDestination wrapping recording file objects, directly and through "
        "add_destinations + the logging API. Oracle: the op tape is (write flush)* after the zero-length mode probe, one pair per "
        "message; each write is one newline-terminated line without inner newline, valid UTF-8, decoded by the stdlib json module "
        "to an object equal to the message (strict types, -0.0 sign, exact 64-bit integers; rich types in their documented encoding); "
        "binary bytes == UTF-8 of the text variant. part 'realtext': io.TextIOWrapper files in utf-8/16/32 with program text pending in the wrapper, destination built positionally "
        "(file, encoder, json_default) or by to_file(f, None, default): lines go through the file's own write/flush, after the pending text, in its encoding. "
        "part 'faultyfile': the file's write()/flush() raise on selected calls (BlockingIOError, "
        "InterruptedError, ENOSPC, closed file): still exactly one write of each offered message's line (none duplicated by a retry), "
        "only the file's own exception may come out, later messages are written normally. non-trivial = message with an escape-requiring string, a boundary number or "
        "nesting >=3; distinct by hash of the message. json_default 'e' handles the application's types only and refuses everything else without "
        "delegating: what the encoder writes by itself (dates, times, datetimes, tuples) must not depend on it. part 'shutdown': fresh "
        "interpreters whose leftover objects log Path/set/complex/date/... values from __del__ while the interpreter is torn down, into "
        "FileDestinations on stdout (text, binary, to_file): one faithful line per message offered. part 'env' and the 'blocked' batches: the same oracle in differently configured environments - optional third-party modules blocked the standard way (sys.modules[name] = None for numpy / pydantic / pandas / polars / orjson, before or after eliot is imported; in the forked case for the main generator, and in fresh interpreters) and fresh interpreters started with -bb, -b -W error, -W error, -O, where messages holding JSON-native and rich values (Path, set, complex, date, datetime, time, tuple, a delegating json_default's type) are offered, directly and through the logging API, to binary and text FileDestinations on in-memory and real files: every message has exactly one faithful line in every file, in order, and binary and text files hold the same bytes" " Two in five of the long-lived destination pairs are built with the deprecated encoder=<JSONEncoder subclass> spelling (its default() is the same function): same lines. part 'rotating': a file object that forwards every attribute to its CURRENT stream (re-openable log file), re-opened between groups of messages: every message is one line in the stream current when it was logged and nowhere else.")
ASSUMPTIONS = ["value domain bounded by orjson's own limits (64-bit integers, nesting < 254, valid Unicode)"]
BATCH = 500


class Custom(object):
    def __init__(self, v):
        self.v = v


class Custom2(object):
    def __init__(self, v):
        self.v = v


import dataclasses as _dc
import enum as _enum


@_dc.dataclass
class RichRecord(object):
    name: str
    payload: object


class RichColour(_enum.Enum):
    RED = "red"
    BLUE = 3


class RichLevel(_enum.IntEnum):
    LOW = 1
    HIGH = 2**40


class AppDateTime(datetime.datetime):
    pass


class AppDate(datetime.date):
    pass


class AppTime(datetime.time):
    pass


class AppComplex(complex):
    pass


class AppSet(set):
    pass


def default_a(o):
    if isinstance(o, Custom):
        return {"custom": o.v}
    return json_default(o)


def default_b(o):
    if isinstance(o, Custom):
        return ["C", o.v]
    if isinstance(o, Custom2):
        return Custom(o.v)  # chained: default output is itself handled by default
    return json_default(o)


def default_c(o):
    """A caller's extension that OVERRIDES the encoding of types the library default also knows: the caller's encoding wins."""
    if isinstance(o, set):
        return {"$set": sorted(o, key=repr)}
    if isinstance(o, complex):
        return "complex:%r" % (o,)
    if isinstance(o, pathlib.Path):
        return {"$path": list(o.parts)}
    return json_default(o)


class Opaque(object):
    """A class no json_default knows."""


class HalfBuilt(object):
    """Logged from its own __init__ before its attributes exist: repr() raises AttributeError."""

    def __repr__(self):
        return "<HalfBuilt %s>" % (self.name,)


def default_d(o):
    """The documented way to extend: delegate to the library's json_default and handle its TypeError for what it does not know."""
    try:
        return json_default(o)
    except TypeError:
        return {"unsupported": type(o).__name__}


def default_e(o):
    """A caller's json_default that handles the application's own types and refuses everything else WITHOUT delegating to the library's
    (the style of eliot's own test_filedestination_custom_json_default). What the encoder writes by itself (dates, times, datetimes,
    tuples) does not depend on it."""
    if isinstance(o, Custom):
        return {"custom": o.v}
    raise TypeError("default_e does not know %s" % type(o).__name__)


DEFAULTS = {"default": json_default, "a": default_a, "b": default_b, "c": default_c, "d": default_d, "e": default_e}


def plan(tier, seed):
    n = 100000 if tier == "quick" else 1000000
    specs = [{"seed": seed, "lo": i, "hi": min(n, i + BATCH), "tier": tier} for i in range(0, n, BATCH)]
    k = 8 if tier == "quick" else 80
    specs += [{"seed": seed, "lo": 10**7 + i * BATCH, "hi": 10**7 + (i + 1) * BATCH, "tier": tier, "interpreter": "no_orjson"} for i in range(k)]
    nr = 1500 if tier == "quick" else 15000
    specs += [{"part": "realtext", "seed": seed, "lo": i, "hi": min(nr, i + 100), "tier": tier} for i in range(0, nr, 100)]
    nrot = 400 if tier == "quick" else 4000
    specs += [{"part": "rotating", "seed": seed, "lo": i, "hi": min(nrot, i + 200)} for i in range(0, nrot, 200)]
    nf = 2000 if tier == "quick" else 20000
    specs += [{"part": "faultyfile", "seed": seed, "lo": i, "hi": min(nf, i + 100), "tier": tier} for i in range(0, nf, 100)]
    combos = [(d, hw, v) for d in shutdown.DESTS if d != "function" for hw in shutdown.HOWS for v in sorted(shutdown.EXPECTED_JSON)]
    random.Random("%s:C10:shutdown" % seed).shuffle(combos)
    if tier == "quick":
        combos = [c_ for d in shutdown.DESTS for c_ in [x for x in combos if x[0] == d][:3]]  # three per kind of destination
    specs += [{"part": "shutdown", "seed": seed, "dest": d, "how": hw, "value": v} for d, hw, v in combos]
    # the main generator with optional third-party modules blocked in the (forked) case's interpreter
    kb = 6 if tier == "quick" else 60
    for i in range(kb):
        r = random.Random("%s:C10:blocked:%d" % (seed, i))
        blocked = [m for m in OPTIONAL_MODULES if r.random() < 0.5] or [OPTIONAL_MODULES[i % len(OPTIONAL_MODULES)]]
        if i % 2 == 0 and not set(blocked) & {"numpy", "pydantic"}:
            blocked.insert(0, OPTIONAL_MODULES[(i // 2) % 2])  # (those two are looked up before eliot's own encodings of Path/date/set/complex are tried)
        specs.append({"seed": seed, "lo": 2 * 10**7 + i * BATCH, "hi": 2 * 10**7 + (i + 1) * BATCH, "tier": tier, "blocked": blocked})
    # fresh interpreters: warning / optimisation flags x blocked optional modules
    ne = 10 if tier == "quick" else 150
    for j in range(ne):
        r = random.Random("%s:C10:env:%d" % (seed, j))
        flags = ENV_FLAGS[j % len(ENV_FLAGS)]
        blocked = []
        if j % 3 != 2:
            blocked = [m for m in OPTIONAL_MODULES + ["orjson"] if r.random() < 0.4] or [r.choice(OPTIONAL_MODULES)]
            if j % 3 == 0 and not set(blocked) & {"numpy", "pydantic"}:
                blocked.insert(0, r.choice(["numpy", "pydantic"]))
        specs.append({"part": "env", "seed": seed, "j": j, "tier": tier, "flags": flags, "blocked": blocked, "when": r.choice(["before", "after"]),
                      "json_default": r.choice(["none", "delegating"])})
    return specs


OPTIONAL_MODULES = ["numpy", "pydantic", "pandas", "polars"]  # what eliot's json_default looks up in sys.modules without requiring it
ENV_FLAGS = [["-bb"], ["-b", "-W", "error"], [], ["-bb", "-O"], ["-W", "error"]]

ENV_CHILD = r'''
import sys
spec = __import__("json").loads(sys.stdin.read())
if spec["when"] == "before":
    for name in spec["blocked"]:
        sys.modules[name] = None  # Python's own marker for "this import is blocked"
sys.path.insert(0, spec["repo"])
import base64, datetime, io, json, os
from pathlib import Path
import eliot
from eliot import FileDestination, add_destinations, log_message, start_action
from eliot.json import json_default
if spec["when"] == "after":
    for name in spec["blocked"]:
        sys.modules[name] = None


class Custom(object):
    def __init__(self, v):
        self.v = v


def delegating(o):
    if isinstance(o, Custom):
        return {"custom": o.v}
    return json_default(o)


def build(x):
    if isinstance(x, list):
        return [build(y) for y in x]
    if isinstance(x, dict):
        r = x.get("$rich")
        if r is None:
            return {k: build(v) for k, v in x.items()}
        v = x["v"]
        if r == "path":
            return Path(v)
        if r == "set":
            return set(v)
        if r == "complex":
            return complex(v[0], v[1])
        if r == "date":
            return datetime.date(*v)
        if r == "datetime":
            return datetime.datetime(*v)
        if r == "time":
            return datetime.time(*v)
        if r == "tuple":
            return tuple(build(y) for y in v)
        if r == "custom":
            return Custom(build(v))
        raise ValueError(r)
    return x


kw = {} if spec["json_default"] == "none" else {"json_default": delegating}
files = {"mem_binary": io.BytesIO(), "mem_text": io.StringIO(),
         "real_binary": open(os.path.join(spec["dir"], "b.log"), "wb"),
         "real_text": open(os.path.join(spec["dir"], "t.log"), "w", encoding="utf-8", newline="\n")}
order = ["mem_binary", "mem_text", "real_binary", "real_text"]
dests = [FileDestination(file=files[n], **kw) for n in order]
add_destinations(*dests)
raised = []
for m in spec["messages"]:
    fields = build(m["fields"])
    try:
        if m["how"] == "direct":
            full = dict(fields)
            full.update(m["meta"])
            for n, d in zip(order, dests):
                try:
                    d(dict(full))
                except Exception as e:
                    raised.append([m["meta"]["vf_k"], n, "%s: %s" % (type(e).__name__, e)])
        elif m["how"] == "log_message":
            log_message(message_type="c10:env", vf_k=m["meta"]["vf_k"], **fields)
        else:
            with start_action(action_type="c10:env", vf_k=m["meta"]["vf_k"], **fields) as a:
                a.add_success_fields(vf_k=m["meta"]["vf_k"])
    except Exception as e:
        raised.append([m["meta"]["vf_k"], m["how"], "%s: %s" % (type(e).__name__, e)])
out = {"eliot": eliot.__file__, "raised": raised, "bytes_warning": sys.flags.bytes_warning, "optimize": sys.flags.optimize,
       "blocked": [n for n in spec["blocked"] if n in sys.modules and sys.modules[n] is None], "files": {}}
out["files"]["mem_binary"] = base64.b64encode(files["mem_binary"].getvalue()).decode("ascii")
out["files"]["mem_text"] = base64.b64encode(files["mem_text"].getvalue().encode("utf-8")).decode("ascii")
for n, fn in (("real_binary", "b.log"), ("real_text", "t.log")):
    files[n].close()
    with open(os.path.join(spec["dir"], fn), "rb") as f:
        out["files"][n] = base64.b64encode(f.read()).decode("ascii")
sys.stdout.write("\n@@C10-ENV@@" + json.dumps(out) + "\n")
sys.stdout.flush()
'''


def gen_tagged_rich(rng, custom_ok):
    """-> (tagged form the child interpreter rebuilds the value from, expected decoded image)"""
    r = rng.randrange(9 if custom_ok else 8)
    if r == 0:
        p = pathlib.Path(rng.choice(["/tmp/x", "rel/p.txt", ".", "/a b/\u00e9", "/var/log/\U0001f600.log", "a\\b/c\"d"]))
        return {"$rich": "path", "v": str(p)}, str(p)
    if r == 1:
        items = rng.sample([1, 2, 3, "a", "b", 2.5, None, True, "\u00e9"], rng.randint(0, 5))
        return {"$rich": "set", "v": items}, ("set", set(items))
    if r == 2:
        c = complex(gen.gen_float(rng), rng.choice([0.0, -0.0, 1.5, -2.0]))
        return {"$rich": "complex", "v": [c.real, c.imag]}, {"real": c.real, "imag": c.imag}
    if r == 3:
        a = [rng.randint(1, 9999), rng.randint(1, 12), rng.randint(1, 28)]
        return {"$rich": "date", "v": a}, datetime.date(*a).isoformat()
    if r == 4:
        a = [rng.randint(1, 9999), rng.randint(1, 12), rng.randint(1, 28), rng.randint(0, 23), rng.randint(0, 59), rng.randint(0, 59), rng.choice([0, 1, 999999])]
        return {"$rich": "datetime", "v": a}, datetime.datetime(*a).isoformat()
    if r == 5:
        a = [rng.randint(0, 23), rng.randint(0, 59), rng.randint(0, 59), rng.choice([0, 5, 999999])]
        return {"$rich": "time", "v": a}, datetime.time(*a).isoformat()
    if r == 6:
        v = [gen.gen_scalar(rng) for _ in range(rng.randint(0, 3))]
        return {"$rich": "tuple", "v": v}, list(v)
    if r == 7:
        # a rich value inside containers
        t, e = gen_tagged_rich(rng, custom_ok)
        if isinstance(e, tuple):
            return {"$rich": "path", "v": "nested/p"}, "nested/p"
        return {"in": [t, {"k": t}]}, {"in": [e, {"k": e}]}
    v = gen.gen_value(rng, 1)
    return {"$rich": "custom", "v": v}, {"custom": v}


def env_case(spec):
    """One fresh interpreter, started with spec['flags'], in which spec['blocked'] optional modules are blocked the standard way:
    messages over the JSON-native domain and the documented rich types go to binary and text FileDestinations (in memory and on
    real files), directly and through the logging API. The parent knows every message and judges what the files hold."""
    import base64
    import os
    import shutil
    import subprocess
    import tempfile
    res = {"evals": 1, "nontrivial": [], "counters": {}, "violations": [], "sample": None}
    rng = random.Random("%s:C10:envcase:%d" % (spec["seed"], spec["j"]))
    custom_ok = spec["json_default"] == "delegating"
    reserved = ("task_uuid", "task_level", "timestamp", "message_type", "action_type", "action_status", "vf_k", "$rich", "exception", "reason")
    messages, expected = [], []
    nrich = 0
    for k in range(30 if spec["tier"] == "quick" else 100):
        fields, exp = {}, {}
        for _ in range(rng.randint(1, 4)):
            key = gen.gen_key(rng)
            if key in reserved:
                continue
            if rng.random() < 0.4:
                fields[key] = exp[key] = gen.gen_value(rng, rng.choice([0, 1, 2]))
            else:
                fields[key], exp[key] = gen_tagged_rich(rng, custom_ok)
                nrich += 1
        if k % 5 == 0 and "p" not in fields:
            fields["p"], exp["p"] = {"$rich": "path", "v": "/srv/app/%d" % k}, "/srv/app/%d" % k  # (at least some rich values in every run)
            nrich += 1
        how = rng.choice(["direct", "log_message", "action"])
        meta = {"vf_k": k}
        if how == "direct":
            meta.update({"task_uuid": "env-%d" % k, "task_level": [rng.randint(1, 9)], "timestamp": rng.choice([0.0, 1e9 + 0.123456, 1.5]), "message_type": "c10:env"})
        messages.append({"how": how, "fields": fields, "meta": meta})
        expected.append((how, exp, meta))
    d = tempfile.mkdtemp(prefix="vf-c10-env-")
    try:
        env = {k_: v_ for k_, v_ in os.environ.items() if k_ not in ("PYTHONPATH", "PYTHONUNBUFFERED", "PYTHONWARNINGS", "PYTHONOPTIMIZE")}
        child_spec = {"repo": REPO, "dir": d, "blocked": spec["blocked"], "when": spec["when"], "json_default": spec["json_default"], "messages": messages}
        try:
            proc = subprocess.run([_sys.executable] + list(spec["flags"]) + ["-c", ENV_CHILD], input=json.dumps(child_spec).encode("ascii"), env=env,
                                  stdout=subprocess.PIPE, stderr=subprocess.PIPE, timeout=180, cwd=d, start_new_session=True)
        except subprocess.TimeoutExpired:
            return {"inconclusive": "the interpreter started with %s did not finish in time" % (spec["flags"],)}
    finally:
        shutil.rmtree(d, ignore_errors=True)
    stderr = proc.stderr.decode("utf-8", "replace")
    k = proc.stdout.rfind(b"@@C10-ENV@@")
    if k < 0:
        # the child's own program is trivial; it can only die on what the library does in this environment
        if "Traceback" in stderr and ("eliot" in stderr):
            res["violations"].append({"msg": "logging supported values in an interpreter started with %s, blocked modules %s (%s import): the program died: %s"
                                             % (" ".join(spec["flags"]) or "no flags", spec["blocked"], spec["when"], stderr.strip().splitlines()[-1][:200]),
                                      "mech": None, "detail": {"spec": spec, "stderr": stderr[-3000:]}})
            return res
        return {"inconclusive": "the environment probe died without a result (exit status %s): %s" % (proc.returncode, stderr[-300:])}
    try:
        out = json.loads(proc.stdout[k + len(b"@@C10-ENV@@"):].decode("utf-8"))
    except Exception as e:
        return {"inconclusive": "unreadable result of the environment probe: %r" % (e,)}
    if not os.path.realpath(out["eliot"]).startswith(os.path.realpath(REPO) + os.sep):
        return {"inconclusive": "the environment probe imported eliot from %s" % out["eliot"]}
    want_bw = 2 if "-bb" in spec["flags"] else (1 if "-b" in spec["flags"] else 0)
    if out["bytes_warning"] != want_bw or sorted(out["blocked"]) != sorted(spec["blocked"]):
        return {"inconclusive": "the environment probe did not run in the requested environment: %r" % ({k_: out[k_] for k_ in ("bytes_warning", "optimize", "blocked")},)}
    problems = []
    where = "interpreter flags %s, blocked modules %s (%s eliot's import)" % (" ".join(spec["flags"]) or "none", spec["blocked"] or "none", spec["when"])
    for kk, n, text in out["raised"]:
        problems.append("%s: offering message %d (%s) raised %s" % (where, kk, n, text))
    want_seq = []
    for how, exp, meta in expected:
        want_seq.append((meta["vf_k"], None if how != "action" else "started"))
        if how == "action":
            want_seq.append((meta["vf_k"], "succeeded"))
    kept = {}
    for name in ("mem_binary", "mem_text", "real_binary", "real_text"):
        data = base64.b64decode(out["files"][name])
        if data and not data.endswith(b"\n"):
            problems.append("%s: the %s file does not end with a newline" % (where, name))
        lines = data.split(b"\n")[:-1] if data else []
        objs = []
        keep = []
        failures = []
        for ln in lines:
            try:
                obj = json.loads(ln.decode("utf-8"))
                if not isinstance(obj, dict):
                    raise ValueError("not an object")
            except Exception as e:
                problems.append("%s: a line of the %s file is not a UTF-8 JSON object: %r (%s)" % (where, name, ln[:80], e))
                continue
            if obj.get("message_type") == "eliot:destination_failure":
                failures.append("%s: %s" % (obj.get("exception"), str(obj.get("reason"))[:160]))  # (a message eliot itself offered; not one of ours)
                continue
            objs.append(obj)
            keep.append(ln)
        kept[name] = keep
        got_seq = [(o.get("vf_k"), o.get("action_status")) for o in objs]
        if got_seq != want_seq:
            missing = [x for x in want_seq if x not in got_seq]
            problems.append("%s: %d messages were offered to the %s file destination, it holds lines for %d of them (%s; first missing (k, action status): %s%s)"
                            % (where, len(want_seq), name, len([x for x in got_seq if x in want_seq]),
                               "order/multiplicity differs" if not missing else "%d missing" % len(missing), missing[:3],
                               "; destination failures reported: %s" % failures[:2] if failures else ""))
            continue
        by_k = {}
        for o in objs:
            by_k.setdefault(o["vf_k"], []).append(o)
        for how, exp, meta in expected:
            o = by_k[meta["vf_k"]][0]
            if how == "direct":
                full = dict(exp)
                full.update(meta)
                if set(o) != set(full):
                    problems.append("%s: %s file: keys %r != %r" % (where, name, sorted(o), sorted(full)))
                exp_here = full
            else:
                exp_here = exp
            for key, e in exp_here.items():
                if key not in o:
                    problems.append("%s: %s file: field %r of message %d is missing" % (where, name, key, meta["vf_k"]))
                elif not match(e, o[key]):
                    problems.append("%s: %s file: field %r decodes to %r, logged %r" % (where, name, key, o[key], e))
    if len(kept) == 4 and not problems:
        for a_, b_ in (("mem_binary", "mem_text"), ("real_binary", "real_text"), ("mem_binary", "real_binary")):
            if kept[a_] != kept[b_]:
                problems.append("%s: the %s and %s files received different content for the same messages" % (where, a_, b_))
    c = res["counters"]
    c["environment_interpreters"] = 1
    c["write_calls_checked"] = 4 * len(want_seq)
    c["rich_values"] = nrich
    if spec["blocked"]:
        c["messages_logged_with_optional_modules_blocked"] = len(messages)
    if want_bw and ("-bb" in spec["flags"] or "error" in spec["flags"]):
        c["messages_logged_with_bytes_warnings_as_errors"] = len(messages)
    res["nontrivial"].append(h(["env", spec["flags"], spec["blocked"], spec["when"], spec["json_default"], spec["j"]]))
    if problems:
        res["violations"].append({"msg": problems[0], "mech": None, "detail": {"part": "env", "spec": spec, "problems": problems[:8], "stderr": stderr[-1500:]}})
    return res


def shutdown_case(spec):
    """Messages offered to a file destination from finalizers that run while the interpreter shuts down (a fresh interpreter per case):
    still one valid, faithful line each."""
    import subprocess
    res = {"evals": 1, "nontrivial": [], "counters": {}, "violations": [], "sample": None}
    sp = {"dest": spec["dest"], "how": spec["how"], "value": spec["value"]}
    try:
        out = shutdown.run_probe(REPO, sp)
    except subprocess.TimeoutExpired:
        return {"inconclusive": "the shutdown probe did not finish in time"}
    problems, inc = shutdown.judge_lines(out, sp)
    if inc:
        return {"inconclusive": inc}
    res["counters"]["messages_offered_during_interpreter_shutdown"] = out["expected_messages"] - 4
    res["nontrivial"].append(h(["shutdown", spec["dest"], spec["how"], spec["value"]]))
    if problems:
        res["violations"].append({"msg": problems[0], "mech": None, "detail": {"problems": problems, "spec": spec, "stderr": out["stderr"][-10:]}})
    return res


FLAGGED = [None]  # set while a message is generated that holds a value of a recorded finding's kind


def gen_rich(rng, which):
    """Returns (value, expected decoded image or callable checker)."""
    r = rng.randrange(17)
    if which == "e":
        r = rng.choice([2, 3, 4, 14, 8, 9, 99])  # (only what does not need the library's json_default)
    if NO_ORJSON and r in (7, 11, 12, 13):
        r = 2  # (non-finite floats, dataclasses, Enum members and UUIDs are encoded by orjson itself, not by eliot's json_default)
    if which == "d" and r in (9, 10):
        o = rng.choice([Opaque, HalfBuilt])()
        return o, {"unsupported": type(o).__name__}
    if r == 16 and which == "c":
        r = 15  # (json_default 'c' gives sets and complex numbers its own encoding)
    if r == 15:
        # application subclasses of the documented types
        k = rng.randrange(4 if which != "c" else 3)
        if k == 0:
            d = AppDateTime(rng.randint(1, 9999), rng.randint(1, 12), rng.randint(1, 28), rng.randint(0, 23), rng.randint(0, 59), rng.randint(0, 59),
                            rng.choice([0, 7, 999999]), tzinfo=rng.choice([None, datetime.timezone.utc, datetime.timezone(datetime.timedelta(minutes=-150))]))
            return d, d.isoformat()
        if k == 1:
            d = AppDate(rng.randint(1, 9999), rng.randint(1, 12), rng.randint(1, 28))
            return d, d.isoformat()
        if k == 2:
            t = AppTime(rng.randint(0, 23), rng.randint(0, 59), rng.randint(0, 59), rng.choice([0, 5, 999999]))
            return t, t.isoformat()
        c = AppComplex(gen.gen_float(rng), rng.choice([0.0, 1.5, -2.0]))
        return c, {"real": c.real, "imag": c.imag}
    if r == 16:
        s = AppSet(rng.sample([1, 2, 3, "a", "b", 2.5, None, True, "é"], rng.randint(0, 5)))
        return s, ("set", set(s))
    if r == 11:
        # dataclasses (named in json_default's documentation): an object of their fields
        v = gen.gen_value(rng, 1)
        name = "n%d" % rng.randint(0, 9)
        return RichRecord(name, v), {"name": name, "payload": v}
    if r == 12:
        m = rng.choice(list(RichColour) + list(RichLevel))
        return m, m.value
    if r == 13:
        import uuid
        u = uuid.UUID(int=rng.getrandbits(128))
        return u, str(u)
    if r == 14:
        d = datetime.datetime(rng.randint(1, 9999), rng.randint(1, 12), rng.randint(1, 28), rng.randint(0, 23), rng.randint(0, 59), rng.randint(0, 59),
                              rng.choice([0, 123456]), tzinfo=datetime.timezone(datetime.timedelta(minutes=rng.choice([-720, -90, 0, 330, 840]))))
        if not NO_ORJSON and rng.random() < 0.08:
            # a UTC offset that is not a whole number of minutes (local mean time: what zoneinfo gives for dates before standard time was
            # introduced, e.g. Europe/Amsterdam in 1900: +00:19:32). Recorded finding: orjson writes the offset rounded to minutes.
            d = d.replace(tzinfo=datetime.timezone(datetime.timedelta(minutes=rng.choice([19, -50, 53]), seconds=rng.choice([32, 28, 8]))))
            FLAGGED[0] = "tz-offset-with-seconds"
        return d, d.isoformat()
    if which == "c" and r in (0, 1, 5, 6):
        if r in (0, 1):
            p = pathlib.Path(rng.choice(["/tmp/x", "rel/p.txt", "/a b/é"]))
            return p, {"$path": list(p.parts)}
        if r == 5:
            s = set(rng.sample([1, 2, 3, "a", "b", 2.5, None, True, "é"], rng.randint(0, 5)))
            return s, {"$set": sorted(s, key=repr)}
        c = complex(gen.gen_float(rng), rng.choice([0.0, 1.5, -2.0]))
        return c, "complex:%r" % (c,)
    if r == 0:
        p = pathlib.Path("/" + "/".join(gen.gen_text(rng, long_ok=False).replace("/", "_").replace("\x00", "") or "x" for _ in range(rng.randint(1, 3))))
        return p, str(p)
    if r == 1:
        p = pathlib.Path(rng.choice(["/tmp/x", "rel/p.txt", ".", "/a b/é"]))
        return p, str(p)
    if r == 2:
        d = datetime.date(rng.randint(1, 9999), rng.randint(1, 12), rng.randint(1, 28))
        return d, d.isoformat()
    if r == 3:
        d = datetime.datetime(rng.randint(1, 9999), rng.randint(1, 12), rng.randint(1, 28), rng.randint(0, 23), rng.randint(0, 59),
                              rng.randint(0, 59), rng.choice([0, 1, 999999, rng.randint(0, 999999)]))
        return d, d.isoformat()
    if r == 4:
        t = datetime.time(rng.randint(0, 23), rng.randint(0, 59), rng.randint(0, 59), rng.choice([0, 5, 999999]))
        if not NO_ORJSON and which != "c" and rng.random() < 0.1:
            # a time of day WITH a UTC offset (recorded finding: orjson refuses those before any json_default is asked)
            t = t.replace(tzinfo=rng.choice([datetime.timezone.utc, datetime.timezone(datetime.timedelta(hours=2))]))
            FLAGGED[0] = "tz-aware-time"
        return t, t.isoformat()
    if r == 5:
        s = set(rng.sample([1, 2, 3, "a", "b", 2.5, None, True, "é"], rng.randint(0, 5)))
        return s, ("set", s)
    if r == 6:
        c = complex(gen.gen_float(rng), rng.choice([0.0, -0.0, 1.5, -2.0]))
        return c, {"real": c.real, "imag": c.imag}
    if r == 7:
        return rng.choice([float("nan"), float("inf"), float("-inf")]), None
    if r == 8:
        v = tuple(gen.gen_scalar(rng) for _ in range(rng.randint(0, 3)))
        return v, list(v)
    if r == 9 and which in ("a", "b", "e"):
        v = gen.gen_value(rng, 1)
        return Custom(v), ({"custom": v} if which in ("a", "e") else ["C", v])
    if r == 10 and which == "b":
        v = gen.gen_scalar(rng)
        return Custom2(v), ["C", v]
    d = datetime.datetime(2024, 2, 29, 23, 59, 59, 999999, tzinfo=datetime.timezone.utc)
    return d, d.isoformat()


def match(expected, got):
    if isinstance(expected, tuple) and expected and expected[0] == "set":
        if not isinstance(got, list) or len(got) != len(expected[1]):
            return False
        rest = list(expected[1])
        for g in got:
            for i, e in enumerate(rest):
                if json_equal(e, g):
                    del rest[i]
                    break
            else:
                return False
        return True
    return json_equal(expected, got)


def one(seed, i, tier, res, pool):
    rng = random.Random("%s:C10:%d" % (seed, i))
    FLAGGED[0] = None
    which = rng.choice(["default", "default", "a", "b", "c", "d", "e"])
    if which == "e" and NO_ORJSON:
        which = "a"  # (without orjson dates and times are encoded by the json_default, so a non-delegating one legitimately refuses them)
    default = DEFAULTS[which]
    maxdepth = 12 if tier == "quick" else 60
    fields = {}
    expected = {}
    rich = 0
    for _ in range(rng.randint(1, 5)):
        k = gen.gen_key(rng)
        if k in ("task_uuid", "task_level", "timestamp"):
            continue
        r = rng.random()
        if r < 0.004:
            # a very long value (hundreds of kilobytes up to a megabyte)
            v = rng.choice(["x", "é\n", "\U0001f600", "\\\""]) * rng.choice([70000, 300000, 1000000 // 4])
            e = v
        elif r < 0.6:
            v = gen.gen_value(rng, rng.choice([0, 1, 2, 4]))
            e = v
        elif r < 0.7:
            v = gen.gen_deep(rng, rng.randint(3, maxdepth))
            e = v
        elif r < 0.8:
            v, e = gen_rich(rng, which)
            # rich value nested inside containers
            v, e = {"in": [v]}, ({"in": [e]} if not (isinstance(e, tuple) and e and e[0] == "set") else None)
            if e is None:
                continue
            rich += 1
        else:
            v, e = gen_rich(rng, which)
            rich += 1
        fields[k] = v
        expected[k] = e
    message = {"task_uuid": "u-%d" % i, "task_level": [rng.randint(1, 9) for _ in range(rng.randint(1, 4))],
               "timestamp": rng.choice([_time.time(), 0.0, 1e9 + 0.123456]), "message_type": "t:" + gen.gen_text(rng, long_ok=False)}
    message.update(fields)
    exp_message = dict(message)
    exp_message.update(expected)

    # one pair of destinations per json_default lives across all messages of the batch (state kept between messages would show)
    if which not in pool:
        fb0, ft0 = RecordingFile("b"), RecordingFile("t")
        if rng.random() < 0.4:
            # the deprecated spelling: encoder=<a JSONEncoder subclass> whose default() is the same function - the lines are the same
            import json as _json
            import warnings as _warnings

            the_default = default

            class _Encoder(_json.JSONEncoder):
                def default(self, o):
                    return the_default(o)
            with _warnings.catch_warnings():
                _warnings.simplefilter("ignore")
                pool[which] = (fb0, ft0, FileDestination(file=fb0, encoder=_Encoder), FileDestination(file=ft0, encoder=_Encoder))
            res["counters"]["destinations_built_with_the_deprecated_encoder_argument"] = res["counters"].get("destinations_built_with_the_deprecated_encoder_argument", 0) + 2
        else:
            pool[which] = (fb0, ft0, FileDestination(file=fb0, json_default=default), FileDestination(file=ft0, json_default=default))
    fb, ft, db, dt = pool[which]
    mark_b, mark_t = len(fb.ops), len(ft.ops)
    first_use = mark_b == 1 or mark_b == 0
    problems = []
    via_api = rng.random() < 0.25
    try:
        fx = dx = None
        if via_api:
            # through the registry: the message eliot builds itself; a further destination with a DIFFERENT json_default
            # receives the very same dict from the same logging call and must encode it its own way
            def has_custom2(x):
                if isinstance(x, Custom2):
                    return True
                if isinstance(x, dict):
                    return any(has_custom2(y) for y in x.values())
                if isinstance(x, (list, tuple, set)):
                    return any(has_custom2(y) for y in x)
                return False
            # (only when both defaults can encode every value: Custom2 is known to default 'b' alone)
            if which in ("a", "b") and not has_custom2(fields):
                other = "b" if which == "a" else "a"
                fx = RecordingFile("b")
                dx = FileDestination(file=fx, json_default=DEFAULTS[other])
                add_destinations(dx)
            add_destinations(db, dt)
            try:
                if rng.random() < 0.5:
                    log_message(message_type=message["message_type"], **fields)
                    npairs = 1
                else:
                    with start_action(action_type="c10", **fields):
                        pass
                    npairs = 2
            finally:
                remove_destination(db)
                remove_destination(dt)
                if dx is not None:
                    remove_destination(dx)
        else:
            db(dict(message))
            dt(dict(message))
            npairs = 1
    except BaseException as e:
        problems.append("offering the message raised %r" % (e,))
        npairs = 0

    decoded_b = []
    for name, f, mark in (("binary", fb, mark_b), ("text", ft, mark_t)):
        ops = f.ops[mark:]
        if mark <= 1 and name == "binary" and not (f.ops and f.ops[0][0] == "write" and len(f.ops[0][1]) == 0):
            problems.append("binary: the first operation on the file is not the zero-length mode probe")
        # the mode probe write(b"") is recorded by the binary file and rejected (TypeError) by the text file
        body = ops[1:] if (mark == 0 and ops and ops[0][0] == "write" and len(ops[0][1]) == 0) else ops
        kinds = [o[0] for o in body]
        if kinds != ["write", "flush"] * npairs:
            problems.append("%s: operations for %d message(s) are %s, expected (write, flush) per message" % (name, npairs, kinds))
            continue
        for w in body[0::2]:
            data = w[1]
            raw = data if name == "binary" else None
            try:
                if name == "binary":
                    if not isinstance(data, bytes):
                        problems.append("binary: wrote %s" % type(data).__name__)
                    text = bytes(data).decode("utf-8")
                else:
                    text = data
                    raw = data.encode("utf-8")
            except Exception as e:
                problems.append("%s: not valid UTF-8: %r" % (name, e))
                continue
            if not text.endswith("\n") or "\n" in text[:-1] or "\r" in text:
                problems.append("%s: line is not exactly one newline-terminated line" % name)
            try:
                obj = json.loads(text)
            except Exception as e:
                problems.append("%s: stdlib json cannot decode the line: %r" % (name, e))
                continue
            if not isinstance(obj, dict):
                problems.append("%s: line decodes to %s, not an object" % (name, type(obj).__name__))
                continue
            decoded_b.append((name, raw, obj))
    if fx is not None:
        # Custom(v) is {"custom": v} under default 'a' and ["C", v] under default 'b'
        for op in fx.ops:
            if op[0] != "write" or not op[1]:
                continue
            try:
                obj = json.loads(op[1].decode("utf-8"))
            except Exception as e:
                problems.append("second destination: line not decodable: %r" % (e,))
                continue
            if obj.get("message_type") == "eliot:destination_failure":
                continue
            for k, v in fields.items():
                if isinstance(v, Custom) and k in obj:
                    want = {"custom": v.v} if other == "a" else ["C", v.v]
                    if not json_equal(obj[k], want):
                        problems.append("destination with json_default %r encoded a custom object as %r, its own default gives %r" % (other, obj[k], want))
        res["counters"]["second_default_destinations"] = res["counters"].get("second_default_destinations", 0) + 1
    bins = [x for x in decoded_b if x[0] == "binary"]
    txts = [x for x in decoded_b if x[0] == "text"]
    for (n1, rawb, ob), (n2, rawt, ot) in zip(bins, txts):
        if via_api:
            # separately delivered dict is the same object: bytes must agree exactly
            pass
        if rawb != rawt:
            problems.append("binary and text files received different content")
    for name, raw, obj in decoded_b:
        if via_api:
            # metadata chosen by eliot; compare our fields only
            for k, e in expected.items():
                if k not in obj:
                    if obj.get("action_status") == "succeeded":
                        continue
                    problems.append("%s: field %r missing" % (name, k))
                elif not match(e, obj[k]):
                    problems.append("%s: field %r decodes to %r, logged %r" % (name, k, obj[k], e))
        else:
            if set(obj) != set(exp_message):
                problems.append("%s: keys %r != %r" % (name, sorted(obj), sorted(exp_message)))
            for k, e in exp_message.items():
                if k in obj and not match(e, obj[k]):
                    problems.append("%s: field %r decodes to %r, logged %r" % (name, k, obj[k], e))
    res["evals"] += 1
    c = res["counters"]
    c["write_calls_checked"] = c.get("write_calls_checked", 0) + 2 * npairs
    c["rich_values"] = c.get("rich_values", 0) + rich
    c["via_logging_api"] = c.get("via_logging_api", 0) + int(via_api)
    c["json_default_" + which] = c.get("json_default_" + which, 0) + 1
    d = max([gen.value_depth(v) for v in fields.values()] or [0])
    c["max_nesting_ge_10"] = c.get("max_nesting_ge_10", 0) + int(d >= 10)
    if any(gen.value_interesting(v) for v in expected.values() if not isinstance(v, tuple)):
        res["nontrivial"].append(h(expected))
    if res.get("sample") is None and rich and len(fields) <= 3:
        res["sample"] = {"message": exp_message, "binary_write": repr(fb.ops[-2][1])[:300] if len(fb.ops) > 1 else None}
    if problems:
        res["violations"].append({"msg": problems[0], "mech": FLAGGED[0], "detail": {"case": i, "problems": problems[:8], "message": message}})


class FaultyFile(RecordingFile):
    """A buffered file whose write()/flush() raise on selected calls (a full pipe in non-blocking mode, an interrupted call, a
    full disk). As with io.BufferedWriter, a write that was accepted stays in the buffer when a later flush fails."""

    def __init__(self, mode, faults_):
        RecordingFile.__init__(self, mode)
        self.faults = faults_  # {(op, call index): exception factory}
        self.calls = {"write": 0, "flush": 0}
        self.raised = []

    def _maybe(self, op):
        k = self.calls[op]
        self.calls[op] += 1
        fac = self.faults.get((op, k))
        if fac is not None:
            e = fac()
            self.raised.append(e)
            self.ops.append((op + "!", None))
            raise e

    def write(self, data):
        if len(data):
            self._maybe("write")
        return RecordingFile.write(self, data)

    def flush(self):
        self._maybe("flush")
        return RecordingFile.flush(self)


def faulty_file_case(seed, i, res):
    """Every message offered leads to exactly one write of its line, whatever the file's write()/flush() raise and when; the
    destination keeps working afterwards."""
    import errno
    rng = random.Random("%s:C10:ff:%d" % (seed, i))
    mode = rng.choice(["b", "t"])
    n = rng.randint(2, 8)
    facs = [lambda: BlockingIOError(errno.EAGAIN, "write could not complete without blocking", 0), lambda: InterruptedError(errno.EINTR, "interrupted"),
            lambda: OSError(errno.ENOSPC, "No space left on device"), lambda: ValueError("I/O operation on closed file."), lambda: TimeoutError("timed out")]
    faults_ = {}
    for _ in range(rng.choice([1, 1, 2, 3])):
        faults_[(rng.choice(["flush", "flush", "write"]), rng.randrange(n))] = rng.choice(facs)
    f = FaultyFile(mode, faults_)
    dest = FileDestination(file=f)
    problems = []
    for k in range(n):
        m = {"task_uuid": "ff-%d" % i, "task_level": [k + 1], "timestamp": 1.5, "message_type": "ff", "k": k, "text": gen.gen_text(rng, long_ok=False)}
        try:
            dest(m)
        except BaseException as e:
            if not f.raised or e is not f.raised[-1]:
                problems.append("offering message %d raised %r, which the file did not raise" % (k, e))
    lines = {}
    for op in f.ops:
        if op[0] == "write" and len(op[1]):
            try:
                obj = json.loads(op[1] if isinstance(op[1], str) else bytes(op[1]).decode("utf-8"))
                lines[obj["k"]] = lines.get(obj["k"], 0) + 1
            except Exception as e:
                problems.append("a write carried something that is not one JSON line: %r" % (e,))
    failed_writes = sum(1 for op in f.ops if op[0] == "write!")
    for k in range(n):
        if lines.get(k, 0) > 1:
            problems.append("message %d was written to the file %d times (the file's flush raised %s)" % (k, lines[k], [type(e).__name__ for e in f.raised]))
    if sum(lines.values()) + failed_writes != n:
        problems.append("%d messages offered, %d lines written and %d write calls refused by the file" % (n, sum(lines.values()), failed_writes))
    res["evals"] += 1
    c = res["counters"]
    c["faulty_file_runs"] = c.get("faulty_file_runs", 0) + 1
    c["file_faults_raised"] = c.get("file_faults_raised", 0) + len(f.raised)
    if f.raised:
        res["nontrivial"].append(h(["ff", mode, n, sorted((k[0], k[1]) for k in faults_)]))
    if problems:
        res["violations"].append({"msg": problems[0], "mech": None, "detail": {"part": "faultyfile", "case": i, "problems": problems[:5],
                                                                               "ops": [o[0] for o in f.ops][:40]}})


def realtext_case(seed, i, res):
    """Real text files (io.TextIOWrapper over a byte stream) in several encodings, with program text pending in the wrapper's own
    buffer, given positionally together with a json_default: the lines go through the file's own write()/flush(), after what the
    program wrote before, in the file's encoding."""
    import io
    from eliot import to_file
    rng = random.Random("%s:C10:rt:%d" % (seed, i))
    enc = rng.choice(["utf-8", "utf-16", "utf-32", "utf-8-sig", "utf-16-le"])
    calls = []

    class RecordingWrapper(io.TextIOWrapper):
        def write(self, s_):
            if len(s_):  # (the zero-length bytes write is eliot's probe for the file's mode: a text file refuses it)
                calls.append(("write", s_))
            return io.TextIOWrapper.write(self, s_)

        def flush(self):
            calls.append(("flush", None))
            return io.TextIOWrapper.flush(self)
    raw = io.BytesIO()
    f = RecordingWrapper(raw, encoding=enc, newline="\n")
    header = "# written by the program itself, not flushed: %s\n" % gen.gen_text(rng, long_ok=False).replace("\n", " ").replace("\r", " ")
    f.write(header)
    del calls[:]
    how = rng.choice(["FileDestination(f, None, default)", "FileDestination(file=f, json_default=default)", "to_file(f, None, default)"])
    n = rng.randint(1, 5)
    msgs = []
    problems = []
    try:
        if how.startswith("to_file"):
            to_file(f, None, default_a)
            try:
                for k in range(n):
                    v = Custom(k) if k % 2 == 0 else gen.gen_text(rng, long_ok=False)
                    msgs.append({"message_type": "rt", "k": k, "v": {"custom": k} if k % 2 == 0 else v})
                    log_message(message_type="rt", k=k, v=v)
            finally:
                remove_destination(FileDestination(f, None, default_a))
        else:
            dest = FileDestination(f, None, default_a) if how.startswith("FileDestination(f,") else FileDestination(file=f, json_default=default_a)
            for k in range(n):
                v = Custom(k) if k % 2 == 0 else gen.gen_text(rng, long_ok=False)
                msgs.append({"message_type": "rt", "k": k, "v": {"custom": k} if k % 2 == 0 else v})
                dest({"message_type": "rt", "k": k, "v": v, "task_uuid": "rt-%d" % i, "task_level": [k + 1], "timestamp": 1.0})
    except BaseException as e:
        problems.append("%s: offering a message raised %r" % (how, e))
    kinds = [c_[0] for c_ in calls]
    if kinds != ["write", "flush"] * n:
        problems.append("%s on a real text file: the file's own operations are %s, expected (write, flush) per message" % (how, kinds[:12]))
    elif not all(isinstance(c_[1], str) and c_[1].endswith("\n") and "\n" not in c_[1][:-1] for c_ in calls[0::2]):
        problems.append("%s on a real text file: a write did not carry exactly one text line" % how)
    f.flush()
    try:
        text = raw.getvalue().decode(enc)
    except Exception as e:
        text = None
        problems.append("the %s file does not decode as %s: %r" % (enc, enc, e))
    if text is not None and not problems:
        want_head = header
        if not text.startswith(want_head):
            problems.append("text the program wrote to the %s file before logging does not come first: file starts with %r" % (enc, text[:60]))
        else:
            lines = text[len(want_head):].split("\n")
            if lines[-1] != "" or len(lines) - 1 != n:
                problems.append("%d messages, %d lines in the text file" % (n, len(lines) - 1))
            else:
                for want, ln in zip(msgs, lines[:-1]):
                    try:
                        obj = json.loads(ln)
                    except Exception as e:
                        problems.append("line in the %s text file is not JSON: %r" % (enc, e))
                        break
                    if not all(json_equal(obj.get(k_), v_) for k_, v_ in want.items()):
                        problems.append("%s: line decodes to %r, expected fields %r" % (how, {k_: obj.get(k_) for k_ in want}, want))
                        break
    res["evals"] += 1
    c = res["counters"]
    c["real_text_file_runs"] = c.get("real_text_file_runs", 0) + 1
    c["write_calls_checked"] = c.get("write_calls_checked", 0) + n
    res["nontrivial"].append(h(["rt", enc, how, n]))
    if problems:
        res["violations"].append({"msg": problems[0], "mech": None, "detail": {"part": "realtext", "case": i, "encoding": enc, "how": how, "problems": problems[:5]}})


class ForwardingFile(object):
    """A log file object that forwards every attribute to its CURRENT stream (a re-openable log file: logrotate + reopen(); a stand-in
    for whatever sys.stdout is at the moment). Looking `write` up again after a rotation gives the new stream's method."""

    def __init__(self, text):
        import io
        self._text = text
        self._streams = [io.StringIO() if text else io.BytesIO()]

    def __getattr__(self, name):
        return getattr(self._streams[-1], name)

    def reopen(self):
        import io
        self._streams.append(io.StringIO() if self._text else io.BytesIO())


def rotating_case(seed, i, res):
    """One file destination on a forwarding file object; messages, a rotation, more messages, ...: every message is one line in the
    stream that was current when it was logged, and nowhere else."""
    import json as _json
    rng = random.Random("%s:C10:rot:%d" % (seed, i))
    text = rng.random() < 0.5
    f = ForwardingFile(text)
    how = rng.choice(["FileDestination", "to_file"])
    dest = FileDestination(file=f)
    epochs = []
    problems = []
    n = 0
    try:
        for e in range(rng.randint(2, 4)):
            ids = []
            for _ in range(rng.randint(0, 3)):
                n += 1
                m = {"task_uuid": "rot-%d" % i, "task_level": [n], "timestamp": 1.5, "message_type": "rot:m", "n": n, "s": gen.gen_text(rng, long_ok=False)}
                dest(m)
                ids.append(n)
            epochs.append(ids)
            f.reopen()
    except BaseException as e_:
        problems.append("offering message %d to the destination raised %r" % (n, e_))
    for e, ids in enumerate(epochs):
        raw = f._streams[e].getvalue()
        raw = raw if text else raw.decode("utf-8", "replace")
        lines = raw.split("\n")
        got = []
        for ln in lines[:-1]:
            try:
                got.append(_json.loads(ln).get("n"))
            except ValueError:
                problems.append("stream %d holds a line that is not JSON: %r" % (e, ln[:80]))
        if lines[-1] != "":
            problems.append("stream %d does not end with a line break" % e)
        if got != ids:
            problems.append("the stream that was current while messages %s were logged (stream %d of %d; the file object was re-opened after each group) holds the lines of messages %s" % (
                ids, e, len(epochs), got))
    res["evals"] += 1
    c = res["counters"]
    c["messages_logged_after_the_file_object_switched_streams"] = c.get("messages_logged_after_the_file_object_switched_streams", 0) + sum(len(x) for x in epochs[1:])
    res["nontrivial"].append(h(["rot", text, [len(x) for x in epochs]]))
    if problems:
        res["violations"].append({"msg": "forwarding file object (%s): %s" % ("text" if text else "binary", problems[0]), "mech": None,
                                  "detail": {"part": "rotating", "case": i, "text": text, "groups": epochs, "problems": problems[:5]}})


def run_case(spec):
    res = {"evals": 0, "nontrivial": [], "counters": {}, "violations": [], "sample": None}
    if spec.get("part") == "rotating":
        for i in range(spec["lo"], spec["hi"]):
            rotating_case(spec["seed"], i, res)
        return res
    if spec.get("part") == "shutdown":
        return shutdown_case(spec)
    if spec.get("part") == "env":
        return env_case(spec)
    if spec.get("part") == "realtext":
        for i in range(spec["lo"], spec["hi"]):
            realtext_case(spec["seed"], i, res)
        return res
    if spec.get("interpreter") == "no_orjson":
        if not NO_ORJSON:
            return {"inconclusive": "the no-orjson case was not started in an interpreter without orjson"}
        res["counters"]["messages_encoded_without_orjson"] = spec["hi"] - spec["lo"]
    if spec.get("part") == "faultyfile":
        for i in range(spec["lo"], spec["hi"]):
            faulty_file_case(spec["seed"], i, res)
        return res
    if spec.get("blocked"):
        # the standard way to block an import (what test suites do to simulate a missing optional dependency); this is a forked child
        for name in spec["blocked"]:
            _sys.modules[name] = None
    pool = {}
    for i in range(spec["lo"], spec["hi"]):
        if i % 50 == 0:
            pool.clear()  # fresh destinations from time to time, long-lived ones in between
        one(spec["seed"], i, spec["tier"], res, pool)
    if spec.get("blocked"):
        res["counters"]["messages_logged_with_optional_modules_blocked"] = spec["hi"] - spec["lo"]
    return res


def finalize(agg, tier):
    c = agg["counters"]
    if c.get("write_calls_checked", 0) < 1000 or c.get("rich_values", 0) < 100:
        return "too few write calls / rich values observed"
    if c.get("file_faults_raised", 0) < 500:
        return "too few file faults injected"
    if c.get("messages_logged_after_the_file_object_switched_streams", 0) < 200:
        return "too few messages were logged after a forwarding file object had switched streams"
    if c.get("destinations_built_with_the_deprecated_encoder_argument", 0) < 50:
        return "too few destinations were built with the deprecated encoder= argument"
    if c.get("messages_offered_during_interpreter_shutdown", 0) < 9:
        return "too few messages were offered during interpreter shutdown"
    if c.get("messages_logged_with_optional_modules_blocked", 0) < 100:
        return "too few messages were logged while optional third-party modules were blocked"
    if c.get("messages_logged_with_bytes_warnings_as_errors", 0) < 30:
        return "too few messages were logged in interpreters that turn bytes/str comparisons into errors"
    if c.get("json_default_e", 0) < 100:
        return "the non-delegating json_default was rarely used"
    return None
