"""C11 - crash durability and parseability (post-mortem checker on the file left by a killed child)."""

import json
import os
import random
import signal
import tempfile
import time

from eliot import to_file
from eliot.parse import Parser, WrittenAction

from vf import crash, gen
from vf.interp import Interp
from vf.runner import h

ID = "C11"
LEVEL = "fault_enumeration"
RULE = ("for each generated program (10-60 messages; nested, failing, typed, task-starting actions) and file mode (buffered binary, "
        "unbuffered binary, text) a reference child runs to completion, then one forked child per (file write index, phase in "
        "before_write / torn_write / after_write-before-flush / after_flush) logs through eliot.to_file into a real file via a "
        "pass-through object that SIGKILLs the process at that point - a COMPLETE enumeration per program; plus children killed "
        "externally by the parent after a random delay. After every eliot API call that returned, the child acknowledges the number "
        "of flushed lines on a pipe. Oracle on the dead child's file: complete lines before the last newline, each valid JSON, at most "
        "one trailing fragment; the decoded sequence is a prefix of the reference sequence at least as long as the last acknowledgement; "
        "Parser.parse_stream on it raises nothing, holds exactly the present messages, shows actions without end message as 'started', "
        "and reports a task complete iff all its reference messages are present (a quarter of the externally killed programs begin with "
        "a finished task of 257-330 direct children). Acknowledgements are expectations, not observations: every message-logging call "
        "acknowledges one line more than were flushed before it; a quarter of the enumerated programs run with a destination ahead of the file "
        "that itself logs an audit message and acknowledges it, another quarter log a message in an action's context after finish() inside its own "
        "context() (such tasks are exempt from the completeness clause only). part 'exitlog': fresh interpreters that end in the ordinary way (fall off the end / sys.exit) "
        "and whose application atexit hook - registered before or after the log file was set up by to_file / add_destinations - logs a message and finishes the "
        "action spanning the program: every logging call acknowledged during exit is in the file, the task parses as complete. non-trivial = crash inside a task with an open "
        "nested action; distinct by (program shape, mode, crash point)")
ASSUMPTIONS = ["process death (SIGKILL), not machine/power failure: the kernel keeps data already handed to write(2)",
               "programs are deterministic given the seed (uuids excepted), so the reference run names the expected sequence"]
EXHAUSTIVE_NOTE = "every (write index, phase) crash point of every generated program/mode is executed"
CASE_TIMEOUT = 600
MODES = ["ab", "ab0", "a"]


def plan(tier, seed):
    n = 96 if tier == "quick" else 900
    specs = [{"part": "enum", "seed": seed, "i": i} for i in range(n)]
    m = 16 if tier == "quick" else 200
    specs += [{"part": "external", "seed": seed, "i": i, "kills": 12 if tier == "quick" else 25} for i in range(m)]
    specs += [{"part": "exitlog", "seed": seed, "i": i} for i in range(16)]
    return specs


def open_mode(path, mode):
    if mode == "ab":
        return open(path, "ab")
    if mode == "ab0":
        return open(path, "ab", buffering=0)
    return open(path, "a", encoding="utf-8", newline="\n")


def child_run(prog, path, mode, plan_, ackfd, repeat=1, audit=False, late=False):
    """Runs in a forked grandchild. Never returns."""
    code = 0
    try:
        real = open_mode(path, mode)
        cf = crash.CrashFile(real, plan_)
        acked = [0]

        def ack(n):
            # acknowledgements never go backwards: the largest number of lines the program is entitled to find in the file
            if n > acked[0]:
                acked[0] = n
            crash.send_ack(ackfd, acked[0])
        if audit:
            # a destination registered ahead of the file that itself logs (an audit trail for selected messages): when its own
            # logging call has returned, that line is in the file
            from eliot import add_destinations, log_message

            def audit_destination(m):
                if m.get("message_type") != "c11:audit" and isinstance(m.get("nid"), int) and m["nid"] % 3 == 0:
                    n0 = cf.flushed
                    log_message(message_type="c11:audit", about=m["nid"])
                    ack(n0 + 1)
            add_destinations(audit_destination)
        to_file(cf)
        it = Interp()
        it.late_messages = late
        it.after_api = lambda: ack(cf.flushed)
        # every message-logging call adds at least one line before it returns (expectation, not observation)
        it.before_msg = lambda: cf.flushed
        it.after_msg = lambda n0: ack(n0 + 1)
        for _ in range(repeat):
            it.forest = []
            it.run(prog)
        ack(cf.flushed)
        real.close()
    except BaseException:
        import traceback
        traceback.print_exc()
        code = 3
    finally:
        os._exit(code)


def spawn(prog, path, mode, plan_, repeat=1, kill_after=None, audit=False, late=False):
    r, w = os.pipe()
    pid = os.fork()
    if pid == 0:
        os.close(r)
        child_run(prog, path, mode, plan_, w, repeat, audit, late)
    os.close(w)
    if kill_after is not None:
        time.sleep(kill_after)
        try:
            os.kill(pid, signal.SIGKILL)
        except OSError:
            pass
    ack, nacks = crash.read_acks(r)
    os.close(r)
    _, status = os.waitpid(pid, 0)
    return ack, nacks, status


def sig_of(m):
    return (tuple(m.get("task_level", ())), m.get("action_type"), m.get("message_type"), m.get("action_status"), m.get("nid"))


def collect(node, out, started):
    if isinstance(node, WrittenAction):
        if node.start_message is not None:
            out.append(tuple(node.start_message.task_level.as_list()))
        if node.end_message is not None:
            out.append(tuple(node.end_message.task_level.as_list()))
        started.append((tuple(node.task_level.as_list()), node.status, node.start_message is not None, node.end_message is not None))
        for c in node.children:
            collect(c, out, started)
    else:
        out.append(tuple(node.task_level.as_list()))


def post_mortem(raw, ack, reference, problems):
    """reference: list of (uuid_index, sig) of the complete run. Returns number of complete lines."""
    parts = raw.split(b"\n")
    fragment = parts[-1]
    lines = parts[:-1]
    msgs = []
    for ln in lines:
        try:
            m = json.loads(ln.decode("utf-8"))
            if not isinstance(m, dict):
                raise ValueError("not an object")
            msgs.append(m)
        except Exception as e:
            problems.append("complete line is not valid JSON: %r (%r)" % (ln[:120], e))
            return len(lines), 0
    if len(msgs) < ack:
        problems.append("file holds %d complete lines but %d were acknowledged" % (len(msgs), ack))
    if len(msgs) > len(reference):
        problems.append("file holds %d lines, the complete run has only %d" % (len(msgs), len(reference)))
        return len(lines), 0
    # prefix of the reference modulo uuids (uuid identity by order of first appearance)
    uu = {}
    for j, m in enumerate(msgs):
        u = uu.setdefault(m.get("task_uuid"), len(uu))
        if (u, sig_of(m)) != reference[j]:
            problems.append("line %d is %r, the reference run has %r there (lost / duplicated / re-ordered)" % (j, (u, sig_of(m)), reference[j]))
            return len(lines), 0
    if fragment:
        # a trailing fragment must be a proper prefix of the next reference line's bytes: cannot know bytes, but it must not contain a newline
        if len(msgs) >= len(reference):
            problems.append("trailing fragment %r after a complete log" % fragment[:60])
    # ---- parser on the truncated log
    try:
        tasks = list(Parser.parse_stream(msgs))
    except BaseException as e:
        problems.append("Parser.parse_stream raised %r on the truncated log" % (e,))
        return len(lines), 0
    ref_count = {}
    ends_at = {}
    ill_formed = set()
    for u, s in reference:
        ref_count[u] = ref_count.get(u, 0) + 1
        lvl = s[0]
        for n in range(1, len(lvl) + 1):
            e = ends_at.get((u, lvl[:n - 1]))
            if e is not None and lvl[n - 1] > e:
                ill_formed.add(u)
        if s[3] in ("succeeded", "failed"):
            ends_at[(u, lvl[:-1])] = lvl[-1]
    have = {}
    for m in msgs:
        have.setdefault(uu[m["task_uuid"]], []).append(m)
    if len(tasks) != len(have) and not (set(have) & ill_formed):
        problems.append("parser produced %d tasks for %d task uuids" % (len(tasks), len(have)))
    open_nested = 0
    for t in tasks:
        try:
            root = t.root()
            u = uu[root.task_uuid]
        except BaseException as e:
            problems.append("task root unavailable: %r" % (e,))
            continue
        if u in ill_formed:
            continue  # (parsing it raised nothing; its shape is not judged)
        levels, acts = [], []
        collect(root, levels, acts)
        want = sorted(tuple(m["task_level"]) for m in have[u])
        if sorted(levels) != want:
            problems.append("parsed task holds levels %s, the file has %s" % (sorted(levels)[:6], want[:6]))
        complete = len(have[u]) == ref_count[u]
        if u in ill_formed:
            pass  # a message logged in an action's context after that action ended: "complete" has no agreed meaning for such a task
        elif t.is_complete() != complete:
            problems.append("task with %d of %d messages present reported is_complete()=%s" % (len(have[u]), ref_count[u], t.is_complete()))
        ends = set(tuple(m["task_level"][:-1]) for m in have[u] if m.get("action_status") in ("succeeded", "failed"))
        starts = set(tuple(m["task_level"][:-1]) for m in have[u] if m.get("action_status") == "started")
        for lvl, status, has_start, has_end in acts:
            if lvl in starts and not has_start:
                problems.append("action %s started in the file but the parsed node has no start message" % (lvl,))
            if lvl in starts and lvl not in ends:
                if status != "started" or has_end:
                    problems.append("unfinished action %s parsed with status %r" % (lvl, status))
                if len(lvl) >= 1:
                    open_nested += 1
            if lvl in ends and not has_end:
                problems.append("action %s ended in the file but the parsed node has no end message" % (lvl,))
        for lvl in starts:
            if not any(a[0] == lvl for a in acts):
                problems.append("started action %s missing from the parsed tree" % (lvl,))
    return len(lines), open_nested


def make_program(rng, big=False, late=False):
    g = gen.ProgGen(rng, max_depth=rng.choice([3, 4]), max_nodes=rng.choice([8, 14, 22]) if not big else 300, value_depth=1, remote_vias=("same",),
                    fail_p=0.3, extra_styles=("ctx_finish_inside", "ctx_finish_inside") if late else ())
    prog = g.program()
    return prog


def reference_of(prog, mode, tmpdir, repeat=1, audit=False, late=False):
    path = os.path.join(tmpdir, "ref.log")
    ack, nacks, status = spawn(prog, path, mode, None, repeat, audit=audit, late=late)
    with open(path, "rb") as f:
        raw = f.read()
    os.unlink(path)
    if status != 0:
        return None, "reference child exited with status %d" % status
    msgs = [json.loads(l) for l in raw.split(b"\n") if l]
    uu = {}
    ref = []
    for m in msgs:
        u = uu.setdefault(m["task_uuid"], len(uu))
        ref.append((u, sig_of(m)))
    if ack != len(msgs):
        return None, "reference run acknowledged %d of %d lines" % (ack, len(msgs))
    return ref, None


EXIT_CHILD = r'''
import atexit, os, sys
sys.path.insert(0, sys.argv[1])
import json
spec = json.loads(sys.argv[2])
log_path, ack_path = sys.argv[3], sys.argv[4]
ack_fd = os.open(ack_path, os.O_WRONLY | os.O_CREAT | os.O_APPEND)
import eliot
from eliot import FileDestination

def ack(tag, _write=os.write, _fd=ack_fd):
    _write(_fd, (tag + "\n").encode())

box = {}

def app_hook():
    # the application's own exit hook: says good-bye in the log and finishes the action that spans the program
    eliot.log_message(message_type="app:shutdown")
    ack("app:shutdown")
    box["main"].finish()
    ack("app:main/succeeded")

def install():
    f = open(log_path, spec["mode"])
    if spec["how"] == "to_file":
        eliot.to_file(f)
    else:
        eliot.add_destinations(FileDestination(file=f))

if spec["order"] == "hook_first":
    atexit.register(app_hook)
    install()
else:
    install()
    atexit.register(app_hook)
box["main"] = eliot.start_action(action_type="app:main")
ack("app:main/started")
with box["main"].context():
    eliot.log_message(message_type="app:running")
    ack("app:running")
if spec["exit"] == "sys.exit":
    sys.exit(0)
'''


def part_exitlog(spec, res):
    """Messages logged while the process exits in the ordinary way (the application's atexit hook, registered before or after the log
    file was set up; fall off the end or sys.exit): a logging call that returned is in the file - here the process 'dies' by exiting."""
    import subprocess
    import sys
    from vf.runner import REPO
    combos = [(how, order, mode, ex) for how in ("to_file", "add_destinations") for order in ("hook_first", "hook_last") for mode in ("ab", "a")
              for ex in ("fall_off", "sys.exit")]
    how, order, mode, ex = combos[spec["i"] % len(combos)]
    sp = {"how": how, "order": order, "mode": mode, "exit": ex}
    d = tempfile.mkdtemp(prefix="vf-c11-exit-")
    c = res["counters"]
    try:
        script, log, ackp = os.path.join(d, "child.py"), os.path.join(d, "log"), os.path.join(d, "ack")
        with open(script, "w") as f:
            f.write(EXIT_CHILD)
        env = {k: v for k, v in os.environ.items() if k not in ("PYTHONPATH",)}
        try:
            p = subprocess.run([sys.executable, script, REPO, json.dumps(sp), log, ackp], env=env, capture_output=True, timeout=120, cwd=d)
        except subprocess.TimeoutExpired:
            res["inconclusive"] = "exitlog child did not finish"
            return
        acks = open(ackp).read().split() if os.path.exists(ackp) else []
        raw = open(log, "rb").read() if os.path.exists(log) else b""
        res["evals"] += 1
        if "app:running" not in acks:
            res["inconclusive"] = "exitlog child did not get going: %s" % p.stderr.decode("utf-8", "replace")[-300:]
            return
        problems = []
        msgs = []
        for ln in raw.split(b"\n")[:-1]:
            try:
                msgs.append(json.loads(ln.decode("utf-8")))
            except Exception as e:
                problems.append("a complete line is not JSON: %r" % (ln[:80],))
        present = [m.get("message_type") or "%s/%s" % (m.get("action_type"), m.get("action_status")) for m in msgs]
        missing = [a for a in acks if a not in present]
        if missing:
            problems.append("logging calls that returned while the process was exiting (application's atexit hook registered %s the log file was set up with %s) "
                            "are missing from the log file: %s (file holds %s)" % ("before" if order == "hook_first" else "after", how, missing, present))
        if "app:main/succeeded" in acks:
            try:
                tasks = [t for t in Parser.parse_stream(msgs) if getattr(t.root(), "action_type", None) == "app:main"]
                if len(tasks) != 1 or not tasks[0].is_complete() or tasks[0].root().end_message is None:
                    problems.append("the program finished its spanning action (finish() returned), the file parses to %s" % (
                        [(t.is_complete(), getattr(t.root(), "status", None)) for t in tasks],))
            except Exception as e:
                problems.append("parsing the file raised %r" % (e,))
        c["logging_calls_acknowledged_during_exit"] = c.get("logging_calls_acknowledged_during_exit", 0) + sum(1 for a in acks if a in ("app:shutdown", "app:main/succeeded"))
        res["nontrivial"].append(h(["exitlog", sp]))
        if problems:
            res["violations"].append({"msg": problems[0], "mech": None, "detail": {"part": "exitlog", "spec": sp, "acks": acks, "problems": problems[:4],
                                                                                 "stderr": p.stderr.decode("utf-8", "replace")[-400:]}})
    finally:
        import shutil
        shutil.rmtree(d, ignore_errors=True)


def run_case(spec):
    res = {"evals": 0, "nontrivial": [], "counters": {}, "violations": [], "sets": {"phases_hit": []}}
    rng = random.Random("%s:C11:%s:%d" % (spec["seed"], spec["part"], spec["i"]))
    if spec["part"] == "exitlog":
        part_exitlog(spec, res)
        return res
    tmpdir = tempfile.mkdtemp(prefix="vf-c11-")
    c = res["counters"]
    try:
        if spec["part"] == "enum":
            audit = spec["i"] % 4 == 1
            late = spec["i"] % 4 == 2  # finish() inside the action's own context(), then a message logged there after its end
            prog = make_program(rng, late=late)
            mode = MODES[spec["i"] % 3]
            c["programs_with_a_logging_destination"] = int(audit)
            c["programs_logging_after_an_action_ended"] = int(late)
            ref, err = reference_of(prog, mode, tmpdir, audit=audit, late=late)
            if ref is None:
                res["violations"].append({"msg": "reference run failed: %s" % err, "mech": None, "detail": {"program": prog}})
                return res
            shape = gen.prog_shape(prog)
            for k in range(len(ref)):
                for ph in crash.PHASES:
                    path = os.path.join(tmpdir, "c.log")
                    ack, nacks, status = spawn(prog, path, mode, (k, ph), audit=audit, late=late)
                    with open(path, "rb") as f:
                        raw = f.read()
                    os.unlink(path)
                    problems = []
                    if not (os.WIFSIGNALED(status) and os.WTERMSIG(status) == signal.SIGKILL):
                        res["inconclusive"] = "crash child for point (%d, %s) ended with status %d instead of SIGKILL" % (k, ph, status)
                        continue
                    nlines, open_nested = post_mortem(raw, ack, ref, problems)
                    want_lines = k + 1 if ph == "after_flush" else k
                    if mode == "ab0" and ph == "after_write":
                        want_lines = k + 1
                    if ph == "after_write" and mode != "ab0" and nlines == k + 1:
                        # a line longer than the file object's buffer is handed to the OS by write() itself
                        c["long_lines_written_through_before_flush"] = c.get("long_lines_written_through_before_flush", 0) + 1
                        want_lines = k + 1
                    if nlines != want_lines and not problems:
                        problems.append("crash at (%d, %s) in mode %s left %d complete lines, expected %d" % (k, ph, mode, nlines, want_lines))
                    if ph == "torn_write" and not raw.split(b"\n")[-1]:
                        problems.append("torn write left no trailing fragment (injector not effective)")
                    res["evals"] += 1
                    c["crashes_injected"] = c.get("crashes_injected", 0) + 1
                    c["acknowledgements_read"] = c.get("acknowledgements_read", 0) + nacks
                    res["sets"]["phases_hit"].append(ph + ":" + mode)
                    if open_nested:
                        res["nontrivial"].append(h([shape, mode, k, ph]))
                    if problems:
                        res["violations"].append({"msg": problems[0], "mech": None,
                                                  "detail": {"crash_point": [k, ph], "mode": mode, "ack": ack, "problems": problems[:6], "program": prog}})
                        if len(res["violations"]) > 5:
                            return res
            c["programs_enumerated"] = 1
            if spec["i"] % 10 == 0:
                res["sample"] = {"program": prog, "mode": mode, "writes": len(ref), "crash_points": len(ref) * len(crash.PHASES)}
        else:
            prog = make_program(rng, big=True)
            if spec["i"] % 4 == 1:
                # a finished task with 257-330 direct children ahead of the rest (breadth beyond what the generator reaches)
                g = gen.ProgGen(rng, max_nodes=10**6, value_depth=0)
                a = g.act(99, force_style="with")
                a["outcome"] = "ok"
                a.pop("exc", None)
                a["children"] = [g.msg() for _ in range(rng.randint(257, 330))]
                prog = [a] + prog
                c["programs_with_very_wide_task"] = 1
            mode = MODES[spec["i"] % 3]
            repeat = 30 if spec["i"] % 4 != 1 else 8
            t_ref = time.monotonic()
            ref, err = reference_of(prog, mode, tmpdir, repeat)
            t_ref = time.monotonic() - t_ref
            if ref is None:
                res["violations"].append({"msg": "reference run failed: %s" % err, "mech": None, "detail": {}})
                return res
            for kill in range(spec["kills"]):
                path = os.path.join(tmpdir, "x.log")
                delay = rng.random() * t_ref * 0.95
                ack, nacks, status = spawn(prog, path, mode, None, repeat, kill_after=delay)
                raw = b""
                if os.path.exists(path):  # killed before it opened the file otherwise
                    with open(path, "rb") as f:
                        raw = f.read()
                    os.unlink(path)
                problems = []
                nlines, open_nested = post_mortem(raw, ack, ref, problems)
                res["evals"] += 1
                killed = os.WIFSIGNALED(status)
                c["external_kills"] = c.get("external_kills", 0) + int(killed)
                c["external_kills_midway"] = c.get("external_kills_midway", 0) + int(killed and 0 < nlines < len(ref))
                c["acknowledgements_read"] = c.get("acknowledgements_read", 0) + nacks
                if killed and open_nested:
                    res["nontrivial"].append(h(["ext", spec["i"], kill, nlines]))
                if problems:
                    res["violations"].append({"msg": problems[0], "mech": None,
                                              "detail": {"external_kill_after_s": delay, "mode": mode, "ack": ack, "lines": nlines, "problems": problems[:6]}})
    finally:
        import shutil
        shutil.rmtree(tmpdir, ignore_errors=True)
    return res


def finalize(agg, tier):
    c = agg["counters"]
    if c.get("crashes_injected", 0) < 500:
        return "fewer than 500 injected crashes"
    if c.get("external_kills_midway", 0) < 10:
        return "fewer than 10 external kills landed midway through a run"
    if c.get("logging_calls_acknowledged_during_exit", 0) < 16:
        return "too few logging calls were acknowledged during interpreter exit"
    if len(agg["sets"].get("phases_hit", {})) < 12:
        return "not every (phase, mode) combination was hit"
    return None
