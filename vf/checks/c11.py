"""C11 - crash durability and parseability (post-mortem checker on the file left by a killed child)."""

import json
import os
import random
import signal
import tempfile
import time

from eliot import to_file
from eliot.parse import Parser, WrittenAction

from vf import crash, gen
from vf.interp import Interp
from vf.runner import h

ID = "C11"
LEVEL = "fault_enumeration"
RULE = ("for each generated program (10-60 messages; nested, failing, typed, task-starting actions) and file mode (buffered binary, "
        "unbuffered binary, text) a reference child runs to completion, then one forked child per (file write index, phase in "
        "before_write / torn_write / after_write-before-flush / after_flush) logs through eliot.to_file into a real file via a "
        "pass-through object that SIGKILLs the process at that point - a COMPLETE enumeration per program; plus children killed "
        "externally by the parent after a random delay. After every eliot API call that returned, the child acknowledges the number "
        "of flushed lines on a pipe. Oracle on the dead child's file: complete lines before the last newline, each valid JSON, at most "
        "one trailing fragment; the decoded sequence is a prefix of the reference sequence at least as long as the last acknowledgement; "
        "Parser.parse_stream on it raises nothing, holds exactly the present messages, shows actions without end message as 'started', "
        "and reports a task complete iff all its reference messages are present (a quarter of the externally killed programs begin with "
        "a finished task of 257-330 direct children). Acknowledgements are expectations, not observations: every message-logging call "
        "acknowledges one line more than were flushed before it; a quarter of the enumerated programs run with a destination ahead of the file "
        "that itself logs an audit message and acknowledges it, another quarter log a message in an action's context after finish() inside its own "
        "context() (such tasks are exempt from the completeness clause only). part 'exitlog': fresh interpreters that end in the ordinary way (fall off the end / sys.exit) "
        "and whose application atexit hook - registered before or after the log file was set up by to_file / add_destinations - logs a message and finishes the "
        "action spanning the program: every logging call acknowledged during exit is in the file, the task parses as complete. "
        "part 'filekinds': the same complete (write index, phase) enumeration with further kinds of real file objects behind the pass-through object - write-through "
        "TextIOWrapper over a buffered binary file (also line-buffered, also over a raw FileIO, also not write-through), open(path, 'a', buffering=1), "
        "open(path, 'ab', buffering=65536), BufferedWriter(FileIO) with buffer sizes 16 B - 1 MiB, os.fdopen(fd, 'a'), io.FileIO, and the process's own sys.stdout "
        "redirected onto the log file (as it is / after reconfigure(write_through=True)); and, because the library may look at the object it is given, the REAL file "
        "object handed as it is to to_file or add_destinations(FileDestination(file=...)), one child per eliot API call of the program that SIGKILLs itself right after "
        "that call returned and one that the parent SIGKILLs at the instant that call's acknowledgement arrives (owed lines = what a counting destination had received "
        "at that call in a run to completion): same oracle - at least the owed lines, all complete, a prefix of the reference, parser clauses. "
        "part 'stdoutproc': fresh interpreters started with standard output redirected to the log file (with and without -u) that reconfigure sys.stdout "
        "(write_through / line_buffering / both / nothing / log to sys.stdout.buffer), log 9 one-line calls and kill themselves after call k, for every k. "
        "non-trivial = crash inside a task with an open "
        "nested action; distinct by (program shape, mode, crash point)")
ASSUMPTIONS = ["process death (SIGKILL), not machine/power failure: the kernel keeps data already handed to write(2)",
               "programs are deterministic given the seed (uuids excepted), so the reference run names the expected sequence"]
EXHAUSTIVE_NOTE = "every (write index, phase) crash point of every generated program/mode is executed"
CASE_TIMEOUT = 600
MODES = ["ab", "ab0", "a"]


def plan(tier, seed):
    n = 96 if tier == "quick" else 900
    specs = [{"part": "enum", "seed": seed, "i": i} for i in range(n)]
    m = 16 if tier == "quick" else 200
    specs += [{"part": "external", "seed": seed, "i": i, "kills": 12 if tier == "quick" else 25} for i in range(m)]
    specs += [{"part": "exitlog", "seed": seed, "i": i} for i in range(16)]
    if ENABLE_FILEKINDS:
        specs += [{"part": "filekinds", "seed": seed, "i": i} for i in range(len(KINDS) * (3 if tier == "quick" else 30))]
        specs += [{"part": "stdoutproc", "seed": seed, "i": i} for i in range(7 if tier == "quick" else 14)]
    return specs


# part 'filekinds': further kinds of real file objects an application may hand to eliot.to_file / FileDestination
ENABLE_FILEKINDS = True
KINDS = ["tw_wt", "tw_wt_lb", "a_lb", "stdout_wt", "ab64k", "bw", "fdopen_a", "tw_raw_wt", "stdout", "fileio", "tw"]
KIND_TEXT = {
    "tw_wt": 'io.TextIOWrapper(open(path, "ab"), encoding="utf-8", write_through=True)',
    "tw_wt_lb": 'io.TextIOWrapper(open(path, "ab"), encoding="utf-8", write_through=True, line_buffering=True)',
    "a_lb": 'open(path, "a", buffering=1)',
    "stdout_wt": 'sys.stdout redirected to the log file, after sys.stdout.reconfigure(write_through=True)',
    "ab64k": 'open(path, "ab", buffering=65536)',
    "bw": 'io.BufferedWriter(io.FileIO(path, "ab"), buffer_size=16 / 512 / 8192 / 1 MiB)',
    "fdopen_a": 'os.fdopen(os.open(path, O_WRONLY|O_CREAT|O_APPEND), "a")',
    "tw_raw_wt": 'io.TextIOWrapper(io.FileIO(path, "ab"), encoding="utf-8", write_through=True)',
    "stdout": 'sys.stdout redirected to the log file',
    "fileio": 'io.FileIO(path, "ab")',
    "tw": 'io.TextIOWrapper(open(path, "ab"), encoding="utf-8")',
}
# kinds whose write() alone hands a complete line to the operating system (Python's documented behaviour of raw files and of
# line-buffered text files): used only to tell whether the injected crash landed where it was planned
WRITE_REACHES_OS = ("ab0", "tw_wt_lb", "a_lb", "tw_raw_wt", "fileio")
BW_SIZES = [16, 512, 8192, 1 << 20]


def open_mode(path, mode, variant=0):
    if mode == "ab":
        return open(path, "ab")
    if mode == "ab0":
        return open(path, "ab", buffering=0)
    if mode == "a":
        return open(path, "a", encoding="utf-8", newline="\n")
    import io
    import sys
    if mode == "tw_wt":
        return io.TextIOWrapper(open(path, "ab"), encoding="utf-8", write_through=True)
    if mode == "tw_wt_lb":
        return io.TextIOWrapper(open(path, "ab"), encoding="utf-8", write_through=True, line_buffering=True)
    if mode == "tw":
        return io.TextIOWrapper(open(path, "ab"), encoding="utf-8")
    if mode == "tw_raw_wt":
        return io.TextIOWrapper(io.FileIO(path, "ab"), encoding="utf-8", write_through=True)
    if mode == "a_lb":
        return open(path, "a", buffering=1, encoding="utf-8")
    if mode == "ab64k":
        return open(path, "ab", buffering=65536)
    if mode == "bw":
        return io.BufferedWriter(io.FileIO(path, "ab"), buffer_size=BW_SIZES[variant % len(BW_SIZES)])
    if mode == "fileio":
        return io.FileIO(path, "ab")
    if mode == "fdopen_a":
        return os.fdopen(os.open(path, os.O_WRONLY | os.O_CREAT | os.O_APPEND, 0o644), "a", encoding="utf-8")
    if mode in ("stdout", "stdout_wt"):
        # this process's standard output now IS the log file (what `prog >> log` arranges), then the application reconfigures it
        fd = os.open(path, os.O_WRONLY | os.O_CREAT | os.O_APPEND, 0o644)
        out = sys.stdout
        if out is not None:
            out.flush()
        os.dup2(fd, 1)
        os.close(fd)
        if not isinstance(out, io.TextIOWrapper) or out.closed or out.fileno() != 1 or not isinstance(out.buffer, io.BufferedWriter):
            # (the harness itself runs under python -u / PYTHONUNBUFFERED or without a usable stdout: the object an interpreter started
            # without -u sets up for a redirected standard output - block-buffered text over a BufferedWriter over descriptor 1)
            out = sys.stdout = open(1, "w", encoding="utf-8", closefd=False)
        out.reconfigure(encoding="utf-8", line_buffering=False, write_through=(mode == "stdout_wt"))
        return out
    raise AssertionError(mode)


def child_run(prog, path, mode, plan_, ackfd, repeat=1, audit=False, late=False, variant=0):
    """Runs in a forked grandchild. Never returns."""
    code = 0
    try:
        real = open_mode(path, mode, variant)
        cf = crash.CrashFile(real, plan_)
        acked = [0]

        def ack(n):
            # acknowledgements never go backwards: the largest number of lines the program is entitled to find in the file
            if n > acked[0]:
                acked[0] = n
            crash.send_ack(ackfd, acked[0])
        if audit:
            # a destination registered ahead of the file that itself logs (an audit trail for selected messages): when its own
            # logging call has returned, that line is in the file
            from eliot import add_destinations, log_message

            def audit_destination(m):
                if m.get("message_type") != "c11:audit" and isinstance(m.get("nid"), int) and m["nid"] % 3 == 0:
                    n0 = cf.flushed
                    log_message(message_type="c11:audit", about=m["nid"])
                    ack(n0 + 1)
            add_destinations(audit_destination)
        to_file(cf)
        it = Interp()
        it.late_messages = late
        it.after_api = lambda: ack(cf.flushed)
        # every message-logging call adds at least one line before it returns (expectation, not observation)
        it.before_msg = lambda: cf.flushed
        it.after_msg = lambda n0: ack(n0 + 1)
        for _ in range(repeat):
            it.forest = []
            it.run(prog)
        ack(cf.flushed)
        real.close()
    except BaseException:
        import traceback
        traceback.print_exc()
        code = 3
    finally:
        os._exit(code)


def spawn(prog, path, mode, plan_, repeat=1, kill_after=None, audit=False, late=False, variant=0):
    r, w = os.pipe()
    pid = os.fork()
    if pid == 0:
        os.close(r)
        child_run(prog, path, mode, plan_, w, repeat, audit, late, variant)
    os.close(w)
    if kill_after is not None:
        time.sleep(kill_after)
        try:
            os.kill(pid, signal.SIGKILL)
        except OSError:
            pass
    ack, nacks = crash.read_acks(r)
    os.close(r)
    _, status = os.waitpid(pid, 0)
    return ack, nacks, status


def sig_of(m):
    return (tuple(m.get("task_level", ())), m.get("action_type"), m.get("message_type"), m.get("action_status"), m.get("nid"))


def collect(node, out, started):
    if isinstance(node, WrittenAction):
        if node.start_message is not None:
            out.append(tuple(node.start_message.task_level.as_list()))
        if node.end_message is not None:
            out.append(tuple(node.end_message.task_level.as_list()))
        started.append((tuple(node.task_level.as_list()), node.status, node.start_message is not None, node.end_message is not None))
        for c in node.children:
            collect(c, out, started)
    else:
        out.append(tuple(node.task_level.as_list()))


def post_mortem(raw, ack, reference, problems):
    """reference: list of (uuid_index, sig) of the complete run. Returns number of complete lines."""
    parts = raw.split(b"\n")
    fragment = parts[-1]
    lines = parts[:-1]
    msgs = []
    for ln in lines:
        try:
            m = json.loads(ln.decode("utf-8"))
            if not isinstance(m, dict):
                raise ValueError("not an object")
            msgs.append(m)
        except Exception as e:
            problems.append("complete line is not valid JSON: %r (%r)" % (ln[:120], e))
            return len(lines), 0
    if len(msgs) < ack:
        problems.append("file holds %d complete lines but %d were acknowledged" % (len(msgs), ack))
    if len(msgs) > len(reference):
        problems.append("file holds %d lines, the complete run has only %d" % (len(msgs), len(reference)))
        return len(lines), 0
    # prefix of the reference modulo uuids (uuid identity by order of first appearance)
    uu = {}
    for j, m in enumerate(msgs):
        u = uu.setdefault(m.get("task_uuid"), len(uu))
        if (u, sig_of(m)) != reference[j]:
            problems.append("line %d is %r, the reference run has %r there (lost / duplicated / re-ordered)" % (j, (u, sig_of(m)), reference[j]))
            return len(lines), 0
    if fragment:
        # a trailing fragment must be a proper prefix of the next reference line's bytes: cannot know bytes, but it must not contain a newline
        if len(msgs) >= len(reference):
            problems.append("trailing fragment %r after a complete log" % fragment[:60])
    # ---- parser on the truncated log
    try:
        tasks = list(Parser.parse_stream(msgs))
    except BaseException as e:
        problems.append("Parser.parse_stream raised %r on the truncated log" % (e,))
        return len(lines), 0
    ref_count = {}
    ends_at = {}
    ill_formed = set()
    for u, s in reference:
        ref_count[u] = ref_count.get(u, 0) + 1
        lvl = s[0]
        for n in range(1, len(lvl) + 1):
            e = ends_at.get((u, lvl[:n - 1]))
            if e is not None and lvl[n - 1] > e:
                ill_formed.add(u)
        if s[3] in ("succeeded", "failed"):
            ends_at[(u, lvl[:-1])] = lvl[-1]
    have = {}
    for m in msgs:
        have.setdefault(uu[m["task_uuid"]], []).append(m)
    if len(tasks) != len(have) and not (set(have) & ill_formed):
        problems.append("parser produced %d tasks for %d task uuids" % (len(tasks), len(have)))
    open_nested = 0
    for t in tasks:
        try:
            root = t.root()
            u = uu[root.task_uuid]
        except BaseException as e:
            problems.append("task root unavailable: %r" % (e,))
            continue
        if u in ill_formed:
            continue  # (parsing it raised nothing; its shape is not judged)
        levels, acts = [], []
        collect(root, levels, acts)
        want = sorted(tuple(m["task_level"]) for m in have[u])
        if sorted(levels) != want:
            problems.append("parsed task holds levels %s, the file has %s" % (sorted(levels)[:6], want[:6]))
        complete = len(have[u]) == ref_count[u]
        if u in ill_formed:
            pass  # a message logged in an action's context after that action ended: "complete" has no agreed meaning for such a task
        elif t.is_complete() != complete:
            problems.append("task with %d of %d messages present reported is_complete()=%s" % (len(have[u]), ref_count[u], t.is_complete()))
        ends = set(tuple(m["task_level"][:-1]) for m in have[u] if m.get("action_status") in ("succeeded", "failed"))
        starts = set(tuple(m["task_level"][:-1]) for m in have[u] if m.get("action_status") == "started")
        for lvl, status, has_start, has_end in acts:
            if lvl in starts and not has_start:
                problems.append("action %s started in the file but the parsed node has no start message" % (lvl,))
            if lvl in starts and lvl not in ends:
                if status != "started" or has_end:
                    problems.append("unfinished action %s parsed with status %r" % (lvl, status))
                if len(lvl) >= 1:
                    open_nested += 1
            if lvl in ends and not has_end:
                problems.append("action %s ended in the file but the parsed node has no end message" % (lvl,))
        for lvl in starts:
            if not any(a[0] == lvl for a in acts):
                problems.append("started action %s missing from the parsed tree" % (lvl,))
    return len(lines), open_nested


def make_program(rng, big=False, late=False):
    g = gen.ProgGen(rng, max_depth=rng.choice([3, 4]), max_nodes=rng.choice([8, 14, 22]) if not big else 300, value_depth=1, remote_vias=("same",),
                    fail_p=0.3, extra_styles=("ctx_finish_inside", "ctx_finish_inside") if late else ())
    prog = g.program()
    return prog


def reference_of(prog, mode, tmpdir, repeat=1, audit=False, late=False, variant=0):
    path = os.path.join(tmpdir, "ref.log")
    ack, nacks, status = spawn(prog, path, mode, None, repeat, audit=audit, late=late, variant=variant)
    with open(path, "rb") as f:
        raw = f.read()
    os.unlink(path)
    if status != 0:
        return None, "reference child exited with status %d" % status
    msgs = [json.loads(l) for l in raw.split(b"\n") if l]
    uu = {}
    ref = []
    for m in msgs:
        u = uu.setdefault(m["task_uuid"], len(uu))
        ref.append((u, sig_of(m)))
    if ack != len(msgs):
        return None, "reference run acknowledged %d of %d lines" % (ack, len(msgs))
    return ref, None


EXIT_CHILD = r'''
import atexit, os, sys
sys.path.insert(0, sys.argv[1])
import json
spec = json.loads(sys.argv[2])
log_path, ack_path = sys.argv[3], sys.argv[4]
ack_fd = os.open(ack_path, os.O_WRONLY | os.O_CREAT | os.O_APPEND)
import eliot
from eliot import FileDestination

def ack(tag, _write=os.write, _fd=ack_fd):
    _write(_fd, (tag + "\n").encode())

box = {}

def app_hook():
    # the application's own exit hook: says good-bye in the log and finishes the action that spans the program
    eliot.log_message(message_type="app:shutdown")
    ack("app:shutdown")
    box["main"].finish()
    ack("app:main/succeeded")

def install():
    f = open(log_path, spec["mode"])
    if spec["how"] == "to_file":
        eliot.to_file(f)
    else:
        eliot.add_destinations(FileDestination(file=f))

if spec["order"] == "hook_first":
    atexit.register(app_hook)
    install()
else:
    install()
    atexit.register(app_hook)
box["main"] = eliot.start_action(action_type="app:main")
ack("app:main/started")
with box["main"].context():
    eliot.log_message(message_type="app:running")
    ack("app:running")
if spec["exit"] == "sys.exit":
    sys.exit(0)
'''


def part_exitlog(spec, res):
    """Messages logged while the process exits in the ordinary way (the application's atexit hook, registered before or after the log
    file was set up; fall off the end or sys.exit): a logging call that returned is in the file - here the process 'dies' by exiting."""
    import subprocess
    import sys
    from vf.runner import REPO
    combos = [(how, order, mode, ex) for how in ("to_file", "add_destinations") for order in ("hook_first", "hook_last") for mode in ("ab", "a")
              for ex in ("fall_off", "sys.exit")]
    how, order, mode, ex = combos[spec["i"] % len(combos)]
    sp = {"how": how, "order": order, "mode": mode, "exit": ex}
    d = tempfile.mkdtemp(prefix="vf-c11-exit-")
    c = res["counters"]
    try:
        script, log, ackp = os.path.join(d, "child.py"), os.path.join(d, "log"), os.path.join(d, "ack")
        with open(script, "w") as f:
            f.write(EXIT_CHILD)
        env = {k: v for k, v in os.environ.items() if k not in ("PYTHONPATH",)}
        try:
            p = subprocess.run([sys.executable, script, REPO, json.dumps(sp), log, ackp], env=env, capture_output=True, timeout=120, cwd=d)
        except subprocess.TimeoutExpired:
            res["inconclusive"] = "exitlog child did not finish"
            return
        acks = open(ackp).read().split() if os.path.exists(ackp) else []
        raw = open(log, "rb").read() if os.path.exists(log) else b""
        res["evals"] += 1
        if "app:running" not in acks:
            res["inconclusive"] = "exitlog child did not get going: %s" % p.stderr.decode("utf-8", "replace")[-300:]
            return
        problems = []
        msgs = []
        for ln in raw.split(b"\n")[:-1]:
            try:
                msgs.append(json.loads(ln.decode("utf-8")))
            except Exception as e:
                problems.append("a complete line is not JSON: %r" % (ln[:80],))
        present = [m.get("message_type") or "%s/%s" % (m.get("action_type"), m.get("action_status")) for m in msgs]
        missing = [a for a in acks if a not in present]
        if missing:
            problems.append("logging calls that returned while the process was exiting (application's atexit hook registered %s the log file was set up with %s) "
                            "are missing from the log file: %s (file holds %s)" % ("before" if order == "hook_first" else "after", how, missing, present))
        if "app:main/succeeded" in acks:
            try:
                tasks = [t for t in Parser.parse_stream(msgs) if getattr(t.root(), "action_type", None) == "app:main"]
                if len(tasks) != 1 or not tasks[0].is_complete() or tasks[0].root().end_message is None:
                    problems.append("the program finished its spanning action (finish() returned), the file parses to %s" % (
                        [(t.is_complete(), getattr(t.root(), "status", None)) for t in tasks],))
            except Exception as e:
                problems.append("parsing the file raised %r" % (e,))
        c["logging_calls_acknowledged_during_exit"] = c.get("logging_calls_acknowledged_during_exit", 0) + sum(1 for a in acks if a in ("app:shutdown", "app:main/succeeded"))
        res["nontrivial"].append(h(["exitlog", sp]))
        if problems:
            res["violations"].append({"msg": problems[0], "mech": None, "detail": {"part": "exitlog", "spec": sp, "acks": acks, "problems": problems[:4],
                                                                                 "stderr": p.stderr.decode("utf-8", "replace")[-400:]}})
    finally:
        import shutil
        shutil.rmtree(d, ignore_errors=True)


def enumerate_crashes(res, prog, mode, ref, shape, tmpdir, audit=False, late=False, variant=0, count_key="crashes_injected", set_key="phases_hit"):
    """One child per (file write index, phase), killed there by the pass-through object. Returns True when enough was found to stop."""
    c = res["counters"]
    for k in range(len(ref)):
        for ph in crash.PHASES:
            path = os.path.join(tmpdir, "c.log")
            ack, nacks, status = spawn(prog, path, mode, (k, ph), audit=audit, late=late, variant=variant)
            with open(path, "rb") as f:
                raw = f.read()
            os.unlink(path)
            problems = []
            if not (os.WIFSIGNALED(status) and os.WTERMSIG(status) == signal.SIGKILL):
                res["inconclusive"] = "crash child for point (%d, %s) ended with status %d instead of SIGKILL" % (k, ph, status)
                continue
            nlines, open_nested = post_mortem(raw, ack, ref, problems)
            want_lines = k + 1 if ph == "after_flush" else k
            if mode in WRITE_REACHES_OS and ph == "after_write":
                want_lines = k + 1
            if ph == "after_write" and mode not in WRITE_REACHES_OS and nlines == k + 1:
                # a line longer than the file object's buffer is handed to the OS by write() itself
                c["long_lines_written_through_before_flush"] = c.get("long_lines_written_through_before_flush", 0) + 1
                want_lines = k + 1
            if nlines != want_lines and not problems:
                problems.append("crash at (%d, %s) in mode %s left %d complete lines, expected %d" % (k, ph, mode, nlines, want_lines))
            if ph == "torn_write" and not raw.split(b"\n")[-1]:
                problems.append("torn write left no trailing fragment (injector not effective)")
            res["evals"] += 1
            c[count_key] = c.get(count_key, 0) + 1
            c["acknowledgements_read"] = c.get("acknowledgements_read", 0) + nacks
            res["sets"].setdefault(set_key, []).append(ph + ":" + mode)
            if open_nested:
                res["nontrivial"].append(h([shape, mode, k, ph]))
            if problems:
                msg = problems[0]
                if mode in KIND_TEXT:
                    msg += " [log file: %s, behind the crash-injecting pass-through object]" % KIND_TEXT[mode]
                res["violations"].append({"msg": msg, "mech": None,
                                          "detail": {"crash_point": [k, ph], "mode": mode, "ack": ack, "problems": problems[:6], "program": prog}})
                if len(res["violations"]) > 5:
                    return True
    return False


# ------------------------------------------------------------------------------------------------ part 'filekinds'
def read_all_acks(fd, on_record=None):
    """All 4-byte acknowledgements until EOF, in order; on_record(count so far) is called as each one arrives."""
    import struct
    buf = b""
    seen = 0
    while True:
        b = os.read(fd, 65536)
        if not b:
            break
        buf += b
        n = len(buf) // 4
        if on_record is not None and n > seen:
            on_record(n)
        seen = n
    return [struct.unpack("<I", buf[i * 4: i * 4 + 4])[0] for i in range(len(buf) // 4)]


def child_run_real(prog, path, kind, variant, how, ackfd, expect, kill_at):
    """Runs in a forked grandchild, never returns. The REAL file object is what the library is given. After every eliot API call that
    returned, the number of lines the program is entitled to find in the file is acknowledged (reference run, expect is None: what a
    counting destination registered after the file has received; other runs: the reference run's number for the same call) and, when
    that was call number kill_at, the process kills itself."""
    code = 0
    try:
        from eliot import FileDestination, add_destinations
        real = open_mode(path, kind, variant)
        if how == "to_file":
            to_file(real)
        else:
            add_destinations(FileDestination(file=real))
        got = [0]
        if expect is None:
            def counting_destination(m):
                got[0] += 1
            add_destinations(counting_destination)
        it = Interp()
        j = [0]

        def after_api():
            n = got[0] if expect is None else expect[min(j[0], len(expect) - 1)]
            crash.send_ack(ackfd, n)
            if j[0] == kill_at:
                os.kill(os.getpid(), signal.SIGKILL)
                while True:
                    signal.pause()
            j[0] += 1
        it.after_api = after_api
        it.run(prog)
        if expect is None:
            crash.send_ack(ackfd, got[0])  # (last record of the reference run: the total, not an API call)
        real.flush()
        real.close()
    except BaseException:
        import traceback
        traceback.print_exc()
        code = 3
    finally:
        os._exit(code)


def spawn_real(prog, path, kind, variant, how, expect=None, kill_at=None, kill_on_ack=None):
    """kill_on_ack=n: the parent SIGKILLs the child at the instant the n-th acknowledgement arrives on the pipe."""
    r, w = os.pipe()
    pid = os.fork()
    if pid == 0:
        os.close(r)
        child_run_real(prog, path, kind, variant, how, w, expect, kill_at)
    os.close(w)
    sent = [False]

    def on_record(n):
        if kill_on_ack is not None and n >= kill_on_ack and not sent[0]:
            sent[0] = True
            try:
                os.kill(pid, signal.SIGKILL)
            except OSError:
                pass
    acks = read_all_acks(r, on_record)
    os.close(r)
    _, status = os.waitpid(pid, 0)
    return acks, status


def part_filekinds(spec, res, rng, tmpdir):
    """Further kinds of real file objects. (a) behind the crash-injecting pass-through object: the complete (write index, phase)
    enumeration; (b) the real object handed over as it is (the library may look at what it is given): one child per eliot API call
    that kills itself right after that call returned, and one that the parent kills at the instant that call's acknowledgement arrives."""
    c = res["counters"]
    kind = KINDS[spec["i"] % len(KINDS)]
    variant = spec["i"] // len(KINDS)
    how = "to_file" if (spec["i"] // len(KINDS)) % 2 == 0 else "FileDestination"
    prog = make_program(rng)
    shape = gen.prog_shape(prog)
    # ---- (a) wrapped
    ref, err = reference_of(prog, kind, tmpdir, variant=variant)
    if ref is None:
        res["violations"].append({"msg": "reference run failed: %s [log file: %s]" % (err, KIND_TEXT[kind]), "mech": None, "detail": {"program": prog, "kind": kind}})
        return
    if enumerate_crashes(res, prog, kind, ref, shape, tmpdir, variant=variant, count_key="filekind_crashes_injected", set_key="filekind_phases_hit"):
        return
    # ---- (b) unwrapped
    path = os.path.join(tmpdir, "real-ref.log")
    expect, status = spawn_real(prog, path, kind, variant, how)
    total = expect[-1] if expect else 0
    expect = expect[:-1]
    raw = b""
    if os.path.exists(path):
        with open(path, "rb") as f:
            raw = f.read()
        os.unlink(path)
    msgs = [json.loads(l) for l in raw.split(b"\n") if l] if status == 0 else []
    uu = {}
    ref2 = [(uu.setdefault(m["task_uuid"], len(uu)), sig_of(m)) for m in msgs]
    what = "%s handed to %s as it is" % (KIND_TEXT[kind], "eliot.to_file" if how == "to_file" else "add_destinations(FileDestination(file=...))")
    if status != 0 or not expect or total != len(msgs) or ref2 != ref:
        res["violations"].append({"msg": "a run to completion with %s ended with status %d, %d messages delivered, %d lines in the file (the same program "
                                         "through the pass-through object: %d lines)" % (what, status, total, len(msgs), len(ref)),
                                  "mech": None, "detail": {"program": prog, "kind": kind, "how": how}})
        return
    for j in range(len(expect)):
        for style in ("selfkill", "kill_on_ack"):
            path = os.path.join(tmpdir, "r.log")
            if style == "selfkill":
                acks, status = spawn_real(prog, path, kind, variant, how, expect=expect, kill_at=j)
            else:
                acks, status = spawn_real(prog, path, kind, variant, how, expect=expect, kill_on_ack=j + 1)
            raw = b""
            if os.path.exists(path):
                with open(path, "rb") as f:
                    raw = f.read()
                os.unlink(path)
            killed = os.WIFSIGNALED(status) and os.WTERMSIG(status) == signal.SIGKILL
            if style == "selfkill" and not (killed and len(acks) == j + 1):
                res["inconclusive"] = "self-killing child for call %d ended with status %d after %d acknowledgements" % (j, status, len(acks))
                continue
            if not killed and status != 0:
                res["inconclusive"] = "child to be killed on acknowledgement %d ended with status %d" % (j + 1, status)
                continue
            ack = max(acks) if acks else 0
            problems = []
            nlines, open_nested = post_mortem(raw, ack, ref, problems)
            res["evals"] += 1
            if style == "selfkill":
                c["real_file_selfkills"] = c.get("real_file_selfkills", 0) + 1
                c["real_file_selfkills_with_lines_owed"] = c.get("real_file_selfkills_with_lines_owed", 0) + int(ack > 0)
            else:
                c["real_file_kills_on_acknowledgement"] = c.get("real_file_kills_on_acknowledgement", 0) + int(killed)
            c["acknowledgements_read"] = c.get("acknowledgements_read", 0) + len(acks)
            res["sets"].setdefault("real_file_kinds", []).append(kind + ":" + how)
            if killed and open_nested:
                res["nontrivial"].append(h([shape, kind, how, style, j]))
            if problems:
                when = ("the process killed itself (SIGKILL) right after its eliot API call number %d had returned" % (j + 1) if style == "selfkill" else
                        "the process was killed (SIGKILL) when the acknowledgement of its eliot API call number %d arrived" % (j + 1))
                res["violations"].append({"msg": "%s; %s: %s (acknowledged = lines of messages whose logging call had returned before the kill)" % (what, when, problems[0]), "mech": None,
                                          "detail": {"kind": kind, "how": how, "style": style, "call": j, "owed_lines": ack, "complete_lines": nlines,
                                                     "fragment_bytes": len(raw.split(b"\n")[-1]), "problems": problems[:6], "program": prog}})
                if len(res["violations"]) > 5:
                    return
    c["real_file_programs"] = c.get("real_file_programs", 0) + 1
    if spec["i"] < len(KINDS) and spec["i"] % 5 == 0:
        res["sample"] = {"part": "filekinds", "file": KIND_TEXT[kind], "how": how, "program": prog, "api_calls": len(expect), "lines": len(ref)}


STDOUT_CHILD = r"""
import json, os, signal, sys
sys.path.insert(0, sys.argv[1])
spec = json.loads(sys.argv[2])
ack_fd = os.open(sys.argv[3], os.O_WRONLY | os.O_CREAT | os.O_APPEND)
import eliot
if spec["reconfigure"] == "write_through":
    sys.stdout.reconfigure(write_through=True)
elif spec["reconfigure"] == "line_buffering":
    sys.stdout.reconfigure(line_buffering=True)
elif spec["reconfigure"] == "both":
    sys.stdout.reconfigure(line_buffering=True, write_through=True)
out = sys.stdout.buffer if spec["reconfigure"] == "buffer" else sys.stdout
if spec["how"] == "to_file":
    eliot.to_file(out)
else:
    eliot.add_destinations(eliot.FileDestination(file=out))
calls = [0]

def returned():
    calls[0] += 1
    os.write(ack_fd, b"%d\n" % calls[0])
    if calls[0] == spec["kill_at"]:
        os.kill(os.getpid(), signal.SIGKILL)
        while True:
            signal.pause()

action = eliot.start_action(action_type="app:job", nid=0)
returned()
with action.context():
    for i in range(spec["msgs"]):
        eliot.log_message(message_type="app:step", nid=i + 1)
        returned()
        if i == spec["msgs"] // 2:
            with eliot.start_action(action_type="app:inner", nid=100):
                returned()
                eliot.log_message(message_type="app:deep", nid=101)
                returned()
            returned()
action.finish()
returned()
"""


def part_stdoutproc(spec, res):
    """A fresh interpreter started with its standard output redirected to the log file (prog >> log), which reconfigures sys.stdout
    (write-through / line-buffered / both / not at all / python -u / logs to sys.stdout.buffer) and logs to it; every logging call emits
    exactly one line here, and the process kills itself right after call number k returned, for every k."""
    import subprocess
    import sys
    from vf.runner import REPO
    variants = [("write_through", False), ("line_buffering", False), ("none", False), ("none", True), ("both", False), ("buffer", False), ("write_through", True)]
    reconf, dash_u = variants[spec["i"] % len(variants)]
    how = "to_file" if spec["i"] % 2 == 0 else "FileDestination"
    nmsgs = 4
    d = tempfile.mkdtemp(prefix="vf-c11-out-")
    c = res["counters"]
    what = "python %sprogram >> log; %s; %s" % ("-u " if dash_u else "", {"none": "sys.stdout left as it is", "buffer": "logging to sys.stdout.buffer"}.get(
        reconf, "sys.stdout.reconfigure(%s)" % ", ".join(k + "=True" for k in (("line_buffering", "write_through") if reconf == "both" else (reconf,)))),
        "eliot.to_file(it)" if how == "to_file" else "add_destinations(FileDestination(file=it))")
    try:
        script = os.path.join(d, "child.py")
        with open(script, "w") as f:
            f.write(STDOUT_CHILD)
        env = {k: v for k, v in os.environ.items() if k not in ("PYTHONPATH", "PYTHONUNBUFFERED")}
        env["PYTHONIOENCODING"] = "utf-8"

        def run(kill_at):
            log, ackp = os.path.join(d, "log"), os.path.join(d, "ack")
            for x in (log, ackp):
                if os.path.exists(x):
                    os.unlink(x)
            sp = {"reconfigure": reconf, "how": how, "msgs": nmsgs, "kill_at": kill_at}
            with open(log, "ab") as out:
                p = subprocess.run([sys.executable] + (["-u"] if dash_u else []) + [script, REPO, json.dumps(sp), ackp], env=env, stdout=out,
                                   stderr=subprocess.PIPE, timeout=120, cwd=d)
            acks = [int(x) for x in open(ackp).read().split()] if os.path.exists(ackp) else []
            return p, (max(acks) if acks else 0), open(log, "rb").read()
        try:
            p, total, raw = run(0)
            if p.returncode != 0 or not total:
                res["inconclusive"] = "stdoutproc reference child did not finish: %s" % p.stderr.decode("utf-8", "replace")[-300:]
                return
            msgs = [json.loads(l) for l in raw.split(b"\n") if l]
            ref = [(0, sig_of(m)) for m in msgs]
            res["evals"] += 1
            if len(msgs) != total or len(set(m["task_uuid"] for m in msgs)) != 1:
                res["violations"].append({"msg": "%s: the program made %d logging calls (one line each, one task) and ended normally; the file holds %d lines" % (
                    what, total, len(msgs)), "mech": None, "detail": {"part": "stdoutproc", "lines": [sig_of(m) for m in msgs][:12]}})
                return
            for k in range(1, total + 1):
                p, ack, raw = run(k)
                if p.returncode != -signal.SIGKILL or ack != k:
                    res["inconclusive"] = "stdoutproc child for call %d ended with status %s after %d acknowledgements: %s" % (
                        k, p.returncode, ack, p.stderr.decode("utf-8", "replace")[-300:])
                    continue
                problems = []
                nlines, open_nested = post_mortem(raw, ack, ref, problems)
                res["evals"] += 1
                c["redirected_stdout_selfkills"] = c.get("redirected_stdout_selfkills", 0) + 1
                res["sets"].setdefault("redirected_stdout_variants", []).append("%s%s" % (reconf, ":-u" if dash_u else ""))
                if open_nested:
                    res["nontrivial"].append(h(["stdoutproc", reconf, dash_u, how, k]))
                if problems:
                    res["violations"].append({"msg": "%s; the process killed itself (SIGKILL) right after its logging call number %d had returned: %s" % (what, k, problems[0]),
                                              "mech": None, "detail": {"part": "stdoutproc", "reconfigure": reconf, "dash_u": dash_u, "how": how, "call": k,
                                                                       "complete_lines": nlines, "problems": problems[:6]}})
                    if len(res["violations"]) > 3:
                        return
        except subprocess.TimeoutExpired:
            res["inconclusive"] = "stdoutproc child did not finish"
    finally:
        import shutil
        shutil.rmtree(d, ignore_errors=True)


def run_case(spec):
    res = {"evals": 0, "nontrivial": [], "counters": {}, "violations": [], "sets": {"phases_hit": []}}
    rng = random.Random("%s:C11:%s:%d" % (spec["seed"], spec["part"], spec["i"]))
    if spec["part"] == "exitlog":
        part_exitlog(spec, res)
        return res
    if spec["part"] == "stdoutproc":
        part_stdoutproc(spec, res)
        return res
    tmpdir = tempfile.mkdtemp(prefix="vf-c11-")
    c = res["counters"]
    try:
        if spec["part"] == "filekinds":
            part_filekinds(spec, res, rng, tmpdir)
        elif spec["part"] == "enum":
            audit = spec["i"] % 4 == 1
            late = spec["i"] % 4 == 2  # finish() inside the action's own context(), then a message logged there after its end
            prog = make_program(rng, late=late)
            mode = MODES[spec["i"] % 3]
            c["programs_with_a_logging_destination"] = int(audit)
            c["programs_logging_after_an_action_ended"] = int(late)
            ref, err = reference_of(prog, mode, tmpdir, audit=audit, late=late)
            if ref is None:
                res["violations"].append({"msg": "reference run failed: %s" % err, "mech": None, "detail": {"program": prog}})
                return res
            shape = gen.prog_shape(prog)
            if enumerate_crashes(res, prog, mode, ref, shape, tmpdir, audit=audit, late=late):
                return res
            c["programs_enumerated"] = 1
            if spec["i"] % 10 == 0:
                res["sample"] = {"program": prog, "mode": mode, "writes": len(ref), "crash_points": len(ref) * len(crash.PHASES)}
        else:
            prog = make_program(rng, big=True)
            if spec["i"] % 4 == 1:
                # a finished task with 257-330 direct children ahead of the rest (breadth beyond what the generator reaches)
                g = gen.ProgGen(rng, max_nodes=10**6, value_depth=0)
                a = g.act(99, force_style="with")
                a["outcome"] = "ok"
                a.pop("exc", None)
                a["children"] = [g.msg() for _ in range(rng.randint(257, 330))]
                prog = [a] + prog
                c["programs_with_very_wide_task"] = 1
            mode = MODES[spec["i"] % 3]
            repeat = 30 if spec["i"] % 4 != 1 else 8
            t_ref = time.monotonic()
            ref, err = reference_of(prog, mode, tmpdir, repeat)
            t_ref = time.monotonic() - t_ref
            if ref is None:
                res["violations"].append({"msg": "reference run failed: %s" % err, "mech": None, "detail": {}})
                return res
            for kill in range(spec["kills"]):
                path = os.path.join(tmpdir, "x.log")
                delay = rng.random() * t_ref * 0.95
                ack, nacks, status = spawn(prog, path, mode, None, repeat, kill_after=delay)
                raw = b""
                if os.path.exists(path):  # killed before it opened the file otherwise
                    with open(path, "rb") as f:
                        raw = f.read()
                    os.unlink(path)
                problems = []
                nlines, open_nested = post_mortem(raw, ack, ref, problems)
                res["evals"] += 1
                killed = os.WIFSIGNALED(status)
                c["external_kills"] = c.get("external_kills", 0) + int(killed)
                c["external_kills_midway"] = c.get("external_kills_midway", 0) + int(killed and 0 < nlines < len(ref))
                c["acknowledgements_read"] = c.get("acknowledgements_read", 0) + nacks
                if killed and open_nested:
                    res["nontrivial"].append(h(["ext", spec["i"], kill, nlines]))
                if problems:
                    res["violations"].append({"msg": problems[0], "mech": None,
                                              "detail": {"external_kill_after_s": delay, "mode": mode, "ack": ack, "lines": nlines, "problems": problems[:6]}})
    finally:
        import shutil
        shutil.rmtree(tmpdir, ignore_errors=True)
    return res


def finalize(agg, tier):
    c = agg["counters"]
    if c.get("crashes_injected", 0) < 500:
        return "fewer than 500 injected crashes"
    if c.get("external_kills_midway", 0) < 10:
        return "fewer than 10 external kills landed midway through a run"
    if c.get("logging_calls_acknowledged_during_exit", 0) < 16:
        return "too few logging calls were acknowledged during interpreter exit"
    if len(agg["sets"].get("phases_hit", {})) < 12:
        return "not every (phase, mode) combination was hit"
    if ENABLE_FILEKINDS:
        if len(agg["sets"].get("filekind_phases_hit", {})) < len(crash.PHASES) * len(KINDS):
            return "part filekinds: not every (phase, kind of file object) combination was hit behind the pass-through object"
        if c.get("filekind_crashes_injected", 0) < 500:
            return "part filekinds: fewer than 500 injected crashes"
        if len(agg["sets"].get("real_file_kinds", {})) < 2 * len(KINDS):
            return "part filekinds: not every kind of real file object was handed over unwrapped through both to_file and FileDestination"
        if c.get("real_file_selfkills_with_lines_owed", 0) < 200:
            return "part filekinds: fewer than 200 children killed themselves after a logging call that had returned"
        if c.get("real_file_kills_on_acknowledgement", 0) < 200:
            return "part filekinds: fewer than 200 children were killed at the arrival of an acknowledgement"
        if c.get("redirected_stdout_selfkills", 0) < 40 or len(agg["sets"].get("redirected_stdout_variants", {})) < 7:
            return "part stdoutproc: too few self-killing interpreters with redirected standard output"
    return None
