"""C12 - start-up buffering and (un)registration (sequential reference model + hand-over under line-granular schedules)."""

from vf import sched

sched.install()  # before eliot is imported

import itertools
import random

import eliot
from eliot import add_destinations, add_global_fields, log_message, remove_destination, start_action
from eliot import _output

from vf.forkrun import call_in_fork
from vf.runner import h

ID = "C12"
LEVEL = "exploration"
RULE = ("part 'history': random histories over log / add_destinations(1-3 new destinations) / remove_destination / add_global_fields "
        "(length <= 40, a share with 1001-1100 messages logged before the first add), each in a fresh process, compared with a 30-line "
        "sequential reference model that predicts every destination's exact tape (buffered messages once, in order, ahead of later "
        "ones, only to the destinations of the first add; later destinations only later messages; nothing after removal; global "
        "fields set before delivery present); half of the never-removed destinations are distinct objects that compare equal, some unregister themselves while they handle their first message; in a quarter of the histories the wall clock "
        "steps backwards by ten minutes every 2-5 readings. part 'handover': 1-2 logger threads emit uniquely numbered messages (some inside an "
        "action) while another thread performs the first add_destinations, each schedule in a fresh process under the line-granular "
        "scheduler with LINE events on eliot/_output.py: for every priority order ALL one-preemption schedules plus sampled "
        "2-3-preemption ones. Oracle: every message whose logging call returned is on the destination's tape exactly once, per-thread "
        "order preserved, messages buffered before the threads started come first; in a quarter of the thread sets TWO threads make the first add_destinations "
        "call concurrently (exactly one receives the buffered messages, both are registered afterwards, neither call raises); in another quarter the destination needs "
        "arbitrarily long for one of 2-3 buffered messages (logical time: it continues only when no thread can run and every timed wait of a higher-priority thread has expired), "
        "so a logging call that gives up waiting for the hand-over shows as a message delivered ahead of buffered ones. part 'registry' (switch points also between a call instruction and the use of its result inside one line): after the hand-over, 2-3 threads "
        "add and remove destinations (and one logs) concurrently under the same scheduler, all one-preemption schedules: every "
        "destination whose add returned receives a message logged afterwards, every removed one does not, the destination registered "
        "throughout receives everything once. part 'signals': 0-3 messages logged before any destination exists, the first add_destinations, 0-2 messages afterwards, all in a forked process, with a Python "
        "signal handler that itself logs delivered at EVERY point inside those calls at which CPython can run a handler (after each call instruction and at each function entry "
        "inside eliot/_output.py, _action.py, _message.py), one process per point: every message whose logging call returned - the handler's included - reaches the destination exactly "
        "once, buffered ones in order and ahead of later ones, global fields present, no call raises and none blocks for good (where the handler's own message comes out is not judged). non-trivial = history with >=2 adds and a "
        "remove, or >1000 buffered; a registration made by the first destination while the start-up buffer is being replayed into it (it returns normally, "
        "nothing fails, the new destination receives everything logged from then on); schedule whose preemption fired inside Destinations.add/send; distinct by history / interleaving hash")
ASSUMPTIONS = ["switch points are statement boundaries and blocking primitives (CPython granularity)",
               "a destination object may be registered twice (it is then offered every message twice)",
               "destination objects that compare equal to one another are never passed to remove_destination (removal is by equality)"]
EXHAUSTIVE_NOTE = "hand-over: all one-preemption schedules for every priority order of each generated thread set"
CASE_TIMEOUT = 1200


def plan(tier, seed):
    n = 640 if tier == "quick" else 10000
    B = 8
    specs = [{"part": "history", "seed": seed, "lo": i, "hi": min(n, i + B)} for i in range(0, n, B)]
    m = 16 if tier == "quick" else 150
    specs += [{"part": "handover", "seed": seed, "i": i, "tier": tier} for i in range(m)]
    specs += [{"part": "registry", "seed": seed, "i": i, "tier": tier} for i in range(8 if tier == "quick" else 60)]
    k = 40 if tier == "quick" else 1500
    specs += [{"part": "indelivery", "seed": seed, "lo": i, "hi": min(k, i + 20)} for i in range(0, k, 20)]
    specs += [{"part": "signals", "seed": seed, "i": i} for i in range(8 if tier == "quick" else 48)]
    return specs


# --------------------------------------------------------------------------- sequential histories


def gen_history(rng):
    ops = []
    if rng.random() < 0.25:
        ops.append(("clock", rng.choice([2, 3, 5])))
    if rng.random() < 0.2:
        ops.append(("strict_warnings",))
    big = rng.random() < 0.12
    if big:
        ops.append(("logmany", rng.choice([rng.randint(1001, 1100), rng.randint(1990, 2100), rng.randint(2500, 4400)])))
    ndest = 0
    live = []
    for _ in range(rng.randint(3, 40)):
        r = rng.random()
        if r < 0.5:
            ops.append(("log",))
        elif r < 0.7 and ndest < 9:
            k = rng.choice([0, 1, 1, 2, 3]) if rng.random() < 0.25 else rng.randint(1, 3)  # add_destinations() with nothing is a call too
            ids = list(range(ndest, ndest + k))
            ndest += k
            live.extend(ids)
            ops.append(("add", ids))
        elif r < 0.8 and live:
            d = rng.choice(live)
            live.remove(d)
            ops.append(("remove", d))
        elif r < 0.88:
            ops.append(("globals", {rng.choice(["g1", "g2", "host"]): rng.randint(0, 99)}))
        elif r < 0.94 and live:
            # the same destination object registered a second time (it is then offered every message twice, and one
            # remove_destination takes away one registration)
            d = rng.choice(live)
            live.append(d)
            ops.append(("readd", d))
        else:
            ops.append(("logaction",))
    return ops


def run_history(ops):
    """Executed in a fresh process. Returns (tapes, expected) as plain data."""
    tapes = {}
    dests = {}

    never_removed = set(i for op in ops if op[0] == "add" for i in op[1]) - set(op[1] for op in ops if op[0] == "remove")

    class EqDest(object):
        """Distinct destination objects that compare equal to each other (value objects with the same configuration)."""

        def __init__(self, i):
            self.i = i

        def __eq__(self, other):
            return isinstance(other, EqDest)

        def __ne__(self, other):
            return not isinstance(other, EqDest)

        def __hash__(self):
            return 7

        def __call__(self, m):
            tapes[self.i].append(dict(m))

    one_shot = set(i for i in never_removed if i % 3 == 1)  # destinations that unregister themselves while handling their first message

    def make(i):
        tapes[i] = []
        if i in one_shot:
            def once(m, i=i):
                tapes[i].append(dict(m))
                remove_destination(dests[i])
            dests[i] = once
            return once
        if i in never_removed and i % 2 == 0:
            # (only destinations that are never removed: removal finds a destination by equality)
            dests[i] = EqDest(i)
            return dests[i]

        def d(m, i=i):
            tapes[i].append(dict(m))
        dests[i] = d
        return d

    # reference model
    m_buffer = []
    m_dests = []
    m_any = False
    m_globals = {}
    expected = {}
    n = [0]

    def model_log(count=1):
        for _ in range(count):
            n[0] += 1
            rec = (n[0], dict(m_globals))
            if not m_any:
                m_buffer.append(n[0])
                del m_buffer[:-1000]
            else:
                for d in list(m_dests):
                    expected[d].append(rec)
                    if d in one_shot:
                        m_dests.remove(d)

    for op in ops:
        if op[0] == "strict_warnings":
            # the process runs with warnings turned into errors (python -W error)
            import warnings as _warnings
            _warnings.simplefilter("error")
        elif op[0] == "clock":
            # the wall clock is stepped backwards now and then (NTP adjustment, VM resume): timestamps are not monotonic
            import time as _time
            state = {"now": 2000.0, "calls": 0, "every": op[1]}

            def stepping_clock():
                state["calls"] += 1
                state["now"] += 1.0
                if state["calls"] % state["every"] == 0:
                    state["now"] -= 600.0
                return state["now"]
            _time.time = stepping_clock
        elif op[0] == "log":
            log_message(message_type="c12", n=n[0] + 1)
            model_log()
        elif op[0] == "logmany":
            for _ in range(op[1]):
                log_message(message_type="c12", n=n[0] + 1)
                model_log()
        elif op[0] == "logaction":
            with start_action(action_type="c12:act", n=n[0] + 1):
                model_log()
                log_message(message_type="c12", n=n[0] + 1)
                model_log()
            n[0] += 1
            # the end message carries no n: model it as number n with marker
            rec = (n[0], dict(m_globals))
            if not m_any:
                m_buffer.append(n[0])
                del m_buffer[:-1000]
            else:
                for d in list(m_dests):
                    expected[d].append(rec)
                    if d in one_shot:
                        m_dests.remove(d)
        elif op[0] == "add":
            new = [make(i) for i in op[1]]
            for i in op[1]:
                expected[i] = []
            add_destinations(*new)
            m_dests.extend(op[1])
            if not m_any:
                m_any = True
                for k in m_buffer:
                    for i in op[1]:
                        if i in m_dests:
                            expected[i].append((k, dict(m_globals)))
                            if i in one_shot:
                                m_dests.remove(i)
                m_buffer = []
        elif op[0] == "readd":
            if op[1] in m_dests and op[1] not in one_shot and not isinstance(dests[op[1]], EqDest):
                add_destinations(dests[op[1]])
                m_dests.append(op[1])
        elif op[0] == "remove":
            if op[1] in m_dests:
                remove_destination(dests[op[1]])
                m_dests.remove(op[1])
        elif op[0] == "globals":
            add_global_fields(**op[1])
            m_globals.update(op[1])
    # normalise tapes: sequence number = n field, or for end messages the running count
    out = {}
    for i, t in tapes.items():
        seq = []
        for m in t:
            seq.append((m.get("n"), m.get("action_status"), {k: m[k] for k in ("g1", "g2", "host") if k in m}))
        out[str(i)] = seq
    return {"tapes": out, "expected": {str(i): e for i, e in expected.items()}}


def judge_history(ops, data, problems):
    for i, exp in data["expected"].items():
        got = data["tapes"].get(i, [])
        # rebuild numbering: end messages ("succeeded") have no n; they take the model's number at that position
        if len(got) != len(exp):
            gn = [g[0] for g in got]
            problems.append("destination %s received %d messages, the model predicts %d (got n=%s..., expected n=%s...)" % (
                i, len(got), len(exp), gn[:6], [e[0] for e in exp][:6]))
            continue
        for j, (g, e) in enumerate(zip(got, exp)):
            gn, status, gglob = g
            en, eglob = e
            if status in ("succeeded", "failed"):
                pass
            elif gn != en:
                problems.append("destination %s: message %d is n=%r, the model predicts n=%r (lost, duplicated or re-ordered)" % (i, j, gn, en))
                break
            for k, v in eglob.items():
                if gglob.get(k) != v:
                    problems.append("destination %s: message n=%r lacks global field %s=%r set before its delivery (has %r)" % (i, gn, k, v, gglob.get(k)))
                    break


def part_history(spec, res):
    for i in range(spec["lo"], spec["hi"]):
        rng = random.Random("%s:C12:h:%d" % (spec["seed"], i))
        ops = gen_history(rng)
        kind, data = call_in_fork(lambda: run_history(ops), timeout=300)
        res["evals"] += 1
        c = res["counters"]
        c["histories"] = c.get("histories", 0) + 1
        problems = []
        if kind == "timeout":
            res["inconclusive"] = "history child exceeded its watchdog"
            continue
        if kind != "ok":
            problems.append("running the history failed: %s %s" % (kind, str(data)[-400:]))
        else:
            judge_history(ops, data, problems)
            c["destination_tapes_compared"] = c.get("destination_tapes_compared", 0) + len(data["expected"])
        adds = sum(1 for o in ops if o[0] == "add")
        if ops[0][0] == "clock":
            c["histories_with_a_clock_stepping_backwards"] = c.get("histories_with_a_clock_stepping_backwards", 0) + 1
        if (adds >= 2 and any(o[0] == "remove" for o in ops)) or any(o[0] == "logmany" for o in ops[:3]):
            res["nontrivial"].append(h(ops))
        if any(o[0] == "logmany" for o in ops[:3]):
            c["histories_over_1000_buffered"] = c.get("histories_over_1000_buffered", 0) + 1
        if res.get("sample") is None and len(ops) <= 10 and adds >= 2:
            res["sample"] = {"part": "history", "ops": ops}
        if problems:
            res["violations"].append({"msg": problems[0], "mech": None, "detail": {"part": "history", "ops": ops, "problems": problems[:5]}})


# --------------------------------------------------------------------------- concurrent hand-over


def handover_once(plan_, nlog, nmsg, nprebuf, in_action, nadders=1, slow=None):
    """Executed in a fresh process: returns stats + what was logged + the destination's tape. slow=k: the destination needs
    arbitrarily long for the k-th buffered message (in logical time: it goes on only when nothing else can, and after every wait
    with a timeout of a higher-priority thread has expired)."""
    sched.instrument([_output])
    tape = []
    returned = {t: [] for t in range(nlog)}
    for k in range(nprebuf):
        log_message(message_type="pre", pre=k)

    def dest(m):
        tape.append((m.get("t"), m.get("seq"), m.get("pre")))
        if slow is not None and m.get("pre") == slow:
            sched.sleep()

    def logger(t):
        def run():
            if in_action and t == 0:
                with start_action(action_type="h:act", t=t, seq="start"):
                    for s in range(nmsg):
                        log_message(message_type="h", t=t, seq=s)
                        returned[t].append(s)
            else:
                for s in range(nmsg):
                    log_message(message_type="h", t=t, seq=s)
                    returned[t].append(s)
        return run

    tape2 = []

    def dest2(m):
        tape2.append((m.get("t"), m.get("seq"), m.get("pre")))

    def adder():
        add_destinations(dest)

    def adder2():
        add_destinations(dest2)

    workers = {"L%d" % t: logger(t) for t in range(nlog)}
    workers["A"] = adder
    if nadders == 2:
        workers["B"] = adder2
    st, errs = sched.run_schedule(plan_, workers, timeout=60.0)
    if nadders == 2:
        # two threads both made "the first" add_destinations call: exactly one of them is the first, both destinations are registered
        try:
            log_message(message_type="h", t="final", seq=0)
        except BaseException as e:
            errs["main"] = e
        t1, t2 = list(tape), list(tape2)
        fin1, fin2 = [x for x in t1 if x[0] == "final"], [x for x in t2 if x[0] == "final"]
        tape[:] = [x for x in t1 if x[0] != "final"]
        other = [x for x in t2 if x[0] != "final"]
        pre1, pre2 = [x for x in tape if x[2] is not None], [x for x in other if x[2] is not None]
        extra = []
        if len(fin1) != 1 or len(fin2) != 1:
            extra.append("two concurrent first add_destinations calls: a message logged after both returned reached the destinations %d and %d times" % (len(fin1), len(fin2)))
        if nprebuf and pre1 and pre2:
            extra.append("two concurrent first add_destinations calls: buffered messages were delivered to both destinations")
        # the tape judged below is the one of the destination that became the first (it holds the buffered messages, or more messages)
        if (pre2 and not pre1) or (not pre1 and not pre2 and len(other) > len(tape)):
            tape[:], other = other, list(tape)
        for x in other:
            if x not in tape:
                extra.append("the destination registered second received %r, which the first one did not" % (x,))
        for x_ in extra[:2]:
            errs["second-adder: " + x_] = None
    return {"stats": {"events": st["events"], "fired": st["fired"], "aborted": st["aborted"], "deadlock": st["deadlock"], "trace": st["trace"], "steps": st["steps"]},
            "errors": {k: repr(v) for k, v in errs.items()}, "returned": {str(k): v for k, v in returned.items()}, "tape": tape,
            "timeouts_fired": st["timeouts_fired"]}


def judge_handover(data, nlog, nprebuf, problems):
    for k, e in data["errors"].items():
        problems.append(k if k.startswith("second-adder") else "thread %s raised %s" % (k, e))
    tape = [tuple(x) for x in data["tape"]]
    pres = [x[2] for x in tape if x[2] is not None]
    if pres != list(range(nprebuf)):
        problems.append("messages buffered before the threads started arrive as %s, expected %s" % (pres, list(range(nprebuf))))
    if pres and any(x[2] is None for x in tape[: len(pres)]):
        problems.append("a later message was delivered ahead of messages buffered before the threads started")
    for t in range(nlog):
        got = [x[1] for x in tape if x[0] == t and x[1] != "start" and x[1] is not None]
        ret = data["returned"][str(t)]
        missing = [s for s in ret if s not in got]
        if missing:
            problems.append("hand-over race: logger thread %d's messages %s were logged (call returned) but never delivered; tape has %s" % (t, missing, got))
        if len(got) != len(set(got)):
            problems.append("logger thread %d: a message was delivered twice: %s" % (t, got))
        if got != sorted(got):
            problems.append("logger thread %d: messages delivered out of order: %s" % (t, got))


def part_handover(spec, res):
    rng = random.Random("%s:C12:x:%d" % (spec["seed"], spec["i"]))
    nlog = rng.choice([1, 1, 2])
    nmsg = rng.choice([1, 2, 3]) if nlog == 1 else rng.choice([1, 2])
    nprebuf = rng.choice([0, 1, 3])
    in_action = rng.random() < 0.3
    nadders = 2 if spec["i"] % 4 == 3 else 1
    if nadders == 2:
        nlog, nmsg = 1, rng.choice([1, 2])
    slow = None
    if spec["i"] % 4 == 1:
        # the replay of the start-up buffer takes arbitrarily long (a slow file system, a network destination): a logging call made
        # meanwhile still has to come out behind the buffered messages, however long it has to wait
        nprebuf = rng.choice([2, 3])
        slow = rng.randrange(nprebuf)
    names = ["L%d" % t for t in range(nlog)] + ["A"] + (["B"] if nadders == 2 else [])
    c = res["counters"]

    def execute(plan_, label):
        if nadders == 2:
            c["schedules_with_two_first_adders"] = c.get("schedules_with_two_first_adders", 0) + 1
        kind, data = call_in_fork(lambda: handover_once(plan_, nlog, nmsg, nprebuf, in_action, nadders, slow), timeout=120)
        res["evals"] += 1
        c["schedules_run"] = c.get("schedules_run", 0) + 1
        if kind == "timeout" or kind == "died":
            res["inconclusive"] = "hand-over child %s" % kind
            return None
        problems = []
        if kind != "ok":
            problems.append("hand-over run failed: %s" % str(data)[-500:])
            st = None
        else:
            st = data["stats"]
            if st["deadlock"]:
                problems.append("logging / add_destinations deadlocked: %s" % st["deadlock"])
            elif st["aborted"]:
                res["inconclusive"] = "schedule abandoned: %s" % st["aborted"]
                return st
            else:
                judge_handover(data, nlog, nprebuf, problems)
            if slow is not None and not st["aborted"]:
                c["schedules_with_arbitrarily_slow_replay"] = c.get("schedules_with_arbitrarily_slow_replay", 0) + 1
                c["logical_timeouts_expired"] = c.get("logical_timeouts_expired", 0) + data.get("timeouts_fired", 0)
            res["sets"]["interleavings"].append(h(st["trace"]))
            for nm, k, loc in st["fired"]:
                res["sets"]["preemption_lines"].append(loc)
                c["preemptions_fired"] = c.get("preemptions_fired", 0) + 1
            if st["fired"]:
                res["nontrivial"].append(h(st["trace"]))
        if problems and len(res["violations"]) < 3:
            mech = "handover-race" if any("hand-over race" in p for p in problems) and not any("twice" in p or "out of order" in p or "raised" in p for p in problems) else None
            res["violations"].append({"msg": problems[0], "mech": mech,
                                      "detail": {"part": "handover", "plan": plan_, "threads": names, "messages_per_logger": nmsg, "prebuffered": nprebuf,
                                                 "in_action": in_action, "slow_buffered_message": slow, "problems": problems[:5], "trace": st and st["trace"][:40], "label": label}})
        elif problems:
            res["counters"]["further_violating_schedules"] = res["counters"].get("further_violating_schedules", 0) + 1
        return st

    base = None
    for order in itertools.permutations(names):
        base = execute({"order": list(order), "changes": []}, "baseline")
        if base is None:
            return
        for p in sched.one_preemption_plans(list(order), base["events"]):
            execute(p, "1-preemption")
    for p in sched.sampled_plans(rng, names, base["events"], 30 if spec["tier"] == "quick" else 400):
        execute(p, "sampled")
    c["thread_sets_explored_exhaustively_1p"] = c.get("thread_sets_explored_exhaustively_1p", 0) + 1
    if spec["i"] % 8 == 0:
        res["sample"] = {"part": "handover", "threads": names, "messages_per_logger": nmsg, "prebuffered": nprebuf, "baseline_events": base["events"]}


def registry_once(plan_, ops):
    """Fresh process: threads add / remove destinations (and one logs) concurrently after the hand-over is long over."""
    sched.instrument([_output], post_call=True)  # switch points also between a call and the use of its result, inside a line
    tapes = {}

    def make(name):
        tapes[name] = []

        def d(m, name=name):
            tapes[name].append(m.get("n"))
            if m.get("n") == "final":
                tapes["final_globals"] = sorted(k for k in m if k.startswith("gf_"))
        d.__name__ = name
        return d
    base = make("base")
    pre = {name: make(name) for kind, name in ops if kind == "remove"}
    tail = make("tail")  # registered behind the ones that get removed: it must never be affected by their removal
    add_destinations(base, *pre.values())
    add_destinations(tail)
    new = {name: make(name) for kind, name in ops if kind == "add"}
    logged = []

    def worker(kind, name):
        def run():
            if kind == "add":
                add_destinations(new[name])
            elif kind == "remove":
                remove_destination(pre[name])
            elif kind == "globals":
                add_global_fields(**{"gf_" + name: name})
            else:
                for k in range(2):
                    log_message(message_type="reg", n="during%d" % k)
                    logged.append("during%d" % k)
        return run
    workers = {"W%d" % j: worker(kind, name) for j, (kind, name) in enumerate(ops)}
    st, errs = sched.run_schedule(plan_, workers, timeout=60.0)
    log_message(message_type="reg", n="final")
    return {"stats": {"events": st["events"], "fired": st["fired"], "aborted": st["aborted"], "deadlock": st["deadlock"], "trace": st["trace"]},
            "errors": {k: repr(v) for k, v in errs.items()}, "tapes": tapes, "logged": logged}


def part_registry(spec, res):
    rng = random.Random("%s:C12:reg:%d" % (spec["seed"], spec["i"]))
    nops = rng.choice([2, 2, 3])
    ops = []
    for j in range(nops):
        ops.append((rng.choice(["add", "add", "remove"]), "d%d" % j))
    if rng.random() < 0.5:
        ops.append(("log", "logger"))
    if spec["i"] % 3 == 1:
        # two threads removing different destinations at the same time (and one logging)
        ops = [("remove", "d0"), ("remove", "d1"), rng.choice([("log", "logger"), ("remove", "d2"), ("add", "d3")])]
    if spec["i"] % 3 == 2:
        # two threads setting global fields at the same time (and one adding a destination or logging)
        ops = [("globals", "a"), ("globals", "b"), rng.choice([("add", "d2"), ("log", "logger"), ("globals", "c")])]
    names = ["W%d" % j for j in range(len(ops))]
    c = res["counters"]

    def execute(plan_, label):
        kind, data = call_in_fork(lambda: registry_once(plan_, ops), timeout=120)
        res["evals"] += 1
        c["registry_schedules_run"] = c.get("registry_schedules_run", 0) + 1
        if kind in ("timeout", "died"):
            res["inconclusive"] = "registry child %s" % kind
            return None
        problems = []
        if kind != "ok":
            problems.append("registry run failed: %s" % str(data)[-400:])
            st = None
        else:
            st = data["stats"]
            if st["deadlock"]:
                problems.append("add/remove/log deadlocked: %s" % st["deadlock"])
            elif st["aborted"]:
                res["inconclusive"] = "schedule abandoned: %s" % st["aborted"]
                return st
            for k, e in data["errors"].items():
                problems.append("thread %s raised %s" % (k, e))
            tapes = data["tapes"]
            for opkind, name in ops:
                got_final = "final" in tapes.get(name, [])
                if opkind == "add" and not got_final:
                    problems.append("destination %s was added (call returned) but did not receive a message logged afterwards" % name)
                if opkind == "remove" and got_final:
                    problems.append("destination %s was removed (call returned) but still received a message logged afterwards" % name)
            want_g = sorted("gf_" + name for opkind, name in ops if opkind == "globals")
            if want_g and tapes.get("final_globals") != want_g:
                problems.append("global fields set by concurrent add_global_fields calls that all returned: a message logged afterwards carries %s, expected %s" % (
                    tapes.get("final_globals"), want_g))
            tail = tapes.get("tail", [])
            if tail.count("final") != 1 or [x for x in tail if x != "final"] != data["logged"]:
                problems.append("the destination registered behind the removed ones received %s, logged %s + final" % (tail, data["logged"]))
            base = tapes.get("base", [])
            if base.count("final") != 1 or [x for x in base if x != "final"] != data["logged"]:
                problems.append("the destination registered throughout received %s, logged %s + final" % (base, data["logged"]))
            res["sets"]["interleavings"].append(h(st["trace"]))
            for nm, k, loc in st["fired"]:
                res["sets"]["preemption_lines"].append(loc)
            if st["fired"]:
                res["nontrivial"].append(h(st["trace"]))
        if problems and len(res["violations"]) < 3:
            res["violations"].append({"msg": problems[0], "mech": None, "detail": {"part": "registry", "ops": ops, "plan": plan_, "problems": problems[:5], "label": label}})
        return st

    base = None
    for order in itertools.permutations(names):
        base = execute({"order": list(order), "changes": []}, "baseline")
        if base is None:
            return
        for p in sched.one_preemption_plans(list(order), base["events"]):
            execute(p, "1-preemption")
            if len(res["violations"]) >= 3:
                return
    for p in sched.sampled_plans(rng, names, base["events"], 20 if spec["tier"] == "quick" else 200):
        execute(p, "sampled")


# --------------------------------------------------------------------------- calls made while a message is being delivered


_HERE = gen_history.__code__.co_filename


def _label(m):
    return m["n"] if "n" in m else "%s/%s" % (m.get("action_type"), m.get("action_status"))


def gen_indelivery(rng, i):
    if i % 5 < 3:
        nfirst = rng.choice([1, 1, 1, 2])
        return {"kind": "late_sink", "nprebuf": rng.choice([0, 1, 3]), "nfirst": nfirst, "drop_one_first": nfirst == 2 and rng.random() < 0.5,
                "before": rng.randint(0, 2), "after": rng.randint(1, 3), "mode": rng.choice(["self", "thread"]), "nlate": rng.choice([1, 1, 2]),
                "in_action": rng.random() < 0.25}
    if i % 5 == 3 and i % 2:
        # the registration happens while the start-up buffer is being replayed into the (only) destination of the first call
        nprebuf = rng.randint(1, 4)
        return {"kind": "late_sink", "nprebuf": nprebuf, "nfirst": 1, "drop_one_first": False, "before": rng.randint(0, 2), "after": rng.randint(1, 3),
                "mode": "self", "nlate": rng.choice([1, 2]), "in_action": False, "replay_trigger": rng.randrange(nprebuf),
                "interrupt": rng.random() < 0.4}
    nprebuf = rng.randint(1, 3)
    return {"kind": "globals_in_handover", "nprebuf": nprebuf, "at": rng.randrange(nprebuf), "nfirst": rng.choice([1, 1, 2]), "nloggers": rng.choice([1, 1, 2]),
            "nmsg": rng.choice([1, 2]), "setter": rng.choice(["self", "thread"]), "prior_globals": rng.random() < 0.4}


def late_sink_once(sc):
    """Fresh process. A second sink is registered (by the destination itself, or by another thread) while the destination(s) registered
    so far handle a message; returns what was logged in call order, where the registration returned, and every tape."""
    import threading
    seq = []  # labels of the messages in the order their log calls were made (one thread logs)
    tapes = {}
    state = {"reg_at": None, "timeout": None, "registered_when_triggered": None}

    def sink(name):
        tapes[name] = []

        def d(m, name=name):
            tapes[name].append(_label(m))
        return d

    def log(n):
        seq.append(n)
        log_message(message_type="d", n=n)

    for k in range(sc["nprebuf"]):
        log("pre%d" % k)
    late = [sink("late%d" % k) for k in range(sc["nlate"])]
    inside, added = threading.Event(), threading.Event()
    mid = "m%d" % sc["before"]
    trigger = mid if sc.get("replay_trigger") is None else "pre%d" % sc["replay_trigger"]
    tapes["first0"] = []

    def primary(m):
        tapes["first0"].append(_label(m))
        if _label(m) == trigger and state["reg_at"] is None and state["timeout"] is None:
            if sc.get("interrupt"):
                # Ctrl-C arrives while the destination handles a replayed message; the application catches it and carries on
                state["interrupted"] = True
                raise KeyboardInterrupt()
            if sc["mode"] == "self":
                # e.g. a destination that opens a further sink the first time it sees a certain message
                add_destinations(*late)
                state["reg_at"] = len(seq)
            else:
                inside.set()
                if not added.wait(30):
                    state["timeout"] = "the thread registering a destination during a delivery did not finish"

    def helper():
        if inside.wait(60):
            add_destinations(*late)
            state["reg_at"] = len(seq)  # the logging thread is inside the destination: nothing was logged meanwhile
            added.set()

    first = [primary] + [sink("first%d" % k) for k in range(1, sc["nfirst"])]
    th = None
    if sc["mode"] == "thread":
        th = threading.Thread(target=helper)
        th.daemon = True
        th.start()
    try:
        add_destinations(*first)
    except KeyboardInterrupt:
        if not sc.get("interrupt"):
            raise
        # ... and registers a further destination later on
        log("mi")
        try:
            add_destinations(*late)
            state["reg_at"] = len(seq)
        except Exception as e:
            state["late_add_raised"] = repr(e)
    registered = list(first)
    if sc["drop_one_first"]:
        remove_destination(first[1])
        registered.remove(first[1])
        state["dropped_at"] = len(seq)
    for k in range(sc["before"]):
        log("m%d" % k)
    state["registered_when_triggered"] = len(registered)
    if sc["in_action"]:
        seq.append("d:act/started")
        with start_action(action_type="d:act"):
            log(mid)
            seq.append("d:act/succeeded")
    else:
        log(mid)
    for k in range(sc["after"]):
        log("m%d" % (sc["before"] + 1 + k))
    if th is not None:
        inside.set()
        th.join(30)
    return {"seq": seq, "tapes": tapes, "state": state}


def judge_late_sink(sc, data, problems):
    seq, tapes, st = data["seq"], data["tapes"], data["state"]
    if sc.get("interrupt"):
        if st.get("late_add_raised"):
            problems.append("after a KeyboardInterrupt had come out of a destination during the replay of the start-up buffer (caught by the application), "
                            "the next add_destinations raised %s" % st["late_add_raised"])
            return
        if st["reg_at"] is None:
            problems.append("the interrupting destination was never offered its message (tape %s)" % (tapes.get("first0"),))
            return
        want_late = seq[st["reg_at"]:]
        for k in range(sc["nlate"]):
            if tapes.get("late%d" % k) != want_late:
                problems.append("destination late%d, registered after an interrupted hand-over, received %s; logged after its registration: %s" % (
                    k, tapes.get("late%d" % k), want_late))
        got = tapes.get("first0") or []
        if got[len(got) - len(want_late) - 1:] != ["mi"] + want_late:
            problems.append("the destination of the first (interrupted) add_destinations call received %s; logged after the interrupt: %s" % (got, ["mi"] + want_late))
        return
    if st["reg_at"] is None and sc.get("replay_trigger") is not None:
        problems.append("add_destinations, called by the destination of the first add_destinations call while the start-up buffer was being replayed into it, "
                        "did not return normally (that destination's tape: %s)" % (tapes.get("first0"),))
        return
    if st["reg_at"] is None:
        problems.append("the message that triggers the registration was never delivered to the registered destination (tape %s)" % tapes.get("first0"))
        return
    want_late = seq[st["reg_at"]:]
    for k in range(sc["nlate"]):
        got = tapes.get("late%d" % k)
        if sc.get("replay_trigger") is not None:
            # registered during the replay of the start-up buffer: it is registered from then on (whether the rest of the replay
            # reaches it is not judged), and nothing fails
            rest = ["pre%d" % j for j in range(sc["replay_trigger"] + 1, sc["nprebuf"])]
            if got[len(got) - len(want_late):] != want_late or any(x not in rest for x in got[:len(got) - len(want_late)]):
                problems.append("destination late%d, registered by the first destination while the start-up buffer was being replayed into it, received %s; "
                                "logged after its registration: %s" % (k, got, want_late))
            continue
        if got != want_late:
            early = [x for x in got if x not in want_late]
            if early:
                problems.append("destination late%d, registered while %r was being delivered, received %s: %s logged before its registration (after it: %s)" % (
                    k, seq[st["reg_at"] - 1], got, early, want_late))
            else:
                problems.append("destination late%d received %s, but the messages logged after its registration returned are %s" % (k, got, want_late))
    if tapes.get("first0") != seq:
        problems.append("the destination of the first add_destinations call received %s, logged: %s" % (tapes.get("first0"), seq))
    for k in range(1, sc["nfirst"]):
        want = seq[:st["dropped_at"]] if (k == 1 and sc["drop_one_first"]) else seq
        if tapes.get("first%d" % k) != want:
            problems.append("destination first%d received %s, expected %s" % (k, tapes.get("first%d" % k), want))


def _wait_blocked_or_finished(threads, bound=3.0):
    """Bounded poll: returns the threads that are still alive and sit at the same instruction of the same frame, outside this file, for six
    consecutive looks (blocked, as far as one can tell). A thread that arrives late only makes the scenario less demanding."""
    import sys
    import time
    deadline = time.monotonic() + bound
    last, stable = {}, {}
    while True:
        frames = sys._current_frames()
        blocked, pending = [], False
        for t in threads:
            if not t.is_alive():
                continue
            f = frames.get(t.ident)
            sig = None if f is None or f.f_code.co_filename == _HERE else (id(f), f.f_lasti)
            if sig is not None and last.get(t.name) == sig:
                stable[t.name] = stable.get(t.name, 0) + 1
            else:
                stable[t.name] = 0
            last[t.name] = sig
            if stable[t.name] >= 6:
                blocked.append(t)
            else:
                pending = True
        del frames
        if not pending or time.monotonic() > deadline:
            return blocked
        time.sleep(0.004)


def globals_in_handover_once(sc):
    """Fresh process. While the start-up buffer is replayed into the destinations of the first add_destinations call, one of them starts
    threads that log (their calls wait for the hand-over), waits until they are blocked or done, and sets a global field (itself, or in a
    further thread it joins). Returns one append-only event list: deliveries and returns of add_global_fields in the order they happened."""
    import threading
    events = []
    state = {"fired": False, "timeout": None, "waiting": []}
    returned = {t: [] for t in range(sc["nloggers"])}
    if sc["prior_globals"]:
        add_global_fields(g0=3)
        events.append(["globals", {"g0": 3}])
    for k in range(sc["nprebuf"]):
        log_message(message_type="pre", n="pre%d" % k)

    def logger(t):
        def run():
            for s_ in range(sc["nmsg"]):
                log_message(message_type="late", n="t%d.%d" % (t, s_))
                returned[t].append("t%d.%d" % (t, s_))
        return run

    threads = [threading.Thread(target=logger(t), name="logger%d" % t) for t in range(sc["nloggers"])]

    def set_field():
        add_global_fields(run=7)
        events.append(["globals", {"run": 7}])

    def record(name, m):
        events.append(["deliver", name, _label(m), {k: m[k] for k in ("g0", "run") if k in m}])

    def first0(m):
        record("first0", m)
        if _label(m) == "pre%d" % sc["at"] and not state["fired"]:
            state["fired"] = True
            for t in threads:
                t.daemon = True
                t.start()
            blocked = _wait_blocked_or_finished(threads)
            if sc["setter"] == "self":
                set_field()
            else:
                g = threading.Thread(target=set_field)
                g.daemon = True
                g.start()
                g.join(30)
                if g.is_alive():
                    state["timeout"] = "the thread calling add_global_fields during the hand-over did not finish"
            # loggers whose first call had not returned when the field was set: their message is delivered afterwards
            state["waiting"] = ["t%d.0" % i for i, t in enumerate(threads) if t in blocked and t.is_alive() and not returned[i]]

    def other(m):
        record("first1", m)

    first = [first0, other][: sc["nfirst"]]
    if sc["nfirst"] == 2 and sc["at"] % 2:
        first.reverse()
    add_destinations(*first)
    for t in threads:
        if t.ident is not None:
            t.join(30)
            if t.is_alive():
                state["timeout"] = "a logging thread did not finish after the hand-over"
    log_message(message_type="late", n="after")
    return {"events": events, "state": state, "returned": {str(t): v for t, v in returned.items()}}


def judge_globals_in_handover(sc, data, problems):
    events, st = data["events"], data["state"]
    if not st["fired"]:
        problems.append("buffered message pre%d was not replayed into the destination of the first add_destinations call" % sc["at"])
    fields = {}
    due = {}  # message -> the fields set before its delivery began (a message is handed to the destinations one after the other)
    tapes = {"first%d" % k: [] for k in range(sc["nfirst"])}
    reached = 0
    for ev in events:
        if ev[0] == "globals":
            fields.update(ev[1])
            continue
        _, name, label, got = ev
        tapes[name].append(label)
        if label not in due:
            due[label] = dict(fields)
        for k, v in due[label].items():
            if got.get(k) != v:
                problems.append("message %r was delivered to %s after add_global_fields(%s=%r) had returned but does not carry the field (has %s)" % (label, name, k, v, got))
        if name == "first0" and "run" in fields and label in st["waiting"]:
            reached += 1
    pres = ["pre%d" % k for k in range(sc["nprebuf"])]
    for name, tape in tapes.items():
        if tape[: len(pres)] != pres or tape[-1:] != ["after"] or tape.count("after") != 1:
            problems.append("%s received %s: expected the buffered messages %s first and 'after' once, last" % (name, tape, pres))
        for t, ret in data["returned"].items():
            got = [x for x in tape if x.startswith("t%s." % t)]
            if got != ret:
                problems.append("%s received %s from logging thread %s, whose calls %s returned (lost, duplicated or re-ordered across the hand-over)" % (name, got, t, ret))
    return reached


def part_indelivery(spec, res):
    c = res["counters"]
    for i in range(spec["lo"], spec["hi"]):
        rng = random.Random("%s:C12:d:%d" % (spec["seed"], i))
        sc = gen_indelivery(rng, i)
        fn = late_sink_once if sc["kind"] == "late_sink" else globals_in_handover_once
        kind, data = call_in_fork(lambda: fn(sc), timeout=150)
        res["evals"] += 1
        c["indelivery_scenarios"] = c.get("indelivery_scenarios", 0) + 1
        if kind in ("timeout", "died"):
            res["inconclusive"] = "in-delivery child %s" % kind
            continue
        problems = []
        if kind != "ok":
            problems.append("running the in-delivery scenario failed: %s" % str(data)[-500:])
        elif data["state"]["timeout"]:
            res["inconclusive"] = data["state"]["timeout"]
            continue
        elif sc["kind"] == "late_sink":
            judge_late_sink(sc, data, problems)
            if data["state"]["reg_at"] is not None:
                c["registrations_completed_during_a_delivery"] = c.get("registrations_completed_during_a_delivery", 0) + 1
                if sc.get("replay_trigger") is not None:
                    c["registrations_completed_during_the_replay_of_the_buffer"] = c.get("registrations_completed_during_the_replay_of_the_buffer", 0) + 1
                if data["state"]["registered_when_triggered"] == 1:
                    c["registrations_completed_inside_the_only_destination"] = c.get("registrations_completed_inside_the_only_destination", 0) + 1
                res["nontrivial"].append(h(sc))
        else:
            n = judge_globals_in_handover(sc, data, problems)
            c["messages_waiting_for_the_handover_when_a_global_field_was_set"] = c.get("messages_waiting_for_the_handover_when_a_global_field_was_set", 0) + n
            if n:
                res["nontrivial"].append(h(sc))
        if res.get("sample") is None:
            res["sample"] = {"part": "indelivery", "scenario": sc}
        if problems and len(res["violations"]) < 3:
            res["violations"].append({"msg": problems[0], "mech": None, "detail": {"part": "indelivery", "scenario": sc, "problems": problems[:5], "observed": data if kind == "ok" else None}})


def part_signals(spec, res):
    """The start-up phase and the first add_destinations with a signal handler that logs, delivered at EVERY point inside those calls at
    which CPython can run a handler (vf/sigreent.py); one forked process per point (each is a forked child: the first logging call of a
    process other than the one eliot was imported in is part of what is explored)."""
    from vf import sigreent
    i = spec["i"]
    nprebuf, nafter, with_globals = [(1, 0, False), (2, 1, True), (3, 1, False), (0, 2, False), (2, 0, True), (1, 2, False), (3, 0, True), (2, 2, False)][i % 8]
    c = res["counters"]
    kind, base = call_in_fork(lambda: sigreent.run_handover(nprebuf, nafter, 0, with_globals), timeout=120)
    if kind != "ok" or base.get("skip"):
        res["inconclusive"] = "signals: baseline run %s %s" % (kind, str(base)[-200:])
        return
    step = 1 if (spec["i"] < 8) else 1
    for k in range(1, base["points"] + 1, step):
        kind, d = call_in_fork(lambda: sigreent.run_handover(nprebuf, nafter, k, with_globals), timeout=120)
        res["evals"] += 1
        if kind in ("timeout", "died"):
            res["inconclusive"] = "signals: child %s at point %d" % (kind, k)
            return
        problems = []
        if kind != "ok":
            problems.append("run failed: %s" % str(d)[-400:])
        else:
            if d["handler_runs"] != 1:
                continue
            c["signal_handlers_run_inside_startup_or_handover_calls"] = c.get("signal_handlers_run_inside_startup_or_handover_calls", 0) + 1
            if d["fired"] and ":add:" in d["fired"]:
                c["signal_handlers_run_inside_the_first_add"] = c.get("signal_handlers_run_inside_the_first_add", 0) + 1
            res["sets"]["signal_points"].append(d["fired"])
            res["nontrivial"].append(h(["sig", nprebuf, nafter, with_globals, k]))
            sigreent.judge_handover(d, nprebuf, nafter, with_globals, problems)
        if problems and len(res["violations"]) < 3:
            where = d["fired"] if kind == "ok" else "?"
            res["violations"].append({"msg": "a signal handler that logs ran at %s while %d messages were buffered / handed over: %s" % (where, nprebuf, problems[0]), "mech": None,
                                      "detail": {"part": "signals", "prebuffered": nprebuf, "after": nafter, "global_fields": with_globals, "point": k, "landed_at": where,
                                                 "problems": problems[:5], "tape": d.get("tape") if kind == "ok" else None}})
        elif problems:
            c["further_violating_signal_points"] = c.get("further_violating_signal_points", 0) + 1


def run_case(spec):
    if spec["part"] == "signals":
        res = {"evals": 0, "nontrivial": [], "counters": {}, "violations": [], "sample": None, "sets": {"signal_points": []}}
        part_signals(spec, res)
        return res
    if spec["part"] == "registry":
        res = {"evals": 0, "nontrivial": [], "counters": {}, "violations": [], "sample": None, "sets": {"interleavings": [], "preemption_lines": []}}
        part_registry(spec, res)
        return res
    res = {"evals": 0, "nontrivial": [], "counters": {}, "violations": [], "sample": None, "sets": {"interleavings": [], "preemption_lines": []}}
    if spec["part"] == "history":
        part_history(spec, res)
    elif spec["part"] == "indelivery":
        part_indelivery(spec, res)
    else:
        part_handover(spec, res)
    return res


def finalize(agg, tier):
    c = agg["counters"]
    if c.get("histories", 0) < 200 or c.get("schedules_run", 0) < 500:
        return "too few histories / schedules"
    if c.get("histories_over_1000_buffered", 0) < 5:
        return "fewer than 5 histories with more than 1000 buffered messages"
    if c.get("registrations_completed_inside_the_only_destination", 0) < 1:
        return "no add_destinations call completed while the only registered destination was handling a message"
    if c.get("messages_waiting_for_the_handover_when_a_global_field_was_set", 0) < 1:
        return "no log call was waiting for the hand-over when a global field was set during the replay of the start-up buffer"
    if c.get("schedules_with_arbitrarily_slow_replay", 0) < 50 or c.get("logical_timeouts_expired", 0) < 50:
        return "fewer than 50 hand-over schedules in which the destination stalled on a buffered message"
    if c.get("signal_handlers_run_inside_the_first_add", 0) < 20:
        return "fewer than 20 logging signal handlers ran inside the first add_destinations call (part 'signals')"
    lines = agg["sets"].get("preemption_lines", {})
    if not any(l.startswith("_output.py") for l in lines):
        return "no preemption landed inside eliot/_output.py"
    if not any(l.startswith("_output.py:+") for l in lines):
        return "no preemption landed between a call and the use of its result inside eliot/_output.py (registry part)"
    return None
