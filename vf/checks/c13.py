"""C13 - typed fields serialized exactly once; serializer failures contained."""

from vf import sched

sched.install()  # before eliot is imported (part 'threads' runs under the line-granular scheduler)

import copy

import eliot  # noqa: E402 (after sched.install())
import itertools
import random

from eliot import (ActionType, Field, Logger, MessageType, add_destinations, add_global_fields, current_action, fields as fields_factory,
                   log_message, remove_destination, start_action)
from eliot import _output, _validation

from vf import excs, gen
from vf.forkrun import call_in_fork
from vf.gen import json_equal
from vf.runner import h
from vf.tape import Recorder, Tape

ID = "C13"
LEVEL = "fault_enumeration"
RULE = ("generated type definitions (1-4 declared fields, serializers from a pool incl. non-idempotent ones: v->[v], v->{'v':v}, str, repr; "
        "each wrapped in a call counter and a failure mask) x JSON-native values x every subset-style mask of failing serializers / one "
        "missing declared field, for stand-alone messages (inside / outside an action), action start, success end, failure end, as_task "
        "start, and dicts passed straight to Logger.write (with and without serializer, with global fields set in half of the forks). "
        "Oracle: delivered value == s(v) computed independently, every serializer called exactly once per delivered message, undeclared "
        "fields untouched, caller-held dicts/objects deep-equal and identity-equal to their snapshot; on failure the message is absent, "
        "exactly one eliot:traceback then one eliot:serialization_failure (rendering mentions the message) are logged in the context "
        "current at the call at fresh later positions, no serializer called twice, the call returns normally. non-trivial = "
        "non-idempotent serializer or >=1 failing one; distinct by (message kind, serializer kinds, declaration kinds, failing set, missing field). "
        "Fields are declared by Field(key, serializer), a Field subclass overriding serialize(), Field.for_types, the fields() factory or Field.for_value. Extra parts: a serializer that "
        "logs a message of its own type (re-entrancy), and 2-3 threads logging one type under the line-granular scheduler (LINE events on "
        "eliot/_validation.py and eliot/_output.py, all one-preemption schedules + sampled): every delivered message holds its own values (a third of the thread cases: every serializer fails, one traceback + one "
        "serialization_failure per call). Typed child actions / messages failing inside an action bound to another logger object report to the destinations. In 30% of the cases "
        "the failing serializers raise one stored exception object again and again. Half of the Message objects made by calling a MessageType pass "
        "through copy.copy / copy.deepcopy (alone, inside a copied container or object graph, copied twice, or copied and then bound) before "
        ".write(): the copy is serialized and reported exactly like the original. In one case in eight the failing serializers raise KeyboardInterrupt, SystemExit, GeneratorExit or an application's own BaseException class ('if a serializer raises'): contained and reported like any other failure. Part 'startup': the same generated cases in processes that "
        "have never added a destination - the typed call (after 1-4 plain messages) is made BEFORE the first add_destinations, the "
        "destination is added afterwards and the replayed start-up buffer is judged by the same oracle (counted only when the plain "
        "messages logged just before were replayed too). "
        "In 60% of the success-end / failure-end cases the success fields are supplied by 2-4 add_success_fields / addSuccessFields calls with "
        "overlapping keys and different values (progress reports, a default that is overridden): the success message carries, for every "
        "declared field, the serializer applied exactly once to the value supplied LAST for that key (undeclared keys: the last value "
        "untouched), every serializer called exactly once for that message, every dict handed to one of the calls unchanged. "
        "The serializer pool holds functions whose output is exactly None for a logged value that is not None (a lookup table's .get, "
        "getattr(v, 'name', None), a blanking serializer, v or None, Field.for_value(key, None)) and ones with the other falsy outputs "
        "0, '', [], False: the delivered value is the serializer's output (JSON null), never the logged value, for start, success and "
        "stand-alone messages and dicts written with a serializer (failure ends: none of these success fields appears, no serializer runs)")
ASSUMPTIONS = ["Logger.write with an explicit serializer uses MessageType._serializer (the object the library itself passes)",
               "serializers raise Exception subclasses or (one failing case in eight) KeyboardInterrupt / SystemExit / GeneratorExit / an application's BaseException class"]
BATCH = 250

SERS = {
    "ident": lambda v: v,
    "str": lambda v: str(v),
    "wrap": lambda v: [v],
    "pair": lambda v: {"v": v},
    "repr": lambda v: repr(v),
    # outputs that compare EQUAL to their input but differ in type: the output is what must be delivered
    "tofloat": lambda v: float(v) if (type(v) is int and abs(v) < 2**53) else [v],
    "tobool": lambda v: bool(v) if type(v) is int and v in (0, 1) else [v],
    "toint": lambda v: int(v) if type(v) is bool else [v],
    # outputs that are None (JSON null) for a logged value that is not None, and the other falsy outputs 0, "", [], False:
    # the output is what must be delivered, never the logged value
    "lookup": lambda v: _REGIONS.get(v if isinstance(v, (str, int, float)) else repr(v)),  # a lookup table's .get: None for unknown keys
    "getname": lambda v: getattr(v, "name", None),  # lambda user: getattr(user, "name", None)
    "blank": lambda v: None,  # a serializer that blanks a secret
    "ornone": lambda v: v or None,  # empty values normalised to null
    "count": lambda v: len(v) if isinstance(v, (str, list, dict)) else 0,
    "truthy": lambda v: bool(v),
    "text": lambda v: v if isinstance(v, str) else "",
    "items": lambda v: list(v) if isinstance(v, (list, dict)) else [],
}
_REGIONS = {"eu": "Europe", "us": "America", "": "unset", 0: "nowhere", 7: "seven"}
LOOKUP_VALUES = ["eu", "us", "", 0, 7, "ap-7", "mars", 5, True, False, 0.0, 2.5]
NON_IDEMPOTENT = {"wrap", "pair", "repr", "str", "tofloat", "tobool", "toint", "lookup", "count"}
# constants of Field.for_value declarations: the constant is the serializer's output whatever was logged (None and the other falsy ones included)
FOR_VALUE_CONSTS = ["text", "text", None, None, 0, "", [], False]
KINDS = ["msg_nocontext", "msg_in_action", "action_start", "action_success", "action_failure", "as_task_start", "write_serializer",
         "write_plain", "msg_call_write", "msg_write_action"]


class OddSyntaxError(SyntaxError):
    """A SyntaxError as an application-level parser raises it, with details the traceback module cannot render (a bytes line, a
    non-integer offset)."""

    def __init__(self, text):
        SyntaxError.__init__(self, text, ("<config>", 1, "7", "f(1, 2\n") if len(text) % 2 else ("<config>", 1, 7, b"f(1, 2\n"))


def plan(tier, seed):
    n = 60000 if tier == "quick" else 600000
    specs = [{"part": "seq", "seed": seed, "lo": i, "hi": min(n, i + BATCH), "globals": (i // BATCH) % 2 == 1} for i in range(0, n, BATCH)]
    specs += [{"part": "threads", "seed": seed, "i": i, "tier": tier} for i in range(12 if tier == "quick" else 150)]
    ns, per = (8, 40) if tier == "quick" else (40, 100)
    specs += [{"part": "startup", "seed": seed, "lo": j * per, "hi": (j + 1) * per} for j in range(ns)]
    return specs


def snapshot(o):
    """Deep copy + identity map of all containers reachable from o."""
    ids = []

    def walk(x):
        if isinstance(x, dict):
            ids.append(id(x))
            for v in x.values():
                walk(v)
        elif isinstance(x, list):
            ids.append(id(x))
            for v in x:
                walk(v)
    walk(o)
    return copy.deepcopy(o), ids


def unchanged(o, snap):
    deep, ids = snap
    now = []

    def walk(x):
        if isinstance(x, dict):
            now.append(id(x))
            for v in x.values():
                walk(v)
        elif isinstance(x, list):
            now.append(id(x))
            for v in x:
                walk(v)
    walk(o)
    return json_equal(o, deep) and now == ids


class ValidationErrorOneArg(eliot.ValidationError):
    """eliot.ValidationError, the class the Field documentation tells serializers to raise for bad input."""


class OverridingField(Field):
    """Field subclass overriding serialize(): the override wraps the output of the counted serializer function."""

    def __init__(self, key, counted):
        Field.__init__(self, key, (lambda v: "constructor-function-output-must-not-be-delivered"), "")
        self._counted = counted

    def serialize(self, input):
        return ["sub", self._counted(input)]


def make_template(rng, name, nf=None):
    """A type definition: fields declared by a custom serializer (counted, may fail on demand), Field.for_types / the fields()
    factory (identity) or Field.for_value (always the constant). The serializers consult `state`, which each case resets."""
    nf = nf or rng.randint(1, 4)
    keys = rng.sample(gen.IDENT_KEYS, nf)
    sers = {k: rng.choice(list(SERS)) for k in keys}
    decl = {k: rng.choice(["custom", "custom", "subclass", "for_types", "factory", "for_value"]) for k in keys}
    state = {"calls": {k: 0 for k in keys}, "failing": set(), "exc_class": excs.SerFault}
    consts = {k: ("const-%s" % k if c == "text" else copy.deepcopy(c)) for k, c in ((k, rng.choice(FOR_VALUE_CONSTS)) for k in keys)}

    def make_ser(k):
        f = SERS[sers[k]]

        def s(v):
            state["calls"][k] += 1
            if k in state["failing"]:
                if state.get("shared_exc") is not None:
                    raise state["shared_exc"]  # the very same exception object every time (a stored error re-raised)
                raise state["exc_class"]("serializer of %s failed" % k)
            return f(v)
        return s

    fields = []
    for k in keys:
        if decl[k] == "custom":
            fields.append(Field(k, make_ser(k), ""))
        elif decl[k] == "subclass":
            # an application's Field subclass whose serialize() override does the work (the constructor's function must not be used)
            fields.append(OverridingField(k, make_ser(k)))
        elif decl[k] == "for_types":
            fields.append(Field.for_types(k, [str, int, float, bool, list, dict, None], ""))
        elif decl[k] == "factory":
            fields.extend(fields_factory(**{k: rng.choice([str, int, list, dict, None])}))
        else:
            fields.append(Field.for_value(k, consts[k], ""))
    tpl = {"name": name, "keys": keys, "sers": sers, "decl": decl, "fields": fields, "state": state, "types": {}, "consts": consts}
    return tpl


def tpl_type(tpl, what):
    """The template's MessageType / ActionType objects, created once."""
    if what not in tpl["types"]:
        mt, at = "c13:m:" + tpl["name"], "c13:a:" + tpl["name"]
        if what == "message":
            tpl["types"][what] = MessageType(mt, tpl["fields"], "")
        elif what == "action_start":
            tpl["types"][what] = ActionType(at, tpl["fields"], [], "")
        else:
            tpl["types"][what] = ActionType(at, [], tpl["fields"], "")
    return tpl["types"][what]


VIAS = [None, None, None, None, "copy", "deepcopy", "container", "object", "copy_twice", "copy_bind", "deepcopy_bind", "shallow_container"]


class _Holder(object):
    """An application object (a queue item, a retry record) that holds a message to be written later."""

    def __init__(self, message):
        self.message = message
        self.attempts = [1, 2]


def via_copy(msg, via, extra):
    """The typed Message object on its way from where it was made to where it is written: copied by the standard copy module."""
    if via == "copy":
        return copy.copy(msg)
    if via == "deepcopy":
        return copy.deepcopy(msg)
    if via == "container":
        return copy.deepcopy({"queued": [msg], "n": 1})["queued"][0]
    if via == "object":
        return copy.deepcopy(_Holder(msg)).message
    if via == "copy_twice":
        return copy.deepcopy(copy.copy(msg))
    if via == "copy_bind":
        extra["undeclared_bound"] = ["bound", 1]
        return copy.copy(msg).bind(undeclared_bound=["bound", 1])
    if via == "deepcopy_bind":
        extra["undeclared_bound"] = {"bound": 2}
        return copy.deepcopy([msg])[0].bind(undeclared_bound={"bound": 2})
    if via == "shallow_container":
        return copy.copy(_Holder(copy.copy(msg))).message
    return msg


def other_value(rng, ser, final):
    """A value for an earlier add_success_fields call that differs from the one supplied last."""
    for _ in range(6):
        v = (rng.choice([0, 1, True, False, 7, -3]) if ser in ("tofloat", "tobool", "toint") else
             rng.choice(LOOKUP_VALUES) if ser == "lookup" else gen.gen_value(rng, rng.choice([0, 1, 1, 2])))
        if not json_equal(v, final):
            return v
    return ["superseded", final]


def split_success_calls(rng, supplied, sers):
    """`supplied` (key -> the value the application logs last) spread over 2-4 add_success_fields calls: every key gets its last value
    in one of the calls and, in some of the calls before that one, a different value. Returns ([(fields, spelling)], keys supplied
    more than once)."""
    n = rng.randint(2, 4)
    dicts = [{} for _ in range(n)]
    last_at = {k: (n - 1 if rng.random() < 0.5 else rng.randrange(n)) for k in supplied}
    if supplied and not any(last_at.values()):
        last_at[rng.choice(sorted(supplied))] = n - 1
    resupplied = set()
    for k, v in supplied.items():
        dicts[last_at[k]][k] = v
        earlier = [j for j in range(last_at[k]) if rng.random() < 0.6]
        if last_at[k] and not earlier and rng.random() < 0.5:
            earlier = [0]
        for j in earlier:
            dicts[j][k] = other_value(rng, sers.get(k), v)
            resupplied.add(k)
    return [(d, rng.choice(["add_success_fields", "addSuccessFields"])) for d in dicts], resupplied


def supply_success_fields(action, supplied, success_calls):
    if success_calls is None:
        action.add_success_fields(**supplied)
    else:
        for d, spelling in success_calls:
            getattr(action, spelling)(**d)


def resupplied_note(k, success_calls, resupplied):
    if k not in resupplied:
        return ""
    return " (supplied by %d of the action's %d add_success_fields calls; the value supplied last is the logged one)" % (
        sum(1 for d, _ in success_calls if k in d), len(success_calls))


def one(seed, i, has_globals, gfields, res, templates=(), late_add=False):
    """late_add: the case runs in a process that has never added a destination; the typed call is made first (start-up buffering),
    the recording destination is added afterwards and receives the buffered messages."""
    rng = random.Random("%s:C13:%d" % (seed, i))
    via = random.Random("%s:C13:via:%d" % (seed, i)).choice(VIAS)
    kind = rng.choice(KINDS)
    nf = rng.randint(1, 4)
    # Type definitions are long-lived objects in real programs: most cases re-use one of the batch's templates (same Field /
    # MessageType / ActionType objects, new values, new failing set), the others define a fresh type.
    tpl = rng.choice(templates) if (templates and rng.random() < 0.7) else make_template(rng, "c%d" % i, nf)
    keys, sers, decl, fields, state = tpl["keys"], tpl["sers"], tpl["decl"], tpl["fields"], tpl["state"]
    mode = rng.choice(["ok", "ok", "fail", "fail", "missing"])
    failing = set()
    missing = None
    customs = [k for k in keys if decl[k] in ("custom", "subclass")]
    if mode == "fail" and not customs:
        mode = "ok"
    if mode == "fail":
        failing = set(k for k in customs if rng.random() < 0.5) or {rng.choice(customs)}
    elif mode == "missing":
        missing = rng.choice(keys)
    calls = {k: 0 for k in keys}
    state["calls"] = calls
    state["failing"] = failing
    # any Exception subclass may come out of a serializer, including ones that iteration protocols treat specially
    state["exc_class"] = rng.choice([excs.SerFault, StopIteration, StopAsyncIteration, KeyError, IndexError, ValueError, TypeError, RuntimeError,
                                     AssertionError, AttributeError, LookupError, ArithmeticError, excs.BadStr, RecursionError, NotImplementedError,
                                     ValidationErrorOneArg, ValidationErrorOneArg, OddSyntaxError])
    if rng.random() < 0.12:
        # "if a serializer raises": also what is not an Exception - Ctrl-C arriving while a serializer runs, sys.exit() in a helper it
        # calls, an application's own BaseException class
        state["exc_class"] = rng.choice([KeyboardInterrupt, SystemExit, GeneratorExit, excs.UserBase])
        if failing:
            res["counters"]["cases_with_a_serializer_raising_a_non_Exception"] = res["counters"].get("cases_with_a_serializer_raising_a_non_Exception", 0) + 1
    state["shared_exc"] = None
    if rng.random() < 0.3:
        # a stored exception object (a failed Future's result(), a pre-built module-level error) raised again and again
        state["exc_class"] = excs.SerFault
        state["shared_exc"] = tpl.setdefault("shared_exc_obj", excs.SerFault("stored error of %s" % tpl["name"]))
        if failing:
            tpl["shared_raised"] = tpl.get("shared_raised", 0) + 1
            if tpl["shared_raised"] > 1:
                res["counters"]["same_exception_object_raised_again"] = res["counters"].get("same_exception_object_raised_again", 0) + 1
    values = {k: (rng.choice([0, 1, True, False, 7, -3]) if (sers[k] in ("tofloat", "tobool", "toint") and rng.random() < 0.7)
                  else rng.choice(LOOKUP_VALUES) if (sers[k] == "lookup" and rng.random() < 0.7)
                  else gen.gen_value(rng, rng.choice([0, 1, 2]))) for k in keys}
    explicit_action = False
    extra = {}
    if rng.random() < 0.4:
        extra = {"undeclared_" + str(j): gen.gen_value(rng, 1) for j in range(rng.randint(1, 2))}
    supplied = dict(values)
    supplied.update(extra)
    if missing:
        del supplied[missing]
    will_fail = bool(failing) or missing is not None
    if kind in ("write_plain",):
        will_fail = False
    if kind == "action_failure":
        will_fail = False  # failure ends carry only eliot's own exception/reason fields
    snap = snapshot(supplied)
    # Success fields supplied by several add_success_fields / addSuccessFields calls on one action (progress reports, a default
    # result that the caller overrides): what is logged for a key is the value supplied LAST (`supplied` holds exactly those).
    success_calls, resupplied = None, set()
    mrng = random.Random("%s:C13:multi:%d" % (seed, i))
    if kind in ("action_success", "action_failure") and mrng.random() < 0.6:
        success_calls, resupplied = split_success_calls(mrng, supplied, sers)
    call_snaps = [snapshot(d) for d, _ in success_calls or []]
    tape = Tape()
    rec = Recorder(tape, "rec")
    nprelude = 0
    if late_add:
        nprelude = rng.randint(1, 4)
        for j in range(nprelude):
            log_message(message_type="c13:prelude", n=j)
    else:
        add_destinations(rec)
    problems = []
    ctx = None  # (uuid, level prefix) where reports must land, or None for "own tasks"
    target = None  # predicate identifying the typed message on the tape
    mt = "c13:m:" + tpl["name"]
    at = "c13:a:" + tpl["name"]
    raised = None
    expected = {k: (SERS[sers[k]](v) if decl[k] == "custom" else ["sub", SERS[sers[k]](v)] if decl[k] == "subclass" else
                    (copy.deepcopy(tpl["consts"][k]) if decl[k] == "for_value" else v)) for k, v in values.items()}
    before_len = [0]
    try:
        if kind == "msg_nocontext":
            tpl_type(tpl, "message").log(**supplied)
            target = lambda m: m.get("message_type") == mt
        elif kind == "msg_call_write":
            import warnings
            with warnings.catch_warnings():
                warnings.simplefilter("ignore")
                with start_action(action_type="outer") as outer:
                    before_len[0] = len(tape.entries)
                    via_copy(tpl_type(tpl, "message")(**supplied), via, extra).write()
            ctx = outer
            target = lambda m: m.get("message_type") == mt
        elif kind == "msg_write_action":
            # the message is handed to an explicit action (which is not the current one)
            import warnings
            with warnings.catch_warnings():
                warnings.simplefilter("ignore")
                with start_action(action_type="outer") as outer:
                    with start_action(action_type="inner"):
                        before_len[0] = len(tape.entries)
                        via_copy(tpl_type(tpl, "message")(**supplied), via, extra).write(action=outer)
            ctx = None
            explicit_action = True
            target = lambda m: m.get("message_type") == mt
        elif kind == "msg_in_action":
            with start_action(action_type="outer") as outer:
                before_len[0] = len(tape.entries)
                tpl_type(tpl, "message").log(**supplied)
            ctx = outer
            target = lambda m: m.get("message_type") == mt
        elif kind in ("action_start", "as_task_start"):
            A = tpl_type(tpl, "action_start")
            with start_action(action_type="outer") as outer:
                before_len[0] = len(tape.entries)
                a = (A if kind == "action_start" else A.as_task)(**supplied)
                a.finish()
            ctx = outer
            target = lambda m: m.get("action_type") == at and m.get("action_status") == "started"
        elif kind == "action_success":
            A = tpl_type(tpl, "action_success")
            with start_action(action_type="outer") as outer:
                with A() as a:
                    supply_success_fields(a, supplied, success_calls)
                    before_len[0] = len(tape.entries)
            ctx = outer
            target = lambda m: m.get("action_type") == at and m.get("action_status") == "succeeded"
        elif kind == "action_failure":
            A = tpl_type(tpl, "action_success")
            with start_action(action_type="outer") as outer:
                try:
                    with A() as a:
                        supply_success_fields(a, supplied, success_calls)
                        before_len[0] = len(tape.entries)
                        raise excs.UserError("planned")
                except excs.UserError:
                    pass
            ctx = outer
            target = lambda m: m.get("action_type") == at and m.get("action_status") == "failed"
        else:
            msg = dict(supplied)
            msg.update(task_uuid="ext-%d" % i, task_level=[3, 1], timestamp=1.5, message_type=mt)
            snap = snapshot(msg)
            supplied = msg
            ser = tpl_type(tpl, "message")._serializer if kind == "write_serializer" else None
            if rng.random() < 0.5:
                with start_action(action_type="outer") as outer:
                    before_len[0] = len(tape.entries)
                    Logger().write(msg, ser)
                ctx = outer
            else:
                Logger().write(msg, ser)
            target = lambda m: m.get("message_type") == mt
            if kind == "write_plain":
                expected = dict(values)
                decl = {k: "custom" for k in keys}
    except BaseException as e:
        raised = e
        problems.append("the logging call raised %r" % (e,))
    finally:
        if late_add:
            try:
                add_destinations(rec)  # the first add_destinations of this process: the start-up buffer is handed to rec
            except BaseException as e:
                problems.append("the first add_destinations raised %r" % (e,))
        remove_destination(rec)
    copied = via is not None and kind in ("msg_call_write", "msg_write_action")
    replayed = late_add and [m.get("n") for m in tape.msgs("rec") if m.get("message_type") == "c13:prelude"] == list(range(nprelude))

    if not unchanged(supplied, snap):
        problems.append("caller-held data was modified by the %s call (now %r)" % (kind, sorted(supplied)))
    for (d, _), sn in zip(success_calls or [], call_snaps):
        if not unchanged(d, sn):
            problems.append("fields handed to one of %d add_success_fields calls were modified (now %r)" % (len(success_calls), d))
    msgs = tape.msgs("rec")
    if target is None:
        target = lambda m: False  # (the call raised before the case got as far as saying which message is its own: already a problem)
    hits = [m for m in msgs if target(m)]
    tbs = [m for m in msgs if m.get("message_type") == "eliot:traceback"]
    sfs = [m for m in msgs if m.get("message_type") == "eliot:serialization_failure"]
    if not will_fail:
        if len(hits) != 1:
            problems.append("%s: typed message delivered %d times" % (kind, len(hits)))
        else:
            m = hits[0]
            if kind != "action_failure":
                for k in keys:
                    if kind == "write_plain" and k == missing:
                        continue
                    if k not in m:
                        problems.append("%s: declared field %r missing from the delivered message" % (kind, k))
                    elif not json_equal(m[k], expected[k]):
                        problems.append("%s: field %r%s%s delivered as %r, serializer(%s) of %r is %r" % (
                            kind, k, resupplied_note(k, success_calls, resupplied),
                            " (the serializer returns None for the logged value: JSON null is what must be delivered)" if expected[k] is None else "",
                            m[k], sers[k] if decl[k] in ("custom", "subclass") else decl[k], values[k], expected[k]))
                for k, v in extra.items():
                    if k not in m or not json_equal(m[k], v):
                        problems.append("%s: undeclared field %r%s delivered as %r, logged %r" % (kind, k, resupplied_note(k, success_calls, resupplied), m.get(k), v))
                want_calls = 0 if kind == "write_plain" else 1
                for k in keys:
                    if decl[k] not in ("custom", "subclass"):
                        continue
                    if calls[k] != want_calls and not (kind == "write_plain" and k == missing):
                        problems.append("%s: serializer of %r was called %d times for one message" % (kind, k, calls[k]))
            else:
                if m.get("exception") != excs.qualname(excs.UserError) or m.get("reason") != "planned":
                    problems.append("typed failure end lacks exception/reason")
                if any(calls.values()):
                    problems.append("success-field serializers were called for a failed action")
                for k in list(values) + list(extra):
                    if k in m:
                        problems.append("success field %r leaked onto the failed end message" % k)
            if has_globals:
                for k, v in gfields.items():
                    if not json_equal(m.get(k), v):
                        problems.append("delivered message lacks global field %r" % k)
        if tbs or sfs:
            problems.append("%s: unexpected failure reports (%d tracebacks, %d serialization_failure)" % (kind, len(tbs), len(sfs)))
    else:
        if hits:
            problems.append("%s: message whose serialization failed was delivered anyway" % kind)
        if len(tbs) != 1 or len(sfs) != 1:
            problems.append("%s (%s): %d eliot:traceback and %d eliot:serialization_failure messages, expected one each" % (kind, mode, len(tbs), len(sfs)))
        else:
            tb, sf = tbs[0], sfs[0]
            want_exc = excs.qualname(state["exc_class"]) if failing else "builtins.KeyError"
            if tb.get("exception") != want_exc:
                problems.append("traceback message names %r, expected %s" % (tb.get("exception"), want_exc))
            rendering = sf.get("message")
            ident = mt if "msg" in kind or "write" in kind else at
            if not isinstance(rendering, str) or ident not in rendering:
                problems.append("serialization_failure does not describe the message: %r" % (rendering,))
            if explicit_action:
                # reports go to the action current at the call ('inner'), the message itself belongs to 'outer'
                inner = [m for m in msgs if m.get("action_type") == "inner" and m.get("action_status") == "started"]
                for r in (tb, sf):
                    if not inner or r["task_uuid"] != inner[0]["task_uuid"] or r["task_level"][:-1] != inner[0]["task_level"][:-1]:
                        problems.append("report for a message written to an explicit action is not in the context current at the call")
            elif ctx is None:
                for r in (tb, sf):
                    if r["task_level"] != [1]:
                        problems.append("report logged without a current action is not its own one-message task: %r" % (r["task_level"],))
                if tb["task_uuid"] == sf["task_uuid"]:
                    problems.append("context-less reports share a task_uuid")
            else:
                uuid = ctx.task_uuid
                outer_start = [m for m in msgs if m.get("action_type") == "outer" and m.get("action_status") == "started"][0]
                prefix = outer_start["task_level"][:-1]
                used_before = [m["task_level"][len(prefix)] for m in [e["m"] for e in tape.entries[:before_len[0]] if e["k"] == "msg"]
                               if m["task_uuid"] == uuid and len(m["task_level"]) > len(prefix)]
                hi = max(used_before or [0])
                pos = []
                for r in (tb, sf):
                    if r["task_uuid"] != uuid or r["task_level"][:-1] != prefix:
                        problems.append("report placed at %s%s, context current at the call is %s%s" % (r["task_uuid"][:8], r["task_level"], uuid[:8], prefix))
                    pos.append(r["task_level"][-1])
                if not problems and not (hi < pos[0] < pos[1]):
                    problems.append("report positions %s are not fresh later positions (highest used before the call: %d)" % (pos, hi))
                outer_end = [m for m in msgs if m.get("action_type") == "outer" and m.get("action_status") == "succeeded"]
                if not outer_end or outer_end[0]["task_level"][-1] <= max(pos):
                    problems.append("enclosing action's end is not after the reports")
        for k in keys:
            if calls[k] > 1:
                problems.append("%s: serializer of %r was called %d times although the message failed" % (kind, k, calls[k]))
    res["evals"] += 1
    c = res["counters"]
    d = c.setdefault("kinds", {})
    d[kind + ":" + mode] = d.get(kind + ":" + mode, 0) + 1
    c["serializer_calls_counted"] = c.get("serializer_calls_counted", 0) + sum(calls.values())
    c["caller_snapshots_compared"] = c.get("caller_snapshots_compared", 0) + 1
    if success_calls is not None and resupplied:
        # reach: actions whose success fields were supplied repeatedly with overlapping keys and different values
        c["actions_with_resupplied_success_fields"] = c.get("actions_with_resupplied_success_fields", 0) + 1
        if kind == "action_success" and not will_fail and len(hits) == 1:
            c["resupplied_success_fields_judged"] = c.get("resupplied_success_fields_judged", 0) + len(resupplied)
            c["resupplied_declared_success_fields_judged"] = c.get("resupplied_declared_success_fields_judged", 0) + len(resupplied & set(keys))
    if not will_fail and len(hits) == 1 and kind != "write_plain":
        # reach: declared fields whose serializer's output is None / another falsy value for a logged value that is something else
        group = "failure_end" if kind == "action_failure" else "start" if kind in ("action_start", "as_task_start") else \
            "success" if kind == "action_success" else "standalone"
        for k in keys:
            if k in supplied and expected[k] is None and values[k] is not None:
                dn = c.setdefault("none_outputs", {})
                dn[group] = dn.get(group, 0) + 1
            elif k in supplied and kind != "action_failure" and type(expected[k]) in (int, str, list, bool) and not expected[k] and not json_equal(expected[k], values[k]):
                c["other_falsy_outputs_judged"] = c.get("other_falsy_outputs_judged", 0) + 1
    if copied:
        c["copied_typed_messages_written"] = c.get("copied_typed_messages_written", 0) + 1
        if will_fail:
            c["copied_typed_messages_failing"] = c.get("copied_typed_messages_failing", 0) + 1
    if late_add:
        if not replayed:
            # the plain messages logged just before did not come out of the start-up buffer: this process was not in its start-up phase
            c["startup_cases_not_in_startup_phase"] = c.get("startup_cases_not_in_startup_phase", 0) + 1
        else:
            c["startup_cases"] = c.get("startup_cases", 0) + 1
            if will_fail:
                c["startup_failures_before_first_add"] = c.get("startup_failures_before_first_add", 0) + 1
    if failing or missing or any(sers[k] in NON_IDEMPOTENT for k in keys):
        res["nontrivial"].append(h([kind, sorted(sers.items()), sorted(decl.items()), sorted(failing), missing, has_globals] +
                                   ([via] if copied else []) + (["startup"] if late_add else []) +
                                   (["resupplied", len(success_calls), sorted(resupplied)] if resupplied else [])))
    if res.get("sample") is None and will_fail:
        res["sample"] = {"kind": kind, "serializers": sers, "failing": sorted(failing), "missing": missing, "values": values,
                         "tape": [{k: v for k, v in m.items() if k not in ("timestamp", "traceback")} for m in msgs]}
    if problems:
        res["violations"].append({"msg": problems[0], "mech": None,
                                  "detail": {"case": i, "kind": kind, "mode": mode, "serializers": sers, "failing": sorted(failing), "missing": missing,
                                             "values": values, "problems": problems[:8], "message_copied_by": via if copied else None,
                                             "add_success_fields_calls": [[sp, d] for d, sp in success_calls] if success_calls is not None else None,
                                             "logged_before_first_add_destinations": bool(late_add)}})


def reentrant_case(seed, i, res):
    """A serializer that itself logs a message of the same type: both messages must come out with their own values."""
    rng = random.Random("%s:C13:re:%d" % (seed, i))
    tape = Tape()
    rec = Recorder(tape, "rec")
    add_destinations(rec)
    mt = "c13:re%d" % i
    depth = [0]
    T = []

    def ser_a(v):
        if depth[0] < rng.choice([1, 1, 2]) and isinstance(v, list) and v and v[0] == "outer":
            depth[0] += 1
            T[0].log(a=["inner", depth[0]], b={"who": "inner%d" % depth[0]}, c=depth[0])
        return {"v": v}

    T.append(MessageType(mt, [Field("a", ser_a, ""), Field("b", lambda v: [v], ""), Field.for_types("c", [int], "")], ""))
    problems = []
    try:
        T[0].log(a=["outer", 0], b={"who": "outer"}, c=0)
    except BaseException as e:
        problems.append("logging raised %r" % (e,))
    finally:
        remove_destination(rec)
    got = [m for m in tape.msgs("rec") if m.get("message_type") == mt]
    want = []
    for d in range(depth[0], 0, -1):
        want.append({"a": {"v": ["inner", d]}, "b": [{"who": "inner%d" % d}], "c": d})
    want.append({"a": {"v": ["outer", 0]}, "b": [{"who": "outer"}], "c": 0})
    # inner messages are emitted while the outer one is still being serialized: innermost first is NOT required, only content
    gotf = sorted(({k: m.get(k) for k in ("a", "b", "c")} for m in got), key=lambda m: m["c"])
    wantf = sorted(want, key=lambda m: m["c"])
    if len(gotf) != len(wantf) or any(not json_equal(g, w) for g, w in zip(gotf, wantf)):
        problems.append("messages logged from inside a serializer of the same type came out as %r, expected %r" % (gotf, wantf))
    res["evals"] += 1
    res["counters"]["reentrant_serializer_cases"] = res["counters"].get("reentrant_serializer_cases", 0) + 1
    res["nontrivial"].append(h(["reentrant", depth[0]]))
    if problems:
        res["violations"].append({"msg": problems[0], "mech": None, "detail": {"case": i, "kind": "reentrant", "problems": problems}})


def part_threads(spec, res):
    """Two or three threads log the same typed message concurrently: every delivered message carries its own thread's serialized values."""
    rng = random.Random("%s:C13:thr:%d" % (spec["seed"], spec["i"]))
    sched.instrument([_validation, _output], post_call=(spec.get("tier") == "thorough"))  # (thorough: switch points also after call instructions inside a line)
    nthreads = rng.choice([2, 2, 3])
    nmsg = rng.choice([1, 2])
    failing = spec["i"] % 3 == 2  # every call's serialization fails: each failure is reported on its own, whoever else is reporting at the time

    def z_ser(v):
        if failing:
            raise KeyError("serializer of z fails for %r" % (v,))
        return str(v)
    T = MessageType("c13:thr", [Field("a", lambda v: {"v": v}, ""), Field("b", lambda v: [v], ""), Field.for_types("t", [int], ""), Field("z", z_ser, "")], "")
    names = ["T%d" % t for t in range(nthreads)]
    c = res["counters"]

    def execute(plan_, label):
        tape = Tape()
        rec = Recorder(tape, "rec")
        add_destinations(rec)

        def worker(t):
            def run():
                for s in range(nmsg):
                    T.log(a=["a", t, s], b=("b-%d-%d" % (t, s)), t=t, z=(t, s))
            return run
        try:
            st, errs = sched.run_schedule(plan_, {"T%d" % t: worker(t) for t in range(nthreads)}, timeout=60.0)
        finally:
            remove_destination(rec)
        res["evals"] += 1
        c["thread_schedules_run"] = c.get("thread_schedules_run", 0) + 1
        problems = ["thread %s raised %r" % (n, e) for n, e in errs.items()]
        if st["deadlock"]:
            problems.append("logging threads deadlocked: %s" % st["deadlock"])
        elif st["aborted"]:
            res["inconclusive"] = "schedule abandoned: %s" % st["aborted"]
            return st
        msgs = [m for m in tape.msgs("rec") if m.get("message_type") == "c13:thr"]
        if failing:
            ntb = sum(1 for m in tape.msgs("rec") if m.get("message_type") == "eliot:traceback")
            nsf = sum(1 for m in tape.msgs("rec") if m.get("message_type") == "eliot:serialization_failure")
            c["concurrent_serialization_failures"] = c.get("concurrent_serialization_failures", 0) + nsf
            if msgs or ntb != nthreads * nmsg or nsf != nthreads * nmsg:
                problems.append("%d logging calls whose serializer failed, from %d threads: %d messages delivered, %d eliot:traceback and %d eliot:serialization_failure" % (
                    nthreads * nmsg, nthreads, len(msgs), ntb, nsf))
            msgs = []
        elif len(msgs) != nthreads * nmsg:
            problems.append("%d typed messages delivered, %d logged (other messages: %s)" % (len(msgs), nthreads * nmsg,
                            [m.get("message_type") for m in tape.msgs("rec") if m.get("message_type") != "c13:thr"][:4]))
        seen = set()
        for m in msgs:
            t = m.get("t")
            ok = isinstance(m.get("a"), dict) and isinstance(m["a"].get("v"), list) and m["a"]["v"][:2] == ["a", t] and \
                isinstance(m.get("b"), list) and m["b"] == ["b-%s-%s" % (t, m["a"]["v"][2])] and m.get("z") == str((t, m["a"]["v"][2]))
            if not ok:
                problems.append("a delivered message mixes values of different logging calls or is not serialized exactly once: %r" % (
                    {k: m.get(k) for k in ("a", "b", "t", "z")},))
                break
            seen.add((t, m["a"]["v"][2]))
        if not problems and not failing and len(seen) != nthreads * nmsg:
            problems.append("some message was delivered twice / another lost: %s" % sorted(seen))
        res["sets"]["interleavings"].append(sched.trace_hash(st))
        for nm, k, loc in st["fired"]:
            res["sets"]["preemption_lines"].append(loc)
        if st["fired"]:
            res["nontrivial"].append(sched.trace_hash(st))
        if problems and len(res["violations"]) < 3:
            res["violations"].append({"msg": problems[0], "mech": None, "detail": {"kind": "threads", "plan": plan_, "problems": problems[:5], "label": label}})
        return st

    base = None
    for order in itertools.permutations(names):
        base = execute({"order": list(order), "changes": []}, "baseline")
        if base["aborted"]:
            continue
        for p in sched.one_preemption_plans(list(order), base["events"]):
            execute(p, "1-preemption")
            if len(res["violations"]) >= 3:
                return
    for p in sched.sampled_plans(rng, names, base["events"], 40 if spec["tier"] == "quick" else 400):
        execute(p, "sampled")


def foreign_logger_case(seed, i, res):
    """Inside an action that was started with a logger object of its own, typed messages and typed child actions written through
    the production Logger fail to serialize: the eliot:traceback and the eliot:serialization_failure still go where the failed
    message was going - to the registered destinations, in the current action's context - not into the enclosing action's logger."""
    from vf.interp import _Sink
    rng = random.Random("%s:C13:fl:%d" % (seed, i))

    def failing(v):
        raise KeyError("serializer fails for %r" % (v,))
    AT = ActionType("c13:fl:a", [Field("a", failing, "")], [], "")
    MT = MessageType("c13:fl:m", [Field("a", failing, "")], "")
    tape = Tape()
    rec = Recorder(tape, "rec")
    add_destinations(rec)
    sink = _Sink()
    which = rng.choice(["child_start", "child_success", "message_via_logger"])
    try:
        with start_action(sink, "c13:foreign") as fa:
            if which == "child_start":
                with AT(a=1):
                    pass
                nfail = 1
            elif which == "child_success":
                ok_at = ActionType("c13:fl:b", [], [Field("r", failing, "")], "")
                with ok_at() as a2:
                    a2.add_success_fields(r=2)
                nfail = 1
            else:
                Logger().write({"message_type": "c13:fl:m", "a": 3, "task_uuid": fa.task_uuid, "task_level": [9, 9], "timestamp": 1.0}, MT._serializer)
                nfail = 1
    except BaseException as e:
        res["violations"].append({"msg": "logging raised %r" % (e,), "mech": None, "detail": {"kind": "foreign_logger", "which": which}})
        return
    finally:
        remove_destination(rec)
    msgs = tape.msgs("rec")
    tbs = [m for m in msgs if m.get("message_type") == "eliot:traceback"]
    sfs = [m for m in msgs if m.get("message_type") == "eliot:serialization_failure"]
    problems = []
    if len(tbs) != nfail or len(sfs) != nfail:
        problems.append("%s inside an action bound to another logger object: %d eliot:traceback and %d eliot:serialization_failure reached the destinations, expected one each" % (
            which, len(tbs), len(sfs)))
    stray = [m.get("message_type") for m in sink.got if m.get("message_type") in ("eliot:traceback", "eliot:serialization_failure")]
    if stray:
        problems.append("failure reports %s were written to the enclosing action's own logger" % stray)
    for r in tbs + sfs:
        if r["task_uuid"] != fa.task_uuid:
            problems.append("a failure report is not in the task of the action current at the call")
            break
    res["evals"] += 1
    res["counters"]["foreign_logger_cases"] = res["counters"].get("foreign_logger_cases", 0) + 1
    res["nontrivial"].append(h(["foreign_logger", which]))
    if problems:
        res["violations"].append({"msg": problems[0], "mech": None, "detail": {"kind": "foreign_logger", "which": which, "problems": problems}})


def _add_counters(dst, src):
    for k, v in src.items():
        if isinstance(v, dict):
            _add_counters(dst.setdefault(k, {}), v)
        else:
            dst[k] = dst.get(k, 0) + v


def part_startup(spec, res):
    """Every case in a fresh fork of this process, which (like its parent, the runner) has never added a destination: the typed
    logging call is made during the start-up phase, the first add_destinations comes afterwards."""
    trng = random.Random("%s:C13:sutpl:%d" % (spec["seed"], spec["lo"]))
    templates = [make_template(trng, "s%d" % j) for j in range(6)]

    def child(i):
        sub = {"evals": 0, "nontrivial": [], "counters": {}, "violations": [], "sample": None}
        one(spec["seed"], 10000000 + i, False, {}, sub, templates, late_add=True)
        return sub
    for i in range(spec["lo"], spec["hi"]):
        kind, sub = call_in_fork(lambda: child(i), timeout=120)
        if kind == "timeout":
            res["inconclusive"] = "start-up case exceeded its watchdog"
            continue
        if kind != "ok":
            res["evals"] += 1
            res["violations"].append({"msg": "running the start-up case failed: %s" % kind, "mech": None, "detail": {"part": "startup", "case": i, "output": str(sub)[-1500:]}})
            continue
        res["evals"] += sub["evals"]
        res["nontrivial"].extend(sub["nontrivial"])
        _add_counters(res["counters"], sub["counters"])
        if len(res["violations"]) < 5:
            res["violations"].extend(sub["violations"])
        if res["sample"] is None and sub.get("sample"):
            res["sample"] = dict(sub["sample"], logged_before_first_add_destinations=True)


def run_case(spec):
    res = {"evals": 0, "nontrivial": [], "counters": {}, "violations": [], "sample": None, "sets": {"interleavings": [], "preemption_lines": []}}
    if spec["part"] == "threads":
        part_threads(spec, res)
        return res
    if spec["part"] == "startup":
        part_startup(spec, res)
        return res
    for i in range(spec["lo"], spec["lo"] + 3):
        reentrant_case(spec["seed"], i, res)
    for i in range(spec["lo"], spec["lo"] + 6):
        foreign_logger_case(spec["seed"], i, res)
    gfields = {}
    if spec["globals"]:
        gfields = {"g_host": "h1", "g_n": 7}
        add_global_fields(**gfields)
    trng = random.Random("%s:C13:tpl:%d" % (spec["seed"], spec["lo"]))
    templates = [make_template(trng, "t%d" % j) for j in range(6)]
    for i in range(spec["lo"], spec["hi"]):
        one(spec["seed"], i, spec["globals"], gfields, res, templates)
    return res


def finalize(agg, tier):
    kinds = agg["counters"].get("kinds", {})
    for k in KINDS:
        if not any(x.startswith(k + ":") for x in kinds):
            return "message kind %s never exercised" % k
    if agg["counters"].get("thread_schedules_run", 0) < 300 or agg["counters"].get("reentrant_serializer_cases", 0) < 100:
        return "too few thread schedules / re-entrant serializer cases"
    if agg["counters"].get("cases_with_a_serializer_raising_a_non_Exception", 0) < 100:
        return "fewer than 100 cases in which a serializer raised something that is not an Exception"
    if agg["counters"].get("copied_typed_messages_written", 0) < 100 or agg["counters"].get("copied_typed_messages_failing", 0) < 20:
        return "too few typed Message objects were copied (copy.copy / copy.deepcopy) before being written"
    if agg["counters"].get("startup_failures_before_first_add", 0) < 20:
        return "too few serialization failures happened before the first add_destinations of a process"
    if agg["counters"].get("resupplied_declared_success_fields_judged", 0) < 100 or agg["counters"].get("actions_with_resupplied_success_fields", 0) < 200:
        return "too few success messages of actions whose declared success fields were supplied repeatedly (overlapping add_success_fields calls) were judged"
    nones = agg["counters"].get("none_outputs", {})
    for group in ("start", "success", "standalone", "failure_end"):
        if nones.get(group, 0) < 50:
            return "too few %s messages with a declared field whose serializer returns None for a value that is not None" % group
    if agg["counters"].get("other_falsy_outputs_judged", 0) < 100:
        return "too few declared fields whose serializer returns 0, '', [] or False for a different logged value were judged"
    return None
