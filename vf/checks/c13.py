"""C13 - typed fields serialized exactly once; serializer failures contained."""

import copy
import random

from eliot import (ActionType, Field, Logger, MessageType, add_destinations, add_global_fields, current_action, remove_destination,
                   start_action)

from vf import excs, gen
from vf.gen import json_equal
from vf.runner import h
from vf.tape import Recorder, Tape

ID = "C13"
LEVEL = "fault_enumeration"
RULE = ("generated type definitions (1-4 declared fields, serializers from a pool incl. non-idempotent ones: v->[v], v->{'v':v}, str, repr; "
        "each wrapped in a call counter and a failure mask) x JSON-native values x every subset-style mask of failing serializers / one "
        "missing declared field, for stand-alone messages (inside / outside an action), action start, success end, failure end, as_task "
        "start, and dicts passed straight to Logger.write (with and without serializer, with global fields set in half of the forks). "
        "Oracle: delivered value == s(v) computed independently, every serializer called exactly once per delivered message, undeclared "
        "fields untouched, caller-held dicts/objects deep-equal and identity-equal to their snapshot; on failure the message is absent, "
        "exactly one eliot:traceback then one eliot:serialization_failure (rendering mentions the message) are logged in the context "
        "current at the call at fresh later positions, no serializer called twice, the call returns normally. non-trivial = "
        "non-idempotent serializer or >=1 failing one; distinct by (message kind, serializer kinds, failing set, missing field)")
ASSUMPTIONS = ["Logger.write with an explicit serializer uses MessageType._serializer (the object the library itself passes)",
               "serializers raise Exception subclasses"]
BATCH = 250

SERS = {
    "ident": lambda v: v,
    "str": lambda v: str(v),
    "wrap": lambda v: [v],
    "pair": lambda v: {"v": v},
    "repr": lambda v: repr(v),
}
NON_IDEMPOTENT = {"wrap", "pair", "repr", "str"}
KINDS = ["msg_nocontext", "msg_in_action", "action_start", "action_success", "action_failure", "as_task_start", "write_serializer",
         "write_plain", "msg_call_write"]


def plan(tier, seed):
    n = 60000 if tier == "quick" else 600000
    return [{"seed": seed, "lo": i, "hi": min(n, i + BATCH), "globals": (i // BATCH) % 2 == 1} for i in range(0, n, BATCH)]


def snapshot(o):
    """Deep copy + identity map of all containers reachable from o."""
    ids = []

    def walk(x):
        if isinstance(x, dict):
            ids.append(id(x))
            for v in x.values():
                walk(v)
        elif isinstance(x, list):
            ids.append(id(x))
            for v in x:
                walk(v)
    walk(o)
    return copy.deepcopy(o), ids


def unchanged(o, snap):
    deep, ids = snap
    now = []

    def walk(x):
        if isinstance(x, dict):
            now.append(id(x))
            for v in x.values():
                walk(v)
        elif isinstance(x, list):
            now.append(id(x))
            for v in x:
                walk(v)
    walk(o)
    return json_equal(o, deep) and now == ids


def one(seed, i, has_globals, gfields, res):
    rng = random.Random("%s:C13:%d" % (seed, i))
    kind = rng.choice(KINDS)
    nf = rng.randint(1, 4)
    keys = rng.sample(gen.IDENT_KEYS, nf)
    sers = {k: rng.choice(list(SERS)) for k in keys}
    mode = rng.choice(["ok", "ok", "fail", "fail", "missing"])
    failing = set()
    missing = None
    if mode == "fail":
        failing = set(k for k in keys if rng.random() < 0.5) or {rng.choice(keys)}
    elif mode == "missing":
        missing = rng.choice(keys)
    calls = {k: 0 for k in keys}

    def make_ser(k):
        f = SERS[sers[k]]

        def s(v):
            calls[k] += 1
            if k in failing:
                raise excs.SerFault("serializer of %s failed" % k)
            return f(v)
        return s

    fields = [Field(k, make_ser(k), "") for k in keys]
    values = {k: gen.gen_value(rng, rng.choice([0, 1, 2])) for k in keys}
    extra = {}
    if rng.random() < 0.4:
        extra = {"undeclared_" + str(j): gen.gen_value(rng, 1) for j in range(rng.randint(1, 2))}
    supplied = dict(values)
    supplied.update(extra)
    if missing:
        del supplied[missing]
    will_fail = bool(failing) or missing is not None
    if kind in ("write_plain",):
        will_fail = False
    if kind == "action_failure":
        will_fail = False  # failure ends carry only eliot's own exception/reason fields
    snap = snapshot(supplied)
    tape = Tape()
    rec = Recorder(tape, "rec")
    add_destinations(rec)
    problems = []
    ctx = None  # (uuid, level prefix) where reports must land, or None for "own tasks"
    target = None  # predicate identifying the typed message on the tape
    mt = "c13:m%d" % i
    at = "c13:a%d" % i
    raised = None
    expected = {k: SERS[sers[k]](v) for k, v in values.items()}
    before_len = [0]
    try:
        if kind == "msg_nocontext":
            MessageType(mt, fields, "").log(**supplied)
            target = lambda m: m.get("message_type") == mt
        elif kind == "msg_call_write":
            import warnings
            with warnings.catch_warnings():
                warnings.simplefilter("ignore")
                with start_action(action_type="outer") as outer:
                    before_len[0] = len(tape.entries)
                    MessageType(mt, fields, "")(**supplied).write()
            ctx = outer
            target = lambda m: m.get("message_type") == mt
        elif kind == "msg_in_action":
            with start_action(action_type="outer") as outer:
                before_len[0] = len(tape.entries)
                MessageType(mt, fields, "").log(**supplied)
            ctx = outer
            target = lambda m: m.get("message_type") == mt
        elif kind in ("action_start", "as_task_start"):
            A = ActionType(at, fields, [], "")
            with start_action(action_type="outer") as outer:
                before_len[0] = len(tape.entries)
                a = (A if kind == "action_start" else A.as_task)(**supplied)
                a.finish()
            ctx = outer
            target = lambda m: m.get("action_type") == at and m.get("action_status") == "started"
        elif kind == "action_success":
            A = ActionType(at, [], fields, "")
            with start_action(action_type="outer") as outer:
                with A() as a:
                    a.add_success_fields(**supplied)
                    before_len[0] = len(tape.entries)
            ctx = outer
            target = lambda m: m.get("action_type") == at and m.get("action_status") == "succeeded"
        elif kind == "action_failure":
            A = ActionType(at, [], fields, "")
            with start_action(action_type="outer") as outer:
                try:
                    with A() as a:
                        a.add_success_fields(**supplied)
                        before_len[0] = len(tape.entries)
                        raise excs.UserError("planned")
                except excs.UserError:
                    pass
            ctx = outer
            target = lambda m: m.get("action_type") == at and m.get("action_status") == "failed"
        else:
            msg = dict(supplied)
            msg.update(task_uuid="ext-%d" % i, task_level=[3, 1], timestamp=1.5, message_type=mt)
            snap = snapshot(msg)
            supplied = msg
            ser = MessageType(mt, fields, "")._serializer if kind == "write_serializer" else None
            if rng.random() < 0.5:
                with start_action(action_type="outer") as outer:
                    before_len[0] = len(tape.entries)
                    Logger().write(msg, ser)
                ctx = outer
            else:
                Logger().write(msg, ser)
            target = lambda m: m.get("message_type") == mt
            if kind == "write_plain":
                expected = dict(values)
    except BaseException as e:
        raised = e
        problems.append("the logging call raised %r" % (e,))
    finally:
        remove_destination(rec)

    if not unchanged(supplied, snap):
        problems.append("caller-held data was modified by the %s call (now %r)" % (kind, sorted(supplied)))
    msgs = tape.msgs("rec")
    hits = [m for m in msgs if target(m)]
    tbs = [m for m in msgs if m.get("message_type") == "eliot:traceback"]
    sfs = [m for m in msgs if m.get("message_type") == "eliot:serialization_failure"]
    if not will_fail:
        if len(hits) != 1:
            problems.append("%s: typed message delivered %d times" % (kind, len(hits)))
        else:
            m = hits[0]
            if kind != "action_failure":
                for k in keys:
                    if kind == "write_plain" and k == missing:
                        continue
                    if k not in m:
                        problems.append("%s: declared field %r missing from the delivered message" % (kind, k))
                    elif not json_equal(m[k], expected[k]):
                        problems.append("%s: field %r delivered as %r, serializer(%s) of %r is %r" % (kind, k, m[k], sers[k], values[k], expected[k]))
                for k, v in extra.items():
                    if k not in m or not json_equal(m[k], v):
                        problems.append("%s: undeclared field %r delivered as %r, logged %r" % (kind, k, m.get(k), v))
                want_calls = 0 if kind == "write_plain" else 1
                for k in keys:
                    if calls[k] != want_calls and not (kind == "write_plain" and k == missing):
                        problems.append("%s: serializer of %r was called %d times for one message" % (kind, k, calls[k]))
            else:
                if m.get("exception") != excs.qualname(excs.UserError) or m.get("reason") != "planned":
                    problems.append("typed failure end lacks exception/reason")
                if any(calls.values()):
                    problems.append("success-field serializers were called for a failed action")
                for k in list(values) + list(extra):
                    if k in m:
                        problems.append("success field %r leaked onto the failed end message" % k)
            if has_globals:
                for k, v in gfields.items():
                    if not json_equal(m.get(k), v):
                        problems.append("delivered message lacks global field %r" % k)
        if tbs or sfs:
            problems.append("%s: unexpected failure reports (%d tracebacks, %d serialization_failure)" % (kind, len(tbs), len(sfs)))
    else:
        if hits:
            problems.append("%s: message whose serialization failed was delivered anyway" % kind)
        if len(tbs) != 1 or len(sfs) != 1:
            problems.append("%s (%s): %d eliot:traceback and %d eliot:serialization_failure messages, expected one each" % (kind, mode, len(tbs), len(sfs)))
        else:
            tb, sf = tbs[0], sfs[0]
            want_exc = excs.qualname(excs.SerFault) if failing else "builtins.KeyError"
            if tb.get("exception") != want_exc:
                problems.append("traceback message names %r, expected %s" % (tb.get("exception"), want_exc))
            rendering = sf.get("message")
            ident = mt if "msg" in kind or "write" in kind else at
            if not isinstance(rendering, str) or ident not in rendering:
                problems.append("serialization_failure does not describe the message: %r" % (rendering,))
            if ctx is None:
                for r in (tb, sf):
                    if r["task_level"] != [1]:
                        problems.append("report logged without a current action is not its own one-message task: %r" % (r["task_level"],))
                if tb["task_uuid"] == sf["task_uuid"]:
                    problems.append("context-less reports share a task_uuid")
            else:
                uuid = ctx.task_uuid
                outer_start = [m for m in msgs if m.get("action_type") == "outer" and m.get("action_status") == "started"][0]
                prefix = outer_start["task_level"][:-1]
                used_before = [m["task_level"][len(prefix)] for m in [e["m"] for e in tape.entries[:before_len[0]] if e["k"] == "msg"]
                               if m["task_uuid"] == uuid and len(m["task_level"]) > len(prefix)]
                hi = max(used_before or [0])
                pos = []
                for r in (tb, sf):
                    if r["task_uuid"] != uuid or r["task_level"][:-1] != prefix:
                        problems.append("report placed at %s%s, context current at the call is %s%s" % (r["task_uuid"][:8], r["task_level"], uuid[:8], prefix))
                    pos.append(r["task_level"][-1])
                if not problems and not (hi < pos[0] < pos[1]):
                    problems.append("report positions %s are not fresh later positions (highest used before the call: %d)" % (pos, hi))
                outer_end = [m for m in msgs if m.get("action_type") == "outer" and m.get("action_status") == "succeeded"]
                if not outer_end or outer_end[0]["task_level"][-1] <= max(pos):
                    problems.append("enclosing action's end is not after the reports")
        for k in keys:
            if calls[k] > 1:
                problems.append("%s: serializer of %r was called %d times although the message failed" % (kind, k, calls[k]))
    res["evals"] += 1
    c = res["counters"]
    d = c.setdefault("kinds", {})
    d[kind + ":" + mode] = d.get(kind + ":" + mode, 0) + 1
    c["serializer_calls_counted"] = c.get("serializer_calls_counted", 0) + sum(calls.values())
    c["caller_snapshots_compared"] = c.get("caller_snapshots_compared", 0) + 1
    if failing or missing or any(sers[k] in NON_IDEMPOTENT for k in keys):
        res["nontrivial"].append(h([kind, sorted(sers.items()), sorted(failing), missing, has_globals]))
    if res.get("sample") is None and will_fail:
        res["sample"] = {"kind": kind, "serializers": sers, "failing": sorted(failing), "missing": missing, "values": values,
                         "tape": [{k: v for k, v in m.items() if k not in ("timestamp", "traceback")} for m in msgs]}
    if problems:
        res["violations"].append({"msg": problems[0], "mech": None,
                                  "detail": {"case": i, "kind": kind, "mode": mode, "serializers": sers, "failing": sorted(failing), "missing": missing,
                                             "values": values, "problems": problems[:8]}})


def run_case(spec):
    res = {"evals": 0, "nontrivial": [], "counters": {}, "violations": [], "sample": None}
    gfields = {}
    if spec["globals"]:
        gfields = {"g_host": "h1", "g_n": 7}
        add_global_fields(**gfields)
    for i in range(spec["lo"], spec["hi"]):
        one(spec["seed"], i, spec["globals"], gfields, res)
    return res


def finalize(agg, tier):
    kinds = agg["counters"].get("kinds", {})
    for k in KINDS:
        if not any(x.startswith(k + ":") for x in kinds):
            return "message kind %s never exercised" % k
    return None
