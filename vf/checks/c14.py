"""C14 - validation accepts exactly conforming messages; capture_logging restores the default logger."""

import asyncio
import random
import sys
import unittest
import warnings

import eliot
import eliot.json
from eliot import ActionType, Field, MemoryLogger, MessageType, ValidationError, add_destinations, log_message, remove_destination, write_traceback
from eliot import _output
from eliot.testing import UnflushedTracebacks, capture_logging, check_for_errors, validate_logging

from vf import excs, faults, gen
from vf.runner import h
from vf.tape import Recorder, Tape

ID = "C14"
LEVEL = "exploration"
RULE = ("part 'validate': generated types (fields by for_types / for_value / serializer / serializer raising ValidationError / "
        "extra validator / a Field subclass overriding validate()) are used through a MemoryLogger for stand-alone messages, action start, success end, failed end (with extractor "
        "fields) and tracebacks; each log holds conforming messages plus at most one single-point deviation (declared field dropped, "
        "extra key incl. framework-looking names, wrong type, validator-rejected value, non-JSON-encodable value). An independent "
        "acceptance predicate written from the documentation decides accept/reject; MemoryLogger.validate() must raise iff the "
        "predicate rejects; check_for_errors must raise UnflushedTracebacks whenever a traceback is unflushed, even if validation "
        "would fail too. Typed messages are written plainly, with an explicit action of the captured logger, or while an action bound to "
        "another logger is current (tracebacks likewise); tracebacks of related exception classes are flushed by class (exactly the class and its subclasses); both parts "
        "are repeated in an interpreter started with -O. part 'capture': capture_logging/validate_logging-decorated unittest methods with outcome pass/fail/error/"
        "skip, assertion callbacks none/passing/failing/raising, bodies logging valid/invalid/traceback messages are run with "
        "unittest.TestResult; afterwards the default logger IS the previous one (identity and behavioural probe through a "
        "registered destination) and the result is unsuccessful iff the body or the log checks failed. Logged tracebacks (both parts) also have classes that derive "
        "from BaseException only (asyncio.CancelledError from a really cancelled task, GeneratorExit from a closed generator, SystemExit from sys.exit(), KeyboardInterrupt inside an "
        "action, an own BaseException subclass), raised directly or met in situ; left unflushed they must fail check_for_errors / the decorated test with UnflushedTracebacks like any other, "
        "and flushing by class covers BaseException. In part 'capture' the test's logging step (conforming / deviating message, traceback) runs in the body, in tearDown() or in a cleanup the "
        "body registered with addCleanup(): whatever the test logs before it is really over is judged exactly like logging in the body. "
        "In part 'validate' some types take their for_types fields from ONE scratch list object that the application goes on changing in place (append a class for the next "
        "field, overwrite an element, clear it, also after the last field; None included): what a field accepts is what the list held when the field was defined, so afterwards "
        "Field.validate() and the log validation must still accept values of the declared classes and still reject values of classes that are in the list only since later (every value once the list is empty). "
        "In part 'capture' ONE typed Message object (MessageType call, bind() results) is first written once or twice to an explicitly named other logger (a MemoryLogger or an own ILogger; before the "
        "test or inside it) and then with write() without a logger inside the capture_logging-decorated test: that write belongs to the captured default logger, so exactly one such message is in the captured "
        "log and a deviating one (wrong type / missing / extra field) fails the test with the validation error. non-trivial = deviation "
        "case or non-pass outcome; distinct by (field kind, deviation kind, message kind, exact deviation, field kinds of the type, position in the log) / (outcome, assertion, body, decorator)")
ASSUMPTIONS = ["'reported' means validate()/check_for_errors raises (any exception class)",
               "default-logger identity is read from eliot._output._DEFAULT_LOGGER in addition to the behavioural probe"]
BATCH = 250

FIELD_KINDS = ["types", "value", "ser_str", "ser_validating", "extra_validator", "subclass_validate"]
MSG_KINDS = ["message", "action_start", "action_success", "action_failed", "traceback"]
DEVIATIONS = ["none", "none", "missing", "extra", "wrong_type", "rejected", "unencodable"]
EXTRA_NAMES = ["exception", "reason", "message_type", "action_status", "action_type", "traceback", "extra", "errno", "zzz", "Task_uuid", "task-uuid"]
TYPE_POOL = [str, int, float, bool, list, dict, None]
ENABLE_MUTATED_CLASS_LIST = True
ENABLE_REWRITTEN_MESSAGE = True


def plan(tier, seed):
    n = 40000 if tier == "quick" else 400000
    specs = [{"part": "validate", "seed": seed, "lo": i, "hi": min(n, i + BATCH)} for i in range(0, n, BATCH)]
    m = 4000 if tier == "quick" else 20000
    specs += [{"part": "capture", "seed": seed, "lo": i, "hi": min(m, i + 20)} for i in range(0, m, 20)]
    # both parts again in an interpreter started with -O (assert statements compiled away)
    k = 4 if tier == "quick" else 30
    specs += [{"part": "validate", "seed": seed, "lo": 10**6 + i * BATCH, "hi": 10**6 + (i + 1) * BATCH, "interpreter": "optimize"} for i in range(k)]
    specs += [{"part": "capture", "seed": seed, "lo": 10**6 + i * 20, "hi": 10**6 + (i + 1) * 20, "interpreter": "optimize"} for i in range(k)]
    return specs


# --------------------------------------------------------------------------- field model


def value_of_type(rng, t):
    if t is None:
        return None
    if t is str:
        return gen.gen_text(rng, long_ok=False)
    if t is int:
        return rng.choice([rng.randint(-5, 5), 2**40, True])
    if t is float:
        return rng.choice([0.5, -2.0, 1e10])
    if t is bool:
        return rng.random() < 0.5
    if t is list:
        return [gen.gen_scalar(rng) for _ in range(rng.randint(0, 2))]
    return {"k": gen.gen_scalar(rng)}


def is_nonneg_int(v):
    if not isinstance(v, int) or v < 0:
        raise ValidationError(v, "must be a non-negative integer")
    return v


def must_be_even(v):
    if v % 2:
        raise ValidationError(v, "must be even")


class PortField(Field):
    """An application's Field subclass whose validate() override holds the rule (the constructor's function accepts anything)."""

    def __init__(self, key):
        Field.__init__(self, key, (lambda v: v), "d")

    def validate(self, input):
        if type(input) is not int or not 0 < input < 65536:
            raise ValidationError(input, "not a port number")


def names(classes):
    return "[%s]" % ", ".join("None" if c is None else c.__name__ for c in classes)


def next_classes_in_place(rng, scratch):
    """The application's scratch list is turned IN PLACE into the classes of the next field (append a class, overwrite an
    element, or clear it and fill it again); returns how."""
    unused = [t for t in TYPE_POOL if t not in scratch]
    how = rng.choice(["append", "overwrite", "clear"]) if scratch else "clear"
    if how == "append" and len(scratch) < 3 and unused:
        scratch.append(rng.choice(unused))
    elif how == "overwrite" and unused:
        scratch[rng.randrange(len(scratch))] = rng.choice(unused)
    else:
        how = "clear"
        scratch.clear()
        scratch.extend(rng.sample(TYPE_POOL, rng.randint(1, 3)))
    return how


class FieldModel(object):
    keyword_spelling_fields = 0  # fields declared through eliot.fields(key=cls) in this process

    def __init__(self, rng, key, scratch=None):
        self.key = key
        self.kind = rng.choice(FIELD_KINDS)
        self.scratch = None  # the caller's own list object handed to for_types(), if the application keeps using it
        self.later = []      # classes that are in that list only since after this field was defined
        if self.kind == "types":
            if scratch is None:
                self.classes = rng.sample(TYPE_POOL, rng.randint(1, 3))
                if len(self.classes) == 1 and self.classes[0] is not None and rng.random() < 0.6:
                    # the keyword spelling of the same declaration: eliot.fields(key=cls)
                    from eliot import fields as _fields_factory
                    self.field = _fields_factory(**{key: self.classes[0]})[0]
                    FieldModel.keyword_spelling_fields += 1
                else:
                    self.field = Field.for_types(key, list(self.classes), "d")
            else:
                next_classes_in_place(rng, scratch)
                self.classes = list(scratch)  # the declaration: what the list holds at the moment the field is defined
                self.scratch = scratch
                self.field = Field.for_types(key, scratch, "d")
        elif self.kind == "value":
            self.const = rng.choice([5, "fixed", 2.5, True, None, 0])
            self.field = Field.for_value(key, self.const, "d")
        elif self.kind == "ser_str":
            self.field = Field(key, str, "d")
        elif self.kind == "ser_validating":
            self.field = Field(key, is_nonneg_int, "d")
        elif self.kind == "subclass_validate":
            self.field = PortField(key)
        else:
            self.field = Field.for_types(key, [int], "d", extraValidator=must_be_even)

    def accepts(self, v):
        """Independent statement of the documented rule."""
        if self.kind == "types":
            return any((v is None) if c is None else isinstance(v, c) for c in self.classes)
        if self.kind == "value":
            return v == self.const
        if self.kind == "ser_str":
            return True
        if self.kind == "ser_validating":
            return isinstance(v, int) and v >= 0
        if self.kind == "subclass_validate":
            return type(v) is int and 0 < v < 65536
        return isinstance(v, int) and v % 2 == 0

    def good(self, rng):
        if self.kind == "types":
            return value_of_type(rng, rng.choice(self.classes))
        if self.kind == "value":
            if self.const == 5 and rng.random() < 0.3:
                return 5.0
            return self.const
        if self.kind == "ser_str":
            return rng.choice([gen.gen_scalar(rng), faults.Plain(), [1, 2], b"bytes"])
        if self.kind == "ser_validating":
            return rng.choice([0, 3, 2**40, True])
        if self.kind == "subclass_validate":
            return rng.choice([1, 80, 65535])
        return rng.choice([0, 2, -4, 10**12, False])

    def bad(self, rng):
        """A value the field rejects, or None if none exists."""
        if self.kind == "types":
            others = [t for t in TYPE_POOL if t not in self.classes]
            rng.shuffle(others)
            # classes the application put into its list only after the definition come first
            others.sort(key=lambda t: t not in self.later)
            for t in others:
                v = value_of_type(rng, t)
                if not self.accepts(v):
                    return True, v
            return False, None
        if self.kind == "value":
            for v in [6, "other", 2.75, None, "5", [5], False, 1]:
                if not self.accepts(v):
                    return True, v
        if self.kind == "ser_str":
            return False, None
        if self.kind == "ser_validating":
            return True, rng.choice([-1, "3", 2.0, None, [1]])
        if self.kind == "subclass_validate":
            return True, rng.choice([0, 65536, -1, 10**9])  # values only the override rejects
        return True, rng.choice([1, 3, -7, True])


UNENCODABLE = [lambda: object(), lambda: 2**64, lambda: -(2**63) - 1, lambda: "lone \ud800", lambda: {1: "x"}, lambda: {"nested": [faults.Plain()]},
               lambda: b"\xff\xfe"]


def encodable_after_serialization(fm, v):
    return True


# --------------------------------------------------------------------------- tracebacks of BaseException-only classes

BASE_ONLY = {"CancelledError": asyncio.CancelledError, "SystemExit": SystemExit, "KeyboardInterrupt": KeyboardInterrupt,
             "GeneratorExit": GeneratorExit, "UserBase": excs.UserBase}
BASE_HOWS = ["cancelled_task", "closed_generator", "sys_exit", "interrupt_in_action", "own_base_class"]


def log_base_traceback(how, logger):
    """Log ONE traceback of an exception class that derives from BaseException only, the way programs meet such exceptions
    (logger None = the default logger); returns the class that was logged."""
    args = () if logger is None else (logger,)
    if how == "cancelled_task":
        async def main():
            async def worker():
                try:
                    await asyncio.get_running_loop().create_future()
                except BaseException:
                    write_traceback(*args)  # the worker logs why it died, then lets the cancellation through
                    raise

            task = asyncio.ensure_future(worker())
            await asyncio.sleep(0)
            task.cancel()
            try:
                await task
            except asyncio.CancelledError:
                pass

        asyncio.run(main())
        return asyncio.CancelledError
    if how == "closed_generator":
        def producer():
            try:
                yield 1
            except BaseException:
                write_traceback(*args)
                raise

        it = producer()
        next(it)
        it.close()
        return GeneratorExit
    if how == "sys_exit":
        try:
            sys.exit(3)
        except SystemExit:
            write_traceback(*args)
        return SystemExit
    if how == "interrupt_in_action":
        try:
            with eliot.start_action(logger, "c14:work"):
                raise KeyboardInterrupt()
        except KeyboardInterrupt:
            write_traceback(*args)
        return KeyboardInterrupt
    try:
        raise excs.UserBase("tb")
    except excs.UserBase:
        write_traceback(*args)
    return excs.UserBase


# --------------------------------------------------------------------------- part: validate


def one_validate(seed, i, res):
    rng = random.Random("%s:C14:v:%d" % (seed, i))
    logger = MemoryLogger()
    problems = []
    nmsgs = rng.randint(1, 4)
    dev_at = rng.randrange(nmsgs)
    deviation = rng.choice(DEVIATIONS)
    leave_traceback = rng.random() < 0.15
    rejected = False
    sig = None
    left = []  # ground truth: classes of the tracebacks this log wrote and never flushed
    relisted = []  # for_types fields of this log whose list object the application changed after the definition
    if rng.random() < 0.25:
        # earlier life of the same logger: some conforming messages, a successful validate(), then reset()
        # (whatever validate() remembered must not outlive the reset)
        pre = MessageType("c14:pre", [Field.for_types("n", [int], "")], "")
        with warnings.catch_warnings():
            warnings.simplefilter("ignore")
            for k in range(rng.randint(1, 5)):
                pre(n=k).write(logger)
        try:
            logger.validate()
        except BaseException as e:
            problems.append("validate() rejected conforming prelude messages: %r" % (e,))
        logger.reset()
        res["counters"]["validate_reset_preludes"] = res["counters"].get("validate_reset_preludes", 0) + 1
    for j in range(nmsgs):
        mkind = rng.choice(MSG_KINDS)
        keys = rng.sample(gen.IDENT_KEYS, rng.randint(1, 3))
        # a schema built field by field from ONE scratch list that the application keeps changing (also after the last field)
        scratch = [] if (ENABLE_MUTATED_CLASS_LIST and rng.random() < 0.3) else None
        fms = [FieldModel(rng, k, scratch) for k in keys]
        if scratch is not None:
            after = rng.choice(["next", "next", "clear", "leave"])
            if after == "next":
                next_classes_in_place(rng, scratch)  # (as if one more field were about to be defined)
            elif after == "clear":
                scratch.clear()
            for fm in fms:
                if fm.scratch is None or fm.classes == scratch:
                    continue
                # which values a declared field accepts is fixed by its definition: judged here on the field itself and below
                # through the messages of the type
                fm.later = [c for c in scratch if c not in fm.classes]
                relisted.append("%r declared %s, the list object now holds %s" % (fm.key, names(fm.classes), names(scratch)))
                c_ = res["counters"]
                c_["fields_whose_class_list_changed_after_definition"] = c_.get("fields_whose_class_list_changed_after_definition", 0) + 1
                c_["fields_whose_class_list_was_cleared"] = c_.get("fields_whose_class_list_was_cleared", 0) + int(not scratch)
                v = fm.good(rng)
                try:
                    fm.field.validate(v)
                except BaseException as e:
                    problems.append("Field.for_types(%r, %s) rejects the conforming value %r after the application changed its list object to %s: %r" % (
                        fm.key, names(fm.classes), v, names(scratch), e))
                ok, v = fm.bad(rng)
                if ok:
                    of_later = any((v is None) if k is None else isinstance(v, k) for k in fm.later)
                    c_["values_of_later_added_classes_judged"] = c_.get("values_of_later_added_classes_judged", 0) + int(of_later)
                    try:
                        fm.field.validate(v)
                    except BaseException:
                        pass
                    else:
                        problems.append("Field.for_types(%r, %s) accepts %r (%s) after the application changed its list object to %s" % (
                            fm.key, names(fm.classes), v, "a class only added to the list afterwards" if of_later else "not a declared class", names(scratch)))
        values = {fm.key: fm.good(rng) for fm in fms}
        dev = deviation if j == dev_at else "none"
        applied = "none"
        fkind = None
        if dev == "missing":
            fm = rng.choice(fms)
            del values[fm.key]
            applied, fkind = "missing", fm.kind
        elif dev == "extra":
            # also names that other types (or eliot itself) declare somewhere in this process
            name = rng.choice(EXTRA_NAMES + gen.IDENT_KEYS + ["n", "nid"])
            # keys that eliot itself sets on this kind of message are overwritten, hence no deviation
            own = ("message_type",) if mkind == "message" else ("action_type", "action_status")
            if name not in values and name not in own:
                values[name] = rng.choice(["x", 1, None])
                applied, fkind = "extra:" + name, "-"
        elif dev in ("wrong_type", "rejected"):
            cands = [fm for fm in fms if (fm.kind == "types") == (dev == "wrong_type")]
            rng.shuffle(cands)
            for fm in cands:
                ok, v = fm.bad(rng)
                if ok:
                    values[fm.key] = v
                    applied, fkind = dev, fm.kind
                    if any((v is None) if k is None else isinstance(v, k) for k in fm.later):
                        res["counters"]["logged_values_of_later_added_classes"] = res["counters"].get("logged_values_of_later_added_classes", 0) + 1
                    break
        elif dev == "unencodable":
            cands = [fm for fm in fms if fm.kind in ("types", "value", "ser_validating", "extra_validator")]
            # only identity-serialized fields keep the raw value; choose one whose rule accepts it so encoding is the only deviation
            mk = rng.choice(UNENCODABLE)
            v = mk()
            ok_fields = [fm for fm in cands if fm.accepts(v)]
            if ok_fields:
                fm = rng.choice(ok_fields)
                values[fm.key] = v
                applied, fkind = "unencodable:" + type(v).__name__, fm.kind
        # failed action ends and tracebacks accept additional fields, so "extra" is no deviation there and the typed
        # fields are not part of those messages at all
        fields = [fm.field for fm in fms]
        mt = "c14:m%d_%d" % (i, j)
        this_rejects = applied != "none"
        with warnings.catch_warnings():
            warnings.simplefilter("ignore")
            try:
                if mkind == "message":
                    t = MessageType(mt, fields, "")
                    r_ = rng.random()
                    if r_ < 0.25:
                        t(**values).write(logger)
                    elif r_ < 0.4:
                        # the message is handed an action of the captured logger explicitly
                        holder = eliot.start_action(logger, "c14:holder")
                        if rng.random() < 0.5:
                            t(**values).write(action=holder)
                        else:
                            t(**values).write(logger, holder)
                        holder.finish()
                        res["counters"]["messages_written_to_explicit_action"] = res["counters"].get("messages_written_to_explicit_action", 0) + 1
                    elif r_ < 0.55:
                        # written to the captured logger while an action bound to ANOTHER logger object is current
                        foreign = MemoryLogger()
                        n_before = len(logger.messages)
                        with eliot.start_action(foreign, "c14:foreign"):
                            t(**values).write(logger)
                        # two MemoryLogger objects alive at once keep their own records
                        if [m.get("action_type") for m in foreign.messages] != ["c14:foreign", "c14:foreign"] or len(logger.messages) != n_before + 1:
                            problems.append("two MemoryLoggers alive at once: the other logger holds %r, the captured one grew by %d" % (
                                [m.get("action_type") or m.get("message_type") for m in foreign.messages], len(logger.messages) - n_before))
                        res["counters"]["messages_written_inside_foreign_action"] = res["counters"].get("messages_written_inside_foreign_action", 0) + 1
                    else:
                        logger.write(dict(values, message_type=mt, task_uuid="u", task_level=[1], timestamp=1.0), t._serializer)
                elif mkind == "action_start":
                    t = ActionType(mt, fields, [], "")
                    t(logger, **values).finish()
                elif mkind == "action_success":
                    t = ActionType(mt, [], fields, "")
                    with t(logger) as a:
                        a.add_success_fields(**values)
                elif mkind == "action_failed":
                    t = ActionType(mt, [], fields, "")
                    exc = rng.choice([excs.UserError("x"), OSError(3, "os"), KeyboardInterrupt()])
                    try:
                        with t(logger) as a:
                            a.add_success_fields(**values)
                            raise exc
                    except BaseException:
                        pass
                    this_rejects = False
                    applied = "none" if applied != "none" else applied
                else:
                    if rng.random() < 0.06:
                        # a class that derives from BaseException only, logged where programs meet it (cancelled task, closed
                        # generator, sys.exit(), interrupt inside an action, an own BaseException subclass)
                        tb_cls = log_base_traceback(rng.choice(BASE_HOWS), logger)
                        res["counters"]["base_only_tracebacks_logged_in_situ"] = res["counters"].get("base_only_tracebacks_logged_in_situ", 0) + 1
                    else:
                        tb_exc = rng.choice([excs.UserError("tb"), excs.MidUserError("tb"), excs.DeepUserError("tb"), OSError(3, "os"), FileNotFoundError(2, "nf"),
                                             excs.UserError("tb"), excs.MidUserError("tb"), OSError(3, "os"),
                                             asyncio.CancelledError(), SystemExit(3), KeyboardInterrupt(), GeneratorExit(), excs.UserBase("tb")])
                        tb_cls = type(tb_exc)
                        try:
                            raise tb_exc
                        except BaseException:
                            if rng.random() < 0.3:
                                with eliot.start_action(MemoryLogger(), "c14:foreign"):
                                    write_traceback(logger)
                                res["counters"]["tracebacks_written_inside_foreign_action"] = res["counters"].get("tracebacks_written_inside_foreign_action", 0) + 1
                            else:
                                write_traceback(logger)
                    if leave_traceback:
                        left.append(tb_cls)
                    else:
                        # flushing by a class takes exactly the tracebacks of that class and its subclasses: an expected
                        # FileNotFoundError does not excuse an unexpected OSError, Exception does not excuse a SystemExit
                        before = len(logger.tracebackMessages)
                        flush_cls = rng.choice([Exception, Exception, excs.UserError, excs.MidUserError, excs.DeepUserError, OSError, FileNotFoundError, KeyError,
                                                BaseException, asyncio.CancelledError, SystemExit, excs.UserBase])
                        flushed = logger.flush_tracebacks(flush_cls)
                        # (earlier tracebacks of this log were all flushed or the log is one that leaves them)
                        want = 1 if issubclass(tb_cls, flush_cls) else 0
                        if len(flushed) != want or len(logger.tracebackMessages) != before - want:
                            problems.append("flush_tracebacks(%s) with a logged %s traceback flushed %d (expected %d), %d remain unflushed" % (
                                flush_cls.__name__, tb_cls.__name__, len(flushed), want, len(logger.tracebackMessages)))
                        res["counters"]["flushes_by_class"] = res["counters"].get("flushes_by_class", 0) + 1
                        logger.flush_tracebacks(BaseException)
                    this_rejects = False
                    applied = "none"
            except BaseException as e:
                problems.append("logging through the type raised %r" % (e,))
        if this_rejects:
            rejected = True
            sig = (fkind, applied.split(":")[0], mkind)
            sig_detail = [applied, sorted(fm.kind for fm in fms), nmsgs, j]
    if len(logger.tracebackMessages) != len(left):
        problems.append("%d tracebacks were logged and never flushed (%s) but the logger holds %d unflushed ones" % (
            len(left), ", ".join(c.__name__ for c in left), len(logger.tracebackMessages)))
    unflushed = bool(left)
    base_only = unflushed and not any(issubclass(c, Exception) for c in left)
    # ---- oracle (validate() serializes the stored messages in place, so each log is judged by ONE call)
    v_raised = None
    if unflushed or rng.random() < 0.5:
        used = "check_for_errors"
        try:
            check_for_errors(logger)
        except BaseException as e:
            v_raised = e
        if unflushed:
            if not isinstance(v_raised, UnflushedTracebacks):
                problems.append("check_for_errors raised %r with an unflushed traceback present (logged and never flushed: %s; validation %s)" % (
                    v_raised, ", ".join(c.__name__ for c in left), "also failing" if rejected else "ok"))
    else:
        used = "validate"
        try:
            logger.validate()
        except BaseException as e:
            v_raised = e
    note = " (for_types fields defined from a list the application changed afterwards: %s)" % "; ".join(relisted) if relisted else ""
    if not unflushed:
        if rejected and v_raised is None:
            problems.append("%s accepted a log with deviation %s%s" % (used, sig, note))
        if not rejected and v_raised is not None:
            problems.append("%s rejected a conforming log: %r%s" % (used, v_raised, note))
    res["evals"] += 1
    c = res["counters"]
    c["logs_validated"] = c.get("logs_validated", 0) + 1
    c["deviating_logs"] = c.get("deviating_logs", 0) + int(rejected)
    c["unflushed_traceback_logs"] = c.get("unflushed_traceback_logs", 0) + int(unflushed)
    c["logs_of_types_with_relisted_fields"] = c.get("logs_of_types_with_relisted_fields", 0) + int(bool(relisted) and not unflushed)
    c["unflushed_and_invalid"] = c.get("unflushed_and_invalid", 0) + int(unflushed and rejected)
    c["unflushed_base_only_traceback_logs"] = c.get("unflushed_base_only_traceback_logs", 0) + int(base_only)
    if sig:
        res["nontrivial"].append(h([list(sig), sig_detail]))
        res["sets"]["deviation_signatures"].append("%s/%s/%s" % sig)
    if res.get("sample") is None and sig:
        res["sample"] = {"deviation": sig, "messages": logger.messages[:4], "validate_raised": repr(v_raised)[:200]}
    if problems:
        res["violations"].append({"msg": problems[0], "mech": None, "detail": {"case": i, "problems": problems, "signature": sig,
                                                                               "messages": logger.messages[:6]}})


# --------------------------------------------------------------------------- part: capture


class Money(object):
    def __init__(self, amount):
        self.amount = amount


class MoneyEncoder(eliot.json.EliotJSONEncoder):
    def default(self, o):
        if isinstance(o, Money):
            return {"money": o.amount}
        return eliot.json.EliotJSONEncoder.default(self, o)


class RefusingEncoder(eliot.json.EliotJSONEncoder):
    """Stricter than the stock encoder: none of eliot's extra types."""

    def default(self, o):
        raise TypeError("only plain JSON here")


class OwnLogger(object):
    """An application's own ILogger: keeps what it is given."""

    def __init__(self):
        self.written = []

    def write(self, dictionary, serializer=None):
        self.written.append(dictionary)


def one_capture(seed, i, res, tape):
    rng = random.Random("%s:C14:c:%d" % (seed, i))
    outcome = rng.choice(["pass", "fail", "error", "skip", "skip_method", "baseexc"])
    assertion = rng.choice(["none", "ok", "fail", "raise"])
    body = rng.choice(["valid", "invalid", "traceback", "flushed_traceback", "nothing", "custom_value", "refused_value"])
    # encoder_: a test may name the JSON encoder class its log has to be encodable with (subclassing EliotJSONEncoder is the documented way)
    encoder = rng.choice(["default", "money", "refusing"]) if body in ("custom_value", "refused_value") else rng.choice(["default", "default", "money"])
    leaves_swapped = rng.random() < 0.12  # the body installs another default logger itself and never puts the old one back
    decorator = rng.choice(["capture", "capture", "capture", "validate"])
    nested = rng.choice([0, 0, 1, 2]) if decorator == "capture" else 0  # decorated helpers called on the same TestCase instance
    ran = {"assertion": 0, "body": 0}
    MT = MessageType("c14:cap", [Field.for_types("n", [int], "")], "")
    MT2 = MessageType("c14:cap2", [Field.for_types("n", [int], ""), Field.for_types("s", [str], "")], "")

    finishes_in_cleanup = rng.random() < 0.2  # the body starts an action that one of the test's own cleanups finishes
    # a test is not over when its body returns: what the body logs may as well be logged by tearDown() or by a cleanup the body registered
    where = rng.choice(["body", "body", "teardown", "cleanup"])
    if where != "body":
        leaves_swapped = False  # (a body that replaces the default logger for good takes the late messages elsewhere)
    # class of the traceback the traceback bodies log: an ordinary one, a BaseException-only class raised directly, or one met in situ
    tb_how = rng.choice(["UserError", "UserError", "UserError"] + sorted(BASE_ONLY) + BASE_HOWS)

    # ONE typed Message object written more than once: first to a logger object named explicitly (an audit trail of the
    # application's own), later with write() and no logger inside the decorated test - that write belongs to the default logger
    rewritten = ENABLE_REWRITTEN_MESSAGE and decorator == "capture" and body in ("valid", "invalid") and rng.random() < 0.5
    rw_made = rng.choice(["call", "bind_all", "bind_some", "bind_after_write"])
    rw_when = rng.choice(["before_test", "in_step"])
    rw_dev = rng.choice(["wrong_type", "missing", "extra"]) if body == "invalid" else "none"
    rw_first_writes = rng.randint(1, 2)
    rw_other = MemoryLogger() if rng.random() < 0.7 else OwnLogger()
    rw = {}

    def rw_prepare():
        """Make the Message object and write it to the explicitly named other logger."""
        f = {"n": 1, "s": "x"}
        if rw_dev == "wrong_type":
            f["n"] = "no"
        elif rw_dev == "missing":
            del f["n"]
        elif rw_dev == "extra":
            f["zzz"] = 2
        if rw_made == "call":
            msg = MT2(**f)
        elif rw_made == "bind_all":
            msg = MT2().bind(**f)
        elif rw_made == "bind_some":
            msg = MT2(s=f.pop("s")).bind(**f)
        else:
            base = MT2(**f)
            base.write(rw_other)
            msg = base.bind()
        for _ in range(rw_first_writes):
            msg.write(rw_other)
        rw["msg"] = msg

    def assert_cb(test, logger, *a, **kw):
        ran["assertion"] += 1
        if finishes_in_cleanup:
            # the assertion callback sees the complete log: cleanups registered by the test body have run before it
            from eliot.testing import LoggedAction
            try:
                late = LoggedAction.of_type(logger.messages, "c14:late")
                ran["late"] = "ok" if (len(late) == 1 and late[0].end_message.get("action_status") == "succeeded") else "wrong: %d entries" % len(late)
            except BaseException as e:
                ran["late"] = "raised %r" % (e,)
        if a != (1,) or kw != {"k": 2}:
            raise RuntimeError("assertion arguments not passed through")
        if assertion == "fail":
            test.fail("assertion callback fails")
        if assertion == "raise":
            raise RuntimeError("assertion callback raises")

    def do_logging(logger):
        ran["logged"] = ran.get("logged", 0) + 1
        if rewritten:
            if rw_when == "in_step":
                rw_prepare()
            rw["msg"].write()
        elif body == "valid":
            MT.log(n=1) if decorator == "capture" else logger.write({"message_type": "c14:cap", "n": 1, "task_uuid": "u", "task_level": [1], "timestamp": 1.0}, MT._serializer)
        elif body == "invalid":
            MT.log(n="no") if decorator == "capture" else logger.write({"message_type": "c14:cap", "n": "no", "task_uuid": "u", "task_level": [1], "timestamp": 1.0}, MT._serializer)
        elif body in ("traceback", "flushed_traceback"):
            target = None if decorator == "capture" else logger
            ran["tb_class"] = tb_how
            if tb_how == "UserError":
                cls = excs.UserError
                try:
                    raise excs.UserError("in test")
                except Exception:
                    write_traceback() if decorator == "capture" else write_traceback(logger)
            elif tb_how in BASE_ONLY:
                cls = BASE_ONLY[tb_how]
                try:
                    raise cls("in test")
                except BaseException:
                    write_traceback() if decorator == "capture" else write_traceback(logger)
            else:
                cls = log_base_traceback(tb_how, target)
            if body == "flushed_traceback":
                logger.flush_tracebacks(cls)
        elif body in ("custom_value", "refused_value"):
            v = Money(5) if body == "custom_value" else {1, 2}
            if decorator == "capture":
                log_message(message_type="c14:untyped", v=v)
            else:
                logger.write({"message_type": "c14:untyped", "v": v, "task_uuid": "u", "task_level": [1], "timestamp": 1.0})

    dec = capture_logging if decorator == "capture" else validate_logging
    cb = None if assertion == "none" else assert_cb
    enc_kw = {} if encoder == "default" else {"encoder_": MoneyEncoder if encoder == "money" else RefusingEncoder}
    with warnings.catch_warnings():
        warnings.simplefilter("ignore")

        class T(unittest.TestCase):
            late_logger = None

            def tearDown(self):
                if self.late_logger is not None:
                    do_logging(self.late_logger)

            @capture_logging(None)
            def helper(self, logger):
                ran["helper"] = ran.get("helper", 0) + 1
                MT.log(n=7)
                if len(logger.messages) != 1:
                    raise RuntimeError("helper's logger did not capture exactly its own message")

            @dec(cb, *(() if cb is None else (1,)), **dict({} if cb is None else {"k": 2}, **enc_kw))
            def test_it(self, logger):
                ran["body"] += 1
                ran["logger"] = logger
                for _ in range(nested):
                    self.helper()
                if finishes_in_cleanup:
                    late_action = eliot.start_action(logger, "c14:late") if decorator != "capture" else eliot.start_action(action_type="c14:late")
                    self.addCleanup(late_action.finish)
                if where == "body":
                    do_logging(logger)
                elif where == "cleanup":
                    self.addCleanup(do_logging, logger)
                else:
                    self.late_logger = logger
                if leaves_swapped and decorator == "capture":
                    from eliot.testing import swap_logger as _swap
                    _swap(MemoryLogger())
                if outcome == "fail":
                    self.fail("planned failure")
                if outcome == "error":
                    raise RuntimeError("planned error")
                if outcome == "skip":
                    raise unittest.SkipTest("planned skip")
                if outcome == "skip_method":
                    self.skipTest("planned skip")
                if outcome == "baseexc":
                    raise excs.UserBase("planned base exception")

        if rewritten and rw_when == "before_test":
            rw_prepare()
        prev = _output._DEFAULT_LOGGER
        result = unittest.TestResult()
        escaped = None
        try:
            T("test_it").run(result)
        except BaseException as e:
            escaped = e
    problems = []
    # (unittest records any non-KeyboardInterrupt BaseException from the body as an error and still runs cleanups)
    if escaped is not None:
        problems.append("running the decorated test raised %r" % (escaped,))
    if _output._DEFAULT_LOGGER is not prev:
        problems.append("default logger not restored after a %s test (assertion %s, body %s, %s, %d nested decorated helper calls)" % (outcome, assertion, body, decorator, nested))
        _output._DEFAULT_LOGGER = prev
    if True:
        # behavioural probe: a message logged now must reach the registered destination, not the test's MemoryLogger
        before = len(tape.entries)
        log_message(message_type="c14:probe", n=i)
        got = [e for e in tape.entries[before:] if e["k"] == "msg" and e["m"].get("message_type") == "c14:probe"]
        if len(got) != 1:
            problems.append("message logged after the test did not reach the global destinations (default logger still swapped)")
        lg = ran.get("logger")
        if lg is not None and any(m.get("message_type") == "c14:probe" for m in lg.messages):
            problems.append("message logged after the test was captured by the test's MemoryLogger")
        if ran["body"] != 1:
            problems.append("test body ran %d times" % ran["body"])
        skipped = outcome in ("skip", "skip_method")
        want_assert = 0 if (cb is None or skipped) else 1
        if finishes_in_cleanup and ran["assertion"] and nested == 0 and not leaves_swapped and ran.get("late") != "ok":
            problems.append("the assertion callback ran before the test's own cleanups: an action finished by a cleanup was %s" % (ran.get("late"),))
        if ran["assertion"] != want_assert:
            problems.append("assertion callback ran %d times, expected %d (outcome %s)" % (ran["assertion"], want_assert, outcome))
        # Money is encodable only by MoneyEncoder; a set by the stock encoder and MoneyEncoder but not by RefusingEncoder
        bad_log = body in ("invalid", "traceback") or (body == "custom_value" and encoder != "money") or (body == "refused_value" and encoder == "refusing")
        should_fail = outcome in ("fail", "error", "baseexc") or bad_log or (assertion in ("fail", "raise") and not skipped)
        # a decorated helper leaves ITS logger installed until the cleanups run (that is how capture_logging is built), so with
        # nested helpers what the outer body logs goes elsewhere: only restoration is judged for those runs
        if nested == 0 and result.wasSuccessful() == should_fail:
            problems.append("test result successful=%s but expected %s (outcome %s, assertion %s, body %s logged from %s%s, %s)" % (
                result.wasSuccessful(), not should_fail, outcome, assertion, body, where,
                ", traceback of %s" % tb_how if body in ("traceback", "flushed_traceback") else "", decorator))
        if rewritten and nested == 0 and ran.get("logged", 0) == 1 and lg is not None:
            # the write() without a logger belongs to the captured default logger, however often the same Message object was
            # written to an explicitly named logger before
            desc = "a typed Message object (%s) written %d time(s) to an explicitly named logger (%s) and then with write() inside the decorated test (from %s)" % (
                rw_made, rw_first_writes, "before the test" if rw_when == "before_test" else "in the test", where)
            got2 = [m for m in lg.messages if m.get("message_type") == "c14:cap2"]
            if len(got2) != 1:
                problems.append("%s: the captured log holds %d such message(s), expected 1 (%s)" % (desc, len(got2), "conforming" if body == "valid" else "deviation " + rw_dev))
            if body == "invalid" and not any("ValidationError" in tb for _, tb in result.errors + result.failures):
                problems.append("%s with deviation %s did not fail the test with the validation error (successful=%s)" % (desc, rw_dev, result.wasSuccessful()))
            c_ = res["counters"]
            c_["rewritten_messages_in_decorated_tests"] = c_.get("rewritten_messages_in_decorated_tests", 0) + 1
            c_["rewritten_deviating_messages_in_decorated_tests"] = c_.get("rewritten_deviating_messages_in_decorated_tests", 0) + int(body == "invalid")
        if ran.get("logged", 0) != 1:
            problems.append("the test's logging step (in %s) ran %d times" % (where, ran.get("logged", 0)))
        if skipped and len(result.skipped) != 1:
            problems.append("skip was not reported as skip")
        if nested == 0 and body == "traceback" and not any("UnflushedTracebacks" in tb for _, tb in result.errors + result.failures):
            problems.append("unflushed traceback (%s, logged from %s) did not fail the test with UnflushedTracebacks" % (tb_how, where))
    res["evals"] += 1
    c = res["counters"]
    c["decorated_tests_run"] = c.get("decorated_tests_run", 0) + 1
    tb_sig = "/tb:" + tb_how if body in ("traceback", "flushed_traceback") and tb_how != "UserError" else ""
    res["sets"]["capture_signatures"].append("%s/%s/%s/%s/nested%d/%s%s%s%s" % (outcome, assertion, body, decorator, nested, encoder, "/swapped" if leaves_swapped else "",
                                                                              "" if where == "body" else "/" + where, tb_sig) +
                                         ("/rewritten:%s:%s:%s:%d:%s" % (rw_made, rw_when, rw_dev, rw_first_writes, type(rw_other).__name__) if rewritten else ""))
    if nested == 0 and ran.get("logged", 0) == 1:
        # reach of the widenings, counted only where the run is judged by its result
        if bad_log and where != "body":
            c["late_deviations_in_decorated_tests"] = c.get("late_deviations_in_decorated_tests", 0) + 1
        if body == "traceback" and tb_how != "UserError":
            c["base_only_tracebacks_in_decorated_tests"] = c.get("base_only_tracebacks_in_decorated_tests", 0) + 1
    if nested and ran.get("helper", 0) != nested:
        problems.append("decorated helper ran %d times, expected %d" % (ran.get("helper", 0), nested))
    if outcome != "pass":
        res["nontrivial"].append(h([outcome, assertion, body, decorator]))
    if problems:
        res["violations"].append({"msg": problems[0], "mech": None, "detail": {"case": i, "problems": problems, "outcome": outcome, "assertion": assertion,
                                                                               "body": body, "decorator": decorator}})


def run_case(spec):
    res = {"evals": 0, "nontrivial": [], "counters": {}, "violations": [], "sample": None, "sets": {"deviation_signatures": [], "capture_signatures": []}}
    if spec["part"] == "validate":
        for i in range(spec["lo"], spec["hi"]):
            one_validate(spec["seed"], i, res)
    else:
        tape = Tape()
        rec = Recorder(tape, "rec")
        add_destinations(rec)
        for i in range(spec["lo"], spec["hi"]):
            one_capture(spec["seed"], i, res, tape)
    return res


def finalize(agg, tier):
    c = agg["counters"]
    if c.get("deviating_logs", 0) < 200 or c.get("decorated_tests_run", 0) < 100 or c.get("unflushed_and_invalid", 0) < 5:
        return "too few deviating logs / decorated tests / unflushed+invalid logs"
    if c.get("unflushed_base_only_traceback_logs", 0) < 5 or c.get("base_only_tracebacks_in_decorated_tests", 0) < 5:
        return "too few unflushed tracebacks of BaseException-only classes (logs / decorated tests)"
    if ENABLE_MUTATED_CLASS_LIST and (c.get("fields_whose_class_list_changed_after_definition", 0) < 50 or c.get("fields_whose_class_list_was_cleared", 0) < 10
                                      or c.get("values_of_later_added_classes_judged", 0) < 20 or c.get("logged_values_of_later_added_classes", 0) < 5
                                      or c.get("logs_of_types_with_relisted_fields", 0) < 50):
        return "too few for_types fields whose list object was changed after the definition (changed / cleared / values of later-added classes judged)"
    if ENABLE_REWRITTEN_MESSAGE and (c.get("rewritten_messages_in_decorated_tests", 0) < 10 or c.get("rewritten_deviating_messages_in_decorated_tests", 0) < 5):
        return "too few decorated tests that write an already written Message object to the default logger"
    if c.get("late_deviations_in_decorated_tests", 0) < 5:
        return "too few decorated tests that log their deviation from tearDown() or a cleanup"
    return None
