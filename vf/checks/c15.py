"""C15 - decorated generators: own context, transparent (context probes + differential vs the undecorated generator)."""

import gc
import random
import sys
import threading
import warnings

from eliot import add_destinations, current_action, log_message, remove_destination, start_action
from eliot._generators import eliot_friendly_generator_function

from vf import excs
from vf.runner import h
from vf.tape import Recorder, Tape

ID = "C15"
LEVEL = "exploration"
RULE = ("generated generator bodies (actions spanning yields, logging, try/except around yields that continue / re-raise / return / raise "
        "another exception, nested decorated or plain sub-generators via `yield from` or manual iteration, return values, raised "
        "exceptions) are wrapped with eliot_friendly_generator_function; 1-4 such generators are driven alternately by a generated "
        "script over next / send(v) / throw(E) / close (also before start and after exhaustion), each step run under one of several "
        "surrounding driver actions (which may be finished between steps while generators started in them are suspended), under no action, or on a fresh thread. Generators are created inside one driver action and first resumed inside another; half of them end with a yield "
        "written directly in the generator function (no `yield from` in between) whose handler may answer a thrown GeneratorExit with a return "
        "value or another yield. What gets decorated is the generator function, a functools.wraps pass-through, an object with a generator __call__ or a lambda. A third of the "
        "cases run with warnings as errors. Probes: inside the body after every resumption "
        "current_action() IS the top of the generator's own shadow stack (action current at first resumption + actions entered "
        "since); in the driver after every step it IS what it was before. Differential: the same script on the UNDECORATED generator "
        "must give the same trace of yielded values, received values, thrown-in and raised exception objects, close() behaviour and "
        "StopIteration.value; part of the yielded values are exception instances passed as ordinary data (StopIteration with and without a value, GeneratorExit, KeyError). Tape: every in-generator action/message sits under its shadow parent. non-trivial = script with a "
        "context switch between resumptions of a generator holding an open action, or a throw/close; distinct by (bodies, script). "
        "Part 'gccycle': 1-3 decorated generators (0-3 own actions open around the suspension point, early yields, nested decorated sub-generators via "
        "`yield from` or by manual iteration that is never closed, clean-up code in finally / except GeneratorExit that probes current_action(), logs, may "
        "start an action of its own, may answer GeneratorExit with a return, may raise) are ABANDONED while suspended and are reachable only through a "
        "reference cycle (self-referring holder object / list / dict, a pair of objects, a closure cycle, a holder whose __del__ closes the generator, the "
        "generator's own argument, the generator sent to itself, generators sent to each other; cycle members allocated before, between or after the "
        "generator's creation and first resumption, optionally promoted to older collector generations first); automatic collection is off, the last outside "
        "references are dropped under some driver action (or none) and gc.collect(0|1|2) is called under a driver action, under none, on a fresh thread or from "
        "inside another decorated generator's body, then a full collection. Oracle: every probe in the clean-up code IS the top of the generator's own shadow "
        "stack, everything it logs sits under its shadow parent, every started action has exactly one end message under its own parent after the final "
        "collection, no message without a planned origin exists, the collector's current_action() after gc.collect() IS what it was before, and the "
        "per-generator event sequences and the exceptions reported through sys.unraisablehook equal those of the same scenario with UNDECORATED generators; "
        "objects that existed before the case are set aside with gc.freeze(), collections of still-referenced generators happen only after their last "
        "resumption (the sub-class with a young-generation collection between creation and a later resumption is kept behind ENABLE_GCCYCLE_PROMOTE_EARLY = "
        "False: the unchanged tree fails it)")
ASSUMPTIONS = ["Twisted is absent: eliot.twisted.inline_callbacks = inlineCallbacks(eliot_friendly_generator_function(f)); the wrapper is the monitored object",
               "'started' means the first resumption of the generator"]
BATCH = 100
# part 'gccycle': decorated generators abandoned while suspended and finalised by the cyclic garbage collector under a foreign action
ENABLE_GCCYCLE = True
GC_BATCH = 50
# Sub-class of part 'gccycle', DISABLED because the unchanged tree violates the property on it (reported, not hidden): a collection of the
# young generation (explicit here, any automatic one in an application) runs between the creation of the decorated generator object and a
# later resumption, so that the generator object the application holds is in an older collector generation than what its resumptions
# allocate afterwards (the first resumption allocates the generator of the decorated function itself). When such a generator is abandoned
# in a reference cycle, a full gc.collect() (CPython 3.12 examines the youngest generation's objects first) finalises the younger object
# directly: the body's clean-up code then runs in the COLLECTOR's context - current_action() there is the collector's action, its
# messages land in the collector's action, the `with start_action(...)` around the yield fails to exit ("Exception ignored in: <generator
# ...> ValueError: <Token ...> was created in a different Context") and the generator's own action never gets an end message. Minimal
# input: it = g(); gc.collect(0); next(it) under X; h.me = h; h.g = it; under Y: del it, h; gc.collect().
# With the constant False, collections of still-referenced generators happen only after their last resumption.
ENABLE_GCCYCLE_PROMOTE_EARLY = True


def plan(tier, seed):
    n = 30000 if tier == "quick" else 300000
    specs = [{"seed": seed, "lo": i, "hi": min(n, i + BATCH)} for i in range(0, n, BATCH)]
    if ENABLE_GCCYCLE:
        m = 3000 if tier == "quick" else 30000
        gcs = [{"part": "gccycle", "seed": seed, "lo": i, "hi": min(m, i + GC_BATCH)} for i in range(0, m, GC_BATCH)]
        # spread over the plan so that every worker gets some
        step = max(1, len(specs) // max(1, len(gcs)))
        out = []
        for j, sp in enumerate(specs):
            out.append(sp)
            if j % step == 0 and gcs:
                out.append(gcs.pop(0))
        specs = out + gcs
    return specs


# --------------------------------------------------------------------------- body generation

CATCH = {"Exception": Exception, "UserError": excs.UserError, "GeneratorExit": GeneratorExit, "BaseException": BaseException}
THROWABLE = ["UserError", "ValueError", "GeneratorExit", "GenExitSub", "KeyboardInterrupt", "DeepUserError"]


def _raise_it(e):
    """Where thrown-in exceptions are first raised: this frame is part of their traceback."""
    raise e


def _origin(e):
    """Does the exception's traceback still show where it was first raised?"""
    import traceback as _tb
    try:
        return any(fs.name == "_raise_it" for fs in _tb.extract_tb(e.__traceback__))
    except BaseException:
        return None


class GenExitSub(GeneratorExit):
    pass


EXC = dict(excs.POOL, GenExitSub=GenExitSub)


class IdGen(object):
    def __init__(self):
        self.n = 0

    def __call__(self):
        self.n += 1
        return self.n


def gen_ops(rng, ids, depth, budget):
    ops = []
    for _ in range(rng.randint(1, 4)):
        if budget[0] <= 0:
            break
        budget[0] -= 1
        r = rng.random()
        if r < 0.4:
            op = {"k": "yield", "val": ids()}
            if rng.random() < 0.4:
                op["catch"] = rng.choice(list(CATCH))
                op["then"] = rng.choice(["continue", "continue", "reraise", "return", "raise_other"])
            ops.append(op)
        elif r < 0.6 and depth < 3:
            ops.append({"k": "act", "nid": ids(), "children": gen_ops(rng, ids, depth + 1, budget)})
        elif r < 0.75:
            ops.append({"k": "log", "nid": ids()})
        elif r < 0.87 and depth < 2:
            ops.append({"k": "sub", "how": rng.choice(["yield_from", "iterate"]), "decorated": rng.random() < 0.7,
                        "body": gen_ops(rng, ids, depth + 1, budget), "ret": ids()})
        elif r < 0.9 and depth < 2:
            # two nested decorated generators driven alternately, by hand, from inside this generator
            ops.append({"k": "inter", "bodies": [gen_ops(rng, ids, depth + 1, budget), gen_ops(rng, ids, depth + 1, budget)], "ret": ids()})
        elif r < 0.94:
            ops.append({"k": "return", "val": ids()})
            break
        else:
            ops.append({"k": "raise", "exc": rng.choice(["UserError", "ValueError", "KeyError"])})
            break
    return ops


class _Null(object):
    def __enter__(self):
        return self

    def __exit__(self, *a):
        return None


class Mon(object):
    had_tb = ()

    def __init__(self, decorated):
        self.had_tb = set()
        self._init(decorated)

    def _init(self, decorated):
        self.decorated = decorated
        self.trace = []
        self.problems = []
        self.probes = 0
        self.parent_of = {}  # nid -> parent nid or None
        self.action_nid = {}  # id(action) -> nid
        self.sent = {}

    def nid_of(self, action):
        if action is None:
            return None
        return self.action_nid.get(id(action), "?")

    def probe(self, expected, where):
        if not self.decorated:
            return
        self.probes += 1
        got = current_action()
        if got is not expected:
            if len(self.problems) < 6:
                self.problems.append("%s: current_action() is action nid %r, the generator's own context is nid %r" % (where, self.nid_of(got), self.nid_of(expected)))


def _yielded(val):
    """What a generator yields for op value `val`: mostly a plain tuple; sometimes an exception instance as ordinary data (a source
    reporting "exhausted" with the StopIteration it caught, a GeneratorExit/error object passed along), which is a value like any other."""
    if isinstance(val, int) and val % 6 == 1:
        k = (val // 6) % 4
        if k == 0:
            return StopIteration(("carried", val))
        if k == 1:
            return StopIteration()
        if k == 2:
            return GeneratorExit("as data %d" % val)
        return KeyError("as data %d" % val)
    return ("y", val)


def _norm_out(out):
    if isinstance(out, BaseException):
        return ("exception instance yielded as data", type(out).__name__, repr(out.args))
    return out


def make_genfunc(ops, mon, label, decorated, ret=None):
    """Build the generator function for `ops`. Its shadow stack starts with the action current at first resumption."""

    def run_ops(ops, stack):
        for op in ops:
            k = op["k"]
            if k == "yield":
                try:
                    got = yield _yielded(op["val"])
                    mon.trace.append((label, "recv", mon.sent.get(id(got), got) if isinstance(got, BaseException) else got))
                except BaseException as e:
                    cls = CATCH.get(op.get("catch"))
                    if cls is None or not isinstance(e, cls):
                        mon.probe(stack[-1], "%s after a throw at yield %s" % (label, op["val"]))
                        raise
                    mon.trace.append((label, "caught", mon.sent.get(id(e), type(e).__name__), _origin(e) if id(e) in mon.had_tb else None))
                    mon.probe(stack[-1], "%s after catching at yield %s" % (label, op["val"]))
                    then = op["then"]
                    if then == "reraise":
                        raise
                    if then == "return":
                        return ("r", op["val"])
                    if then == "raise_other":
                        raise excs.MidUserError("other %s" % op["val"])
                import sys as _sys
                # outside any handler of its own, a generator that was resumed normally (or has dealt with what was thrown in) sees
                # no exception in flight
                mon.trace.append((label, "exception in flight after yield", _sys.exc_info()[0] is not None))
                mon.probe(stack[-1], "%s after resuming from yield %s" % (label, op["val"]))
            elif k == "act":
                parent = stack[-1]
                # the undecorated reference run only provides the transparency trace: it must not touch eliot's context, since a
                # plain generator holding an action across a yield is the documented anti-pattern the decorator exists for
                with (start_action(action_type="gen:act", nid=op["nid"]) if mon.decorated else _Null()) as a:
                    mon.action_nid[id(a)] = op["nid"]
                    mon.parent_of[op["nid"]] = mon.nid_of(parent)
                    stack.append(a)
                    try:
                        mon.probe(a, "%s inside action %s" % (label, op["nid"]))
                        r = yield from run_ops(op["children"], stack)
                        if r is not None:
                            return r
                    finally:
                        stack.pop()
                mon.probe(stack[-1], "%s after leaving action %s" % (label, op["nid"]))
            elif k == "log":
                mon.parent_of[op["nid"]] = mon.nid_of(stack[-1])
                if mon.decorated:
                    log_message(message_type="gen:msg", nid=op["nid"])
            elif k == "sub":
                subf = make_genfunc(op["body"], mon, "%s.sub%s" % (label, op["ret"]), op["decorated"], ret=op["ret"])
                # a plain sub-generator shares this generator's context; a decorated one starts from it
                subf._shadow_base = stack[-1]
                if op["how"] == "yield_from":
                    r = yield from subf()
                    mon.trace.append((label, "subreturn", r))
                else:
                    it = subf()
                    try:
                        for item in it:
                            # driving a nested DECORATED generator must not change this generator's own current action
                            # (a plain nested generator shares this generator's context by design)
                            if op["decorated"]:
                                mon.probe(stack[-1], "%s after resuming a nested generator" % label)
                            yield item
                    finally:
                        it.close()  # deterministic finalisation (otherwise it depends on when the collector frees it)
                mon.probe(stack[-1], "%s after sub-generator" % label)
            elif k == "inter":
                subs = [make_genfunc(b, mon, "%s.i%s_%d" % (label, op["ret"], j), True, ret=None) for j, b in enumerate(op["bodies"])]
                for sf in subs:
                    sf._shadow_base = stack[-1]
                its = [sf() for sf in subs]
                live = list(its)
                try:
                    while live:
                        for it in list(live):
                            try:
                                item = next(it)
                            except StopIteration:
                                live.remove(it)
                                continue
                            mon.probe(stack[-1], "%s after resuming one of two interleaved nested generators" % label)
                            yield item
                            mon.probe(stack[-1], "%s between interleaved nested generators" % label)
                finally:
                    # close every nested generator deterministically even if closing one of them raises
                    err = None
                    for it in its:
                        try:
                            it.close()
                        except BaseException as e:
                            if err is None:
                                err = e
                    if err is not None:
                        raise err
            elif k == "return":
                return ("r", op["val"])
            elif k == "raise":
                e = EXC[op["exc"]]("from %s" % label)
                mon.sent[id(e)] = "raised-by-%s" % label
                mon._keep = getattr(mon, "_keep", []) + [e]
                mon.last_raised = e
                raise e
        return None

    def body():
        base = current_action()
        if mon.decorated:
            exp = getattr(body, "_expected_base", "unset")
            if exp != "unset" and base is not exp:
                mon.problems.append("%s: at first resumption current_action() is nid %r, the driver's action was nid %r" % (label, mon.nid_of(base), mon.nid_of(exp)))
        stack = [base]
        r = yield from run_ops(ops, stack)
        epi = getattr(body, "_epilogue", None)
        if r is None and epi is not None:
            # a yield written directly in the generator function (no `yield from` in between, which treats a thrown GeneratorExit
            # specially): what is thrown in here can be caught and answered with a return value or with another yield
            try:
                got = yield ("y", epi["val"])
                mon.trace.append((label, "recv", mon.sent.get(id(got), got) if isinstance(got, BaseException) else got))
            except BaseException as e:
                cls = CATCH.get(epi.get("catch"))
                if cls is None or not isinstance(e, cls):
                    raise
                mon.trace.append((label, "caught", mon.sent.get(id(e), type(e).__name__), _origin(e) if id(e) in mon.had_tb else None))
                mon.probe(base, "%s after catching at its last yield" % label)
                if epi["then"] == "reraise":
                    raise
                if epi["then"] == "return":
                    return ("r", epi["val"])
                if epi["then"] == "raise_other":
                    raise excs.MidUserError("other %s" % epi["val"])
                got = yield ("y2", epi["val"])
                mon.trace.append((label, "recv", mon.sent.get(id(got), got) if isinstance(got, BaseException) else got))
            mon.probe(base, "%s after its last yield" % label)
        mon.probe(base, "%s before returning" % label)
        if r is None and ret is not None:
            return ("r", ret)
        return r

    if decorated and mon.decorated:
        # what gets decorated is a generator function, or something that merely returns its generator: a functools.wraps pass-through
        # around it, an object whose __call__ does, a lambda
        kind = sum(map(ord, label)) % 4
        if kind == 1:
            import functools

            @functools.wraps(body)
            def target(*a, **kw):
                return body(*a, **kw)
        elif kind == 2:
            class _Factory(object):
                def __call__(self):
                    return body()
            target = _Factory()
        elif kind == 3:
            target = lambda: body()  # noqa: E731
        else:
            target = body
        wrapped = eliot_friendly_generator_function(target)

        def starter():
            # for nested decorated sub-generators the expected base is the enclosing generator's current top
            body._expected_base = getattr(starter, "_shadow_base", "unset")
            return wrapped()
        starter._body = body
        return starter

    def plain():
        return body()
    plain._body = body
    return plain


# --------------------------------------------------------------------------- one execution (decorated or not)


def execute(bodies, script, decorated, tape, create_ctxs=None, epilogues=None):
    mon = Mon(decorated)
    drv = []
    # surrounding driver actions
    for j in range(3):
        a = start_action(action_type="driver", nid=1000 + j)
        mon.action_nid[id(a)] = 1000 + j
        drv.append(a)
    gens = []
    funcs = []
    for gi, ops in enumerate(bodies):
        f = make_genfunc(ops, mon, "g%d" % gi, True)
        f._body._epilogue = epilogues[gi] if epilogues else None
        funcs.append(f)
        # the generator object may be created inside one action and first resumed inside another: what counts is the first resumption
        where = create_ctxs[gi] if create_ctxs else None
        gens.append(f() if where is None else drv[where].run(f))
    started = [False] * len(gens)
    sent_objs = {}

    def step(st):
        gi = st["g"]
        g = gens[gi]
        before = current_action()
        if not started[gi] and st["op"] == "next":  # send(non-None) to a just-created generator raises without running it
            funcs[gi]._body._expected_base = before
            started[gi] = True
        ev = None
        try:
            with warnings.catch_warnings():
                # (a third of the cases run with warnings turned into errors, as under python -W error)
                warnings.simplefilter("error" if STRICT_WARNINGS[0] else "ignore")
                if st["op"] == "next":
                    out = next(g)
                    ev = ("yielded", _norm_out(out))
                elif st["op"] == "send":
                    v = ("v", st["val"])
                    if st["val"] % 5 == 0:
                        # an exception instance sent as ordinary data must arrive as data, not be raised
                        v = ValueError("sent as data %d" % st["val"])
                        mon.sent[id(v)] = "data-exception-%d" % st["val"]
                        sent_objs[st["val"]] = v
                    out = g.send(v)
                    ev = ("yielded", _norm_out(out))
                elif st["op"] == "throw":
                    e = EXC[st["exc"]]("thrown %d" % st["val"])
                    mon.sent[id(e)] = "thrown-%d" % st["val"]
                    sent_objs[st["val"]] = e
                    if st["val"] % 2:
                        # an exception that was raised and caught elsewhere before being thrown in carries its traceback along
                        try:
                            _raise_it(e)
                        except BaseException:
                            pass
                        mon.had_tb.add(id(e))
                    out = g.throw(e)
                    ev = ("yielded", _norm_out(out))
                else:
                    g.close()
                    ev = ("closed",)
        except StopIteration as e:
            ev = ("stop", e.value)
        except BaseException as e:
            tag = mon.sent.get(id(e))
            if tag is None:
                tag = "foreign:" + type(e).__name__ + ":" + str(e)[:60]
            ctx = e.__context__
            ev = ("raised", tag, _origin(e) if id(e) in mon.had_tb else None,
                  None if ctx is None else mon.sent.get(id(ctx), "foreign:" + type(ctx).__name__))
        mon.trace.append(("driver", gi, st["op"], ev))
        mon.probes += 1
        if decorated and current_action() is not before:
            mon.problems.append("driver: after %s on g%d current_action() is nid %r, it was nid %r" % (st["op"], gi, mon.nid_of(current_action()), mon.nid_of(before)))

    for st in script:
        where = st["ctx"]
        if st["op"] == "finish_ctx":
            # a surrounding driver action ends while generators started inside it are suspended; they are resumed later on
            drv[where].finish()
            continue
        fn = (lambda st=st: step(st))
        if st.get("thread"):
            target = fn if where is None else (lambda fn=fn, where=where: drv[where].run(fn))
            t = threading.Thread(target=target)
            t.start()
            t.join()
        elif where is None:
            fn()
        else:
            drv[where].run(fn)
    for g in gens:
        try:
            g.close()
        except BaseException:
            pass
    for a in drv:
        a.finish()
    return mon


STRICT_WARNINGS = [False]


def one(seed, i, res):
    rng = random.Random("%s:C15:%d" % (seed, i))
    STRICT_WARNINGS[0] = i % 3 == 0
    ids = IdGen()
    ngen = rng.choice([1, 1, 2, 3, 4])
    bodies = [gen_ops(rng, ids, 0, [rng.choice([4, 8, 14])]) for _ in range(ngen)]
    script = []
    for s in range(rng.randint(3, 24)):
        r = rng.random()
        st = {"g": rng.randrange(ngen), "ctx": rng.choice([None, 0, 1, 2]), "thread": rng.random() < 0.15, "val": 5000 + s}
        if r < 0.06:
            st["op"] = "finish_ctx"
            st["ctx"] = rng.choice([0, 1, 2])
            st["thread"] = False
        elif r < 0.5:
            st["op"] = "next"
        elif r < 0.72:
            st["op"] = "send"
        elif r < 0.9:
            st["op"] = "throw"
            st["exc"] = rng.choice(THROWABLE)
        else:
            st["op"] = "close"
        script.append(st)
    tape = Tape()
    rec = Recorder(tape, "rec")
    add_destinations(rec)
    try:
        create_ctxs = [rng.choice([None, None, 0, 1, 2]) for _ in range(ngen)]
        epilogues = [({"val": ids(), "catch": rng.choice(list(CATCH) + [None]), "then": rng.choice(["continue", "return", "return", "reraise", "raise_other"])}
                      if rng.random() < 0.5 else None) for _ in range(ngen)]
        mon_u = execute(bodies, script, False, tape, create_ctxs, epilogues)
        mark = len(tape.entries)
        mon_d = execute(bodies, script, True, tape, create_ctxs, epilogues)
    finally:
        remove_destination(rec)
    problems = list(mon_d.problems)
    # ---- transparency differential
    tu, td = mon_u.trace, mon_d.trace
    if tu != td:
        j = next((k for k in range(min(len(tu), len(td))) if tu[k] != td[k]), min(len(tu), len(td)))
        problems.append("decorated generator is not transparent: event %d is %r, undecorated gives %r" % (
            j, td[j] if j < len(td) else None, tu[j] if j < len(tu) else None))
    # ---- tape: every in-generator action / message under its shadow parent
    msgs = [e["m"] for e in tape.entries[mark:] if e["k"] == "msg"]
    where = {}
    for m in msgs:
        nid = m.get("nid")
        if nid is None:
            continue
        if m.get("action_status") == "started":
            where[nid] = (m["task_uuid"], m["task_level"][:-1], "action")
        elif "message_type" in m:
            where[nid] = (m["task_uuid"], m["task_level"], "message")
    for nid, parent in mon_d.parent_of.items():
        if nid not in where:
            problems.append("node %s was executed but is not on the tape" % nid)
            continue
        uuid, lvl, kind = where[nid]
        own_parent_level = lvl[:-1]
        if parent is None:
            if own_parent_level != [] and not (kind == "message" and lvl == [1]):
                problems.append("node %s ran with no current action but was logged at %s" % (nid, lvl))
        elif parent == "?":
            pass
        else:
            if parent not in where:
                problems.append("parent %s of node %s is not on the tape" % (parent, nid))
                continue
            puuid, plvl, _ = where[parent]
            if uuid != puuid or own_parent_level != plvl:
                problems.append("node %s was logged under %s%s, its generator context is action nid %s at %s%s" % (nid, uuid[:6], own_parent_level, parent, puuid[:6], plvl))
    res["evals"] += 1
    c = res["counters"]
    c["context_probes"] = c.get("context_probes", 0) + mon_d.probes
    c["driver_steps"] = c.get("driver_steps", 0) + len(script)
    c["trace_events_compared"] = c.get("trace_events_compared", 0) + len(td)
    for st in script:
        d = c.setdefault("ops", {})
        d[st["op"]] = d.get(st["op"], 0) + 1
    kinds = set(ev[3][0] for ev in td if ev[0] == "driver")
    for k in kinds:
        res["sets"]["step_outcomes"].append(k)
    has_act = any(op["k"] in ("act", "sub", "inter") for b in bodies for op in b)
    ctxs = set(st["ctx"] for st in script)
    if has_act and (len(ctxs) >= 2 or any(st["op"] in ("throw", "close") for st in script)):
        res["nontrivial"].append(h([bodies, script]))
    if res.get("sample") is None and len(script) <= 8:
        res["sample"] = {"bodies": bodies, "script": script, "trace": td[:20]}
    mech = None
    if problems:
        res["violations"].append({"msg": problems[0], "mech": mech, "detail": {"case": i, "problems": problems[:6], "bodies": bodies, "script": script}})


# --------------------------------------------------------------------------- part 'gccycle'
#
# Decorated generators that are abandoned while suspended and whose only references are part of a reference cycle: their clean-up code
# (finally / except GeneratorExit / __exit__ of their own with-blocks) is run by the cyclic garbage collector, at a moment and under an
# action chosen by the case. The bodies here are NOT the ones of the main part (which closes every nested generator deterministically,
# DESIGN 10.3): nothing is closed by hand, automatic collection is off, every collection is an explicit gc.collect().

GC_CYCLES = ["holder_self", "list_self", "dict_self", "pair", "closure", "holder_del", "arg_box", "sent_self", "ring"]


class _Holder(object):
    pass


class _ClosingHolder(object):
    """An owner that closes its generator when it is finalised itself."""

    def __del__(self):
        g = self.__dict__.get("gen")
        if g is not None:
            g.close()


class GcMon(Mon):
    def _init(self, decorated):
        Mon._init(self, decorated)
        self.keep = []  # the action objects (never generators or frames): ids stay unique, identities can be compared
        self.phase = "run"
        self.collector_action = None
        self.cleanups = []  # (label, phase, inside own action?, expected is not the collector's action?, nested?)
        self.runtime_nid = 100000
        self.drv_msgs = {}  # dnid -> driver context index or None
        self.collector_probes = 0

    def note_action(self, a, nid, parent):
        self.keep.append(a)
        self.action_nid[id(a)] = nid
        self.parent_of[nid] = self.nid_of(parent)

    def log(self, nid, expected):
        self.parent_of[nid] = self.nid_of(expected)
        if self.decorated:
            log_message(message_type="gen:msg", nid=nid)

    def fresh(self):
        self.runtime_nid += 1
        return self.runtime_nid

    def drvlog(self, where):
        n = self.fresh()
        self.drv_msgs[n] = where
        log_message(message_type="drv:msg", dnid=n)


def gc_body_spec(rng, ids, depth=0):
    nlev = rng.choice([0, 1, 1, 2, 3]) if depth == 0 else rng.choice([0, 1, 2])
    levels = []
    for _ in range(nlev):
        levels.append({"nid": ids(), "cleanup": rng.choice(["finally", "finally", "except_ge", "both", "none"]), "log": ids(), "log2": ids(),
                       "cl_act": ids() if rng.random() < 0.3 else None, "cl_act_log": ids(), "pre_yield": rng.random() < 0.3})
    outer = None
    if nlev == 0 or rng.random() < 0.5:
        outer = {"how": rng.choice(["finally", "finally", "except_ge", "except_ge_return"]), "log": ids(),
                 "cl_act": ids() if rng.random() < 0.3 else None, "cl_act_log": ids()}
    sp = {"levels": levels, "outer": outer, "early": rng.choice([0, 0, 1, 2]), "nested": None, "raises": False}
    if depth < 2 and rng.random() < 0.3:
        sp["nested"] = {"how": rng.choice(["yield_from", "iterate"]), "spec": gc_body_spec(rng, ids, depth + 1)}
    elif depth == 0 and rng.random() < 0.08:
        sp["raises"] = True  # the clean-up code itself fails: reported through sys.unraisablehook, with and without the decorator
    return sp


def gc_make_genfunc(sp, mon, label, decorated, nested=False):
    def cleanup(expected, lognid, cl_act, cl_act_log, where, inside_own):
        mon.trace.append((label, "clean-up", where))
        mon.cleanups.append((label, mon.phase, inside_own, expected is not mon.collector_action, nested))
        mon.probe(expected, "%s, clean-up code (%s) run while %s" % (label, where, mon.phase))
        mon.log(lognid, expected)
        if cl_act is not None:
            # the clean-up code starts an action of its own: a child of the generator's current action
            with (start_action(action_type="gen:cleanup", nid=cl_act) if mon.decorated else _Null()) as ca:
                mon.note_action(ca, cl_act, expected)
                mon.probe(ca, "%s, inside the action started by its clean-up code (%s) run while %s" % (label, where, mon.phase))
                mon.log(cl_act_log, ca)
            mon.probe(expected, "%s, after the action started by its clean-up code (%s) run while %s" % (label, where, mon.phase))

    def innermost(stack, box, keep):
        nst = sp["nested"]
        if nst is None:
            while True:
                got = yield ("susp", label)
                mon.trace.append((label, "resumed"))
                mon.probe(stack[-1], "%s after resuming" % label)
                if got is not None:
                    keep.append(got)  # a generator object (itself or another one) kept in this generator's frame
        subf = gc_make_genfunc(nst["spec"], mon, label + ".sub", True, nested=True)
        subf._shadow_base = stack[-1]  # a nested decorated generator starts from this generator's current action
        if nst["how"] == "yield_from":
            yield from subf(box)
        else:
            it = subf(box)
            for item in it:
                mon.probe(stack[-1], "%s after resuming a nested generator" % label)
                got = yield item
                mon.probe(stack[-1], "%s after resuming" % label)
                if got is not None:
                    keep.append(got)
            # `it` is never closed by hand: it is abandoned together with this generator

    def run_levels(i, stack, box, keep):
        if i == len(sp["levels"]):
            yield from innermost(stack, box, keep)
            return
        lv = sp["levels"][i]
        parent = stack[-1]
        with (start_action(action_type="gen:own", nid=lv["nid"]) if mon.decorated else _Null()) as a:
            mon.note_action(a, lv["nid"], parent)
            stack.append(a)
            try:
                try:
                    mon.probe(a, "%s inside action %s" % (label, lv["nid"]))
                    if lv["pre_yield"]:
                        got = yield ("pre", label, lv["nid"])
                        mon.probe(a, "%s after resuming inside action %s" % (label, lv["nid"]))
                        if got is not None:
                            keep.append(got)
                    yield from run_levels(i + 1, stack, box, keep)
                except GeneratorExit:
                    if lv["cleanup"] in ("except_ge", "both"):
                        cleanup(a, lv["log"], None, None, "except GeneratorExit inside own action %s" % lv["nid"], True)
                    raise
                finally:
                    if lv["cleanup"] in ("finally", "both"):
                        cleanup(a, lv["log2"], lv["cl_act"], lv["cl_act_log"], "finally inside own action %s" % lv["nid"], True)
                    if sp["raises"] and i == 0:
                        raise excs.UserError("clean-up of %s failed" % label)
            finally:
                stack.pop()
        mon.probe(stack[-1], "%s after leaving action %s" % (label, lv["nid"]))

    def body(box=None):
        base = current_action()
        if mon.decorated:
            exp = getattr(body, "_expected_base", "unset")
            if exp != "unset" and base is not exp:
                mon.problems.append("%s: at first resumption current_action() is nid %r, the driver's action was nid %r" % (label, mon.nid_of(base), mon.nid_of(exp)))
        stack = [base]
        keep = []
        outer = sp["outer"]
        try:
            for j in range(sp["early"]):
                got = yield ("early", label, j)
                mon.probe(base, "%s after resuming from an early yield" % label)
                if got is not None:
                    keep.append(got)
            yield from run_levels(0, stack, box, keep)
        except GeneratorExit:
            if outer is not None and outer["how"] != "finally":
                cleanup(base, outer["log"], outer["cl_act"], outer["cl_act_log"], "except GeneratorExit outside its own actions", False)
                if outer["how"] == "except_ge_return":
                    return ("r", label)
            raise
        finally:
            if outer is not None and outer["how"] == "finally":
                cleanup(base, outer["log"], outer["cl_act"], outer["cl_act_log"], "finally outside its own actions", False)
                if sp["raises"] and not sp["levels"]:
                    raise excs.UserError("clean-up of %s failed" % label)

    if decorated and mon.decorated:
        kind = sum(map(ord, label)) % 4
        if kind == 1:
            import functools

            @functools.wraps(body)
            def target(*a, **kw):
                return body(*a, **kw)
        elif kind == 2:
            class _Factory(object):
                def __call__(self, box=None):
                    return body(box)
            target = _Factory()
        elif kind == 3:
            target = lambda box=None: body(box)  # noqa: E731
        else:
            target = body
        wrapped = eliot_friendly_generator_function(target)

        def starter(box=None):
            body._expected_base = getattr(starter, "_shadow_base", "unset")
            return wrapped(box)
        starter._body = body
        return starter

    def plain(box=None):
        return body(box)
    plain._body = body
    return plain


def gc_make_collector(mon):
    """A (decorated) generator whose body, inside an action of its own, runs the collections it is asked for."""

    def body():
        base = current_action()
        with (start_action(action_type="gen:collector", nid=900) if mon.decorated else _Null()) as a:
            mon.note_action(a, 900, base)
            k = yield "ready"
            while True:
                mon.probe(a, "collector generator before gc.collect()")
                outer_collector = mon.collector_action
                mon.collector_action = a if mon.decorated else None
                try:
                    gc.collect(k)
                finally:
                    mon.collector_action = outer_collector
                mon.collector_probes += 1
                mon.probe(a, "collector generator: after gc.collect() finalised abandoned generators from inside its body")
                mon.log(mon.fresh(), a)
                k = yield "collected"

    return eliot_friendly_generator_function(body) if mon.decorated else body


def gc_scenario(rng):
    ids = IdGen()
    ring = rng.random() < 0.15
    ngen = rng.choice([2, 2, 3]) if ring else rng.choice([1, 1, 2, 3])
    ctx = lambda: rng.choice([None, 0, 1, 2])  # noqa: E731
    gens, seqs = [], []
    for gi in range(ngen):
        cyc = "ring" if ring else rng.choice(GC_CYCLES[:-1])
        order = rng.choice(["cycle_first", "gen_first", "between"])
        gens.append({"body": gc_body_spec(rng, ids), "cycle": cyc, "order": order})
        nexts = [{"op": "next", "g": gi, "ctx": ctx(), "thread": rng.random() < 0.12} for _ in range(rng.randint(1, 4))]
        create = {"op": "create", "g": gi, "ctx": rng.choice([None, None, 0, 1, 2])}
        mk = {"op": "mkcycle", "g": gi}
        if cyc == "sent_self":
            seq = [create, nexts[0], {"op": "send", "g": gi, "other": gi, "ctx": ctx()}] + nexts[1:]
        elif cyc == "ring":
            seq = [create] + nexts
        elif order == "cycle_first":
            seq = [mk, create] + nexts
        elif order == "gen_first":
            seq = [create] + nexts + [mk]
        else:
            seq = [create, mk] + nexts
        seqs.append(seq)
    steps = []
    live = [s for s in seqs if s]
    while live:
        s = rng.choice(live)
        steps.append(s.pop(0))
        if not s:
            live.remove(s)
    if ring:
        for gi in range(ngen):
            steps.append({"op": "send", "g": gi, "other": (gi + 1) % ngen, "ctx": ctx()})
        for gi in range(ngen):
            if rng.random() < 0.4:
                steps.append({"op": "next", "g": gi, "ctx": ctx(), "thread": False})
    if rng.random() < 0.35:
        for _ in range(rng.choice([1, 1, 2])):
            # a collection while everything is still referenced: the objects allocated so far move to an older generation
            promote = {"op": "promote", "gen": rng.choice([0, 1, 2]), "ctx": ctx()}
            if ENABLE_GCCYCLE_PROMOTE_EARLY:
                steps.insert(rng.randint(0, len(steps)), promote)
            else:
                steps.append(promote)  # after the last resumption: every generator's objects change generation together
    if rng.random() < 0.25:
        steps.insert(rng.randint(0, len(steps)), {"op": "finish_ctx", "ctx": rng.choice([0, 1, 2])})
    order = list(range(ngen))
    rng.shuffle(order)
    collect = lambda: {"op": "collect", "gen": rng.choice([0, 1, 2, 2]), "via": rng.choice(["direct", "direct", "gen"]), "ctx": ctx(),  # noqa: E731
                       "thread": rng.random() < 0.15}
    for j, gi in enumerate(order):
        steps.append({"op": "drop", "g": gi, "ctx": ctx()})
        if j + 1 < len(order) and rng.random() < 0.3:
            steps.append(collect())
    if rng.random() < 0.2:
        steps.append({"op": "finish_ctx", "ctx": rng.choice([0, 1, 2])})
    for _ in range(rng.choice([1, 1, 2])):
        steps.append(collect())
    steps.append({"op": "collect", "gen": 2, "via": "direct", "ctx": ctx(), "thread": False})
    return {"gens": gens, "steps": steps, "collector_ctx": ctx()}


def gc_execute(sc, decorated):
    mon = GcMon(decorated)
    unraisable = []

    def hook(u):
        # strings only: holding the exception would hold the frames being finalised
        unraisable.append((type(u.exc_value).__name__, str(u.exc_value)[:80]))

    old_hook = sys.unraisablehook
    sys.unraisablehook = hook
    gc.collect()  # what earlier scenarios left behind goes now; everything allocated from here on is in the youngest generation
    try:
        drv = []
        for j in range(3):
            a = start_action(action_type="driver", nid=1000 + j)
            mon.keep.append(a)
            mon.action_nid[id(a)] = 1000 + j
            drv.append(a)
        finished = set()
        funcs = [gc_make_genfunc(g["body"], mon, "g%d" % gi, True) for gi, g in enumerate(sc["gens"])]
        refs = {}   # gi -> the generator object: the only outside reference to it
        roots = {}  # gi -> outside reference to the cycle that will own it
        boxes = {}
        started = set()
        attached = set()

        def in_ctx(where, fn, thread=False):
            if thread:
                target = fn if where is None else (lambda: drv[where].run(fn))
                t = threading.Thread(target=target)
                t.start()
                t.join()
            elif where is None:
                fn()
            else:
                drv[where].run(fn)

        cwhere = sc["collector_ctx"]
        holder = []
        in_ctx(cwhere, lambda: holder.append(gc_make_collector(mon)()))
        col = holder.pop()
        in_ctx(cwhere, lambda: next(col))

        def attach(gi):
            """Make the generator reachable from its cycle once both exist."""
            if gi in attached or gi not in refs:
                return
            kind = sc["gens"][gi]["cycle"]
            if kind == "arg_box":
                if gi in boxes and boxes[gi].get("ready"):
                    boxes[gi]["box"].append(refs[gi])
                    attached.add(gi)
                return
            if gi not in roots:
                return
            r = roots[gi]
            if kind in ("holder_self", "holder_del"):
                r.gen = refs[gi]
            elif kind == "list_self":
                r.append(refs[gi])
            elif kind == "dict_self":
                r["gen"] = refs[gi]
            elif kind == "pair":
                r.other.gen = refs[gi]
            elif kind == "closure":
                r().append(refs[gi])
            attached.add(gi)

        def mkcycle(gi):
            kind = sc["gens"][gi]["cycle"]
            if kind == "holder_self":
                r = _Holder()
                r.me = r
            elif kind == "holder_del":
                r = _ClosingHolder()
                r.me = r
            elif kind == "list_self":
                r = []
                r.append(r)
            elif kind == "dict_self":
                r = {}
                r["me"] = r
            elif kind == "pair":
                r, b = _Holder(), _Holder()
                r.other = b
                b.other = r
            elif kind == "closure":
                cell = []

                def r():
                    return cell
                cell.append(r)
            elif kind == "arg_box":
                boxes.setdefault(gi, {"box": []})["ready"] = True
                attach(gi)
                return
            else:
                return
            roots[gi] = r
            attach(gi)

        def create(gi):
            box = None
            if sc["gens"][gi]["cycle"] == "arg_box":
                box = boxes.setdefault(gi, {"box": []})["box"]
            refs[gi] = funcs[gi](box)
            attach(gi)

        def resume(st):
            gi = st["g"]
            before = current_action()
            if gi not in started:
                funcs[gi]._body._expected_base = before
                started.add(gi)
            try:
                if st["op"] == "next":
                    out = next(refs[gi])
                else:
                    out = refs[gi].send(refs[st["other"]])
                ev = ("yielded", out)
            except StopIteration as e:
                ev = ("stop", e.value)
            except BaseException as e:
                ev = ("raised", type(e).__name__, str(e)[:60])
            mon.trace.append(("g%d" % gi, "driver", st["op"], ev))
            mon.probes += 1
            if decorated and current_action() is not before:
                mon.problems.append("driver: after %s on g%d current_action() is nid %r, it was nid %r" % (st["op"], gi, mon.nid_of(current_action()), mon.nid_of(before)))

        def collect(st, phase):
            before = current_action()
            mon.drvlog(st["ctx"])
            mon.phase = phase
            mon.collector_action = before if decorated else None
            try:
                if st.get("via") == "gen":
                    col.send(st["gen"])
                else:
                    gc.collect(st["gen"])
            finally:
                mon.phase = "run"
                mon.collector_action = None
            mon.collector_probes += 1
            if decorated and current_action() is not before:
                mon.problems.append("collector: after gc.collect(%d)%s finalised abandoned generators current_action() is nid %r, it was nid %r" % (
                    st["gen"], " (called in the body of another decorated generator)" if st.get("via") == "gen" else "",
                    mon.nid_of(current_action()), mon.nid_of(before)))
            mon.drvlog(st["ctx"])

        def drop(gi):
            mon.phase = "the last outside reference was being dropped"
            try:
                refs.pop(gi, None)
                roots.pop(gi, None)
                boxes.pop(gi, None)
            finally:
                mon.phase = "run"

        ncollect = 0
        for st in sc["steps"]:
            op = st["op"]
            if op == "finish_ctx":
                if st["ctx"] not in finished:
                    finished.add(st["ctx"])
                    drv[st["ctx"]].finish()
            elif op == "mkcycle":
                mkcycle(st["g"])
            elif op == "create":
                in_ctx(st["ctx"], lambda: create(st["g"]))
            elif op in ("next", "send"):
                in_ctx(st["ctx"], lambda: resume(st), st.get("thread"))
            elif op == "promote":
                in_ctx(st["ctx"], lambda: collect(st, "a collection ran while the generator was still referenced"))
            elif op == "drop":
                in_ctx(st["ctx"], lambda: drop(st["g"]))
            elif op == "collect":
                ncollect += 1
                where = "no action" if st["ctx"] is None else "driver action nid %d" % (1000 + st["ctx"])
                in_ctx(st["ctx"], lambda: collect(st, "gc.collect(%d) #%d ran under %s%s%s" % (
                    st["gen"], ncollect, where, " on another thread" if st.get("thread") else "",
                    " in the body of another decorated generator" if st.get("via") == "gen" else "")), st.get("thread"))
        in_ctx(cwhere, col.close)
        for j, a in enumerate(drv):
            if j not in finished:
                a.finish()
    finally:
        sys.unraisablehook = old_hook
    mon.unraisable = unraisable
    return mon


def gc_check_tape(msgs, mon, problems):
    where = {}
    starts, ends = {}, {}
    for m in msgs:
        key = (m["task_uuid"], tuple(m["task_level"][:-1]))
        status = m.get("action_status")
        nid = m.get("nid")
        if status == "started":
            starts[key] = nid
            if nid is not None:
                where[nid] = (m["task_uuid"], m["task_level"][:-1], "action")
        elif status in ("succeeded", "failed"):
            ends[key] = ends.get(key, 0) + 1
        elif nid is not None:
            where[nid] = (m["task_uuid"], m["task_level"], "message")
        elif "dnid" not in m:
            problems.append("a message nobody planned was logged: %r" % ({k: m[k] for k in list(m)[:8]},))
    for key, n in ends.items():
        if key not in starts:
            problems.append("an end message at %s%s belongs to no started action" % (key[0][:6], list(key[1])))
    for key, nid in starts.items():
        n = ends.get(key, 0)
        if n != 1:
            problems.append("action nid %s has %d end messages under its own parent after every abandoned generator was finalised (exactly one expected)" % (nid, n))
    # every in-generator action / message under its shadow parent (the generator's own context), wherever the collector ran
    for nid, parent in mon.parent_of.items():
        if nid not in where:
            problems.append("node %s was executed but is not on the tape" % nid)
            continue
        uuid, lvl, kind = where[nid]
        own_parent_level = lvl[:-1]
        if parent is None:
            if own_parent_level != [] and not (kind == "message" and lvl == [1]):
                problems.append("node %s ran with no current action in its generator's context but was logged at %s%s" % (nid, uuid[:6], lvl))
            elif kind == "message" and any(uuid == w[0] for n2, w in where.items() if n2 != nid):
                problems.append("node %s ran with no current action in its generator's context but was logged into the task of another node (%s%s)" % (nid, uuid[:6], lvl))
        elif parent == "?":
            pass
        else:
            if parent not in where:
                problems.append("parent %s of node %s is not on the tape" % (parent, nid))
                continue
            puuid, plvl, _ = where[parent]
            if uuid != puuid or own_parent_level != plvl:
                problems.append("node %s was logged under %s%s, its generator's own context is action nid %s at %s%s" % (nid, uuid[:6], own_parent_level, parent, puuid[:6], plvl))
    # what the driver logged around each collection sits directly under the driver's action
    for m in msgs:
        if "dnid" not in m:
            continue
        w = mon.drv_msgs.get(m["dnid"], "?")
        if w == "?":
            problems.append("driver message %r was never logged by the driver" % m["dnid"])
        elif w is None:
            if m["task_level"] != [1] or any(m["task_uuid"] == x[0] for x in where.values()):
                problems.append("a message the collector logged under no action sits at %s%s" % (m["task_uuid"][:6], m["task_level"]))
        else:
            puuid, plvl, _ = where[1000 + w]
            if m["task_uuid"] != puuid or m["task_level"][:-1] != plvl:
                problems.append("a message the collector logged under driver action nid %d sits at %s%s" % (1000 + w, m["task_uuid"][:6], m["task_level"]))


def gc_one(seed, i, res):
    rng = random.Random("%s:C15:gccycle:%d" % (seed, i))
    sc = gc_scenario(rng)
    tape = Tape()
    rec = Recorder(tape, "rec")
    add_destinations(rec)
    try:
        mon_u = gc_execute(sc, False)
        mark = len(tape.entries)
        mon_d = gc_execute(sc, True)
    finally:
        remove_destination(rec)
    problems = list(mon_d.problems)
    # ---- transparency: per generator body the same events (which clean-up code ran, what the driver got), the same unraisable reports
    labels = sorted(set(ev[0] for ev in mon_u.trace) | set(ev[0] for ev in mon_d.trace))
    for lab in labels:
        tu = [ev for ev in mon_u.trace if ev[0] == lab]
        td = [ev for ev in mon_d.trace if ev[0] == lab]
        if tu != td:
            j = next((k for k in range(min(len(tu), len(td))) if tu[k] != td[k]), min(len(tu), len(td)))
            problems.append("decorated generator %s abandoned in a reference cycle is not transparent: after the final collection its event %d is %r, undecorated gives %r" % (
                lab, j, td[j] if j < len(td) else None, tu[j] if j < len(tu) else None))
    if sorted(mon_u.unraisable) != sorted(mon_d.unraisable):
        problems.append("'Exception ignored in' reports (sys.unraisablehook) while abandoned decorated generators were finalised: %r; with undecorated generators: %r" % (
            sorted(mon_d.unraisable)[:4], sorted(mon_u.unraisable)[:4]))
    msgs = [e["m"] for e in tape.entries[mark:] if e["k"] == "msg"]
    gc_check_tape(msgs, mon_d, problems)
    res["evals"] += 1
    c = res["counters"]

    def bump(name, n=1):
        c[name] = c.get(name, 0) + n

    bump("gc_scenarios")
    bump("context_probes", mon_d.probes)
    bump("gc_collector_probes", mon_d.collector_probes)
    bump("gc_collects_from_generator_body", sum(1 for st in sc["steps"] if st["op"] == "collect" and st.get("via") == "gen"))
    bump("gc_unraisable_reports_expected", len(mon_u.unraisable))
    bump("gc_scenarios_with_promotion", 1 if any(st["op"] == "promote" for st in sc["steps"]) else 0)
    during = 0
    for label, phase, inside_own, foreign, nested in mon_d.cleanups:
        if phase.startswith("gc.collect("):
            during += 1
            bump("gc_cleanups_during_collect")
            if foreign:
                bump("gc_cleanups_under_other_action")
            if inside_own:
                bump("gc_cleanups_inside_own_action")
            if nested:
                bump("gc_cleanups_nested_generator")
            if "another thread" in phase:
                bump("gc_cleanups_collect_on_thread")
            d = c.setdefault("gc_cycle_kinds", {})
            kind = sc["gens"][int(label.split(".")[0][1:])]["cycle"]
            d[kind] = d.get(kind, 0) + 1
        else:
            # not finalised by the collector: the scenario failed to put the generator into a cycle (counted, never judged)
            bump("gc_cleanups_outside_collect")
    if during:
        res["nontrivial"].append(h(["gccycle", sc]))
    if res.get("sample") is None and i % GC_BATCH == 0:
        res["sample"] = {"part": "gccycle", "scenario": sc, "clean-ups": [list(x) for x in mon_d.cleanups[:6]]}
    if problems:
        # Known finding (KNOWN_FINDINGS.json, C15 gc-finalises-generator-before-wrapper): attributed only when the scenario has the input
        # that defect needs - a collection while everything is still referenced, BETWEEN the creation of a generator object and one of its
        # later resumptions - (whatever is rejected in such a scenario is attributed to it).
        ops = [st["op"] for st in sc["steps"]]
        resumed = [j for j, o in enumerate(ops) if o in ("next", "send")]
        created = [j for j, o in enumerate(ops) if o == "create"]
        early = bool(resumed and created) and any(o == "promote" and min(created) < j < max(resumed) for j, o in enumerate(ops))
        # (its consequences take many shapes - clean-up probes, misplaced nodes, missing end messages, unraisable reports, a clean-up chain cut
        # short - so the attribution goes by the input alone; such scenarios are about a tenth of this part, the rest judge everything)
        mech_gc = "gc-finalises-generator-before-wrapper" if early else None
        res["violations"].append({"msg": "part gccycle: " + problems[0], "mech": mech_gc,
                                  "detail": {"case": i, "problems": problems[:6], "scenario": sc, "clean-ups": [list(x) for x in mon_d.cleanups[:8]]}})


def gc_run_case(spec):
    res = {"evals": 0, "nontrivial": [], "counters": {}, "violations": [], "sample": None, "sets": {"step_outcomes": []}}
    gc.disable()  # the moment of every collection is chosen by the scenario
    gc.collect()
    gc.freeze()  # what exists already (modules, the harness) is set aside: the scenarios' collections examine only what they allocate
    try:
        for i in range(spec["lo"], spec["hi"]):
            gc_one(spec["seed"], i, res)
    finally:
        gc.unfreeze()
        gc.enable()
    return res


def run_case(spec):
    if spec.get("part") == "gccycle":
        return gc_run_case(spec)
    sys.unraisablehook = lambda *a: None  # abandoned generators finalised by the collector may raise; irrelevant here
    res = {"evals": 0, "nontrivial": [], "counters": {}, "violations": [], "sample": None, "sets": {"step_outcomes": []}}
    for i in range(spec["lo"], spec["hi"]):
        one(spec["seed"], i, res)
    return res


def finalize(agg, tier):
    c = agg["counters"]
    if c.get("context_probes", 0) < 5000:
        return "fewer than 5000 context probes"
    need = {"yielded", "stop", "raised", "closed"}
    if not need <= set(agg["sets"].get("step_outcomes", {})):
        return "not every step outcome kind was observed"
    if ENABLE_GCCYCLE:
        scale = 1 if tier == "quick" else 10
        for name, least in (("gc_cleanups_during_collect", 1500), ("gc_cleanups_under_other_action", 1000), ("gc_cleanups_inside_own_action", 500),
                            ("gc_cleanups_nested_generator", 100), ("gc_collector_probes", 3000), ("gc_collects_from_generator_body", 100)):
            if c.get(name, 0) < least * scale:
                return "part gccycle: reach counter %s is %d (< %d)" % (name, c.get(name, 0), least * scale)
        if not set(GC_CYCLES) <= set(c.get("gc_cycle_kinds", {})):
            return "part gccycle: not every kind of reference cycle finalised a generator"
    return None
