"""C15 - decorated generators: own context, transparent (context probes + differential vs the undecorated generator)."""

import random
import threading
import warnings

from eliot import add_destinations, current_action, log_message, remove_destination, start_action
from eliot._generators import eliot_friendly_generator_function

from vf import excs
from vf.runner import h
from vf.tape import Recorder, Tape

ID = "C15"
LEVEL = "exploration"
RULE = ("generated generator bodies (actions spanning yields, logging, try/except around yields that continue / re-raise / return / raise "
        "another exception, nested decorated or plain sub-generators via `yield from` or manual iteration, return values, raised "
        "exceptions) are wrapped with eliot_friendly_generator_function; 1-4 such generators are driven alternately by a generated "
        "script over next / send(v) / throw(E) / close (also before start and after exhaustion), each step run under one of several "
        "surrounding driver actions (which may be finished between steps while generators started in them are suspended), under no action, or on a fresh thread. Generators are created inside one driver action and first resumed inside another; half of them end with a yield "
        "written directly in the generator function (no `yield from` in between) whose handler may answer a thrown GeneratorExit with a return "
        "value or another yield. What gets decorated is the generator function, a functools.wraps pass-through, an object with a generator __call__ or a lambda. A third of the "
        "cases run with warnings as errors. Probes: inside the body after every resumption "
        "current_action() IS the top of the generator's own shadow stack (action current at first resumption + actions entered "
        "since); in the driver after every step it IS what it was before. Differential: the same script on the UNDECORATED generator "
        "must give the same trace of yielded values, received values, thrown-in and raised exception objects, close() behaviour and "
        "StopIteration.value; part of the yielded values are exception instances passed as ordinary data (StopIteration with and without a value, GeneratorExit, KeyError). Tape: every in-generator action/message sits under its shadow parent. non-trivial = script with a "
        "context switch between resumptions of a generator holding an open action, or a throw/close; distinct by (bodies, script)")
ASSUMPTIONS = ["Twisted is absent: eliot.twisted.inline_callbacks = inlineCallbacks(eliot_friendly_generator_function(f)); the wrapper is the monitored object",
               "'started' means the first resumption of the generator"]
BATCH = 100


def plan(tier, seed):
    n = 30000 if tier == "quick" else 300000
    return [{"seed": seed, "lo": i, "hi": min(n, i + BATCH)} for i in range(0, n, BATCH)]


# --------------------------------------------------------------------------- body generation

CATCH = {"Exception": Exception, "UserError": excs.UserError, "GeneratorExit": GeneratorExit, "BaseException": BaseException}
THROWABLE = ["UserError", "ValueError", "GeneratorExit", "GenExitSub", "KeyboardInterrupt", "DeepUserError"]


def _raise_it(e):
    """Where thrown-in exceptions are first raised: this frame is part of their traceback."""
    raise e


def _origin(e):
    """Does the exception's traceback still show where it was first raised?"""
    import traceback as _tb
    try:
        return any(fs.name == "_raise_it" for fs in _tb.extract_tb(e.__traceback__))
    except BaseException:
        return None


class GenExitSub(GeneratorExit):
    pass


EXC = dict(excs.POOL, GenExitSub=GenExitSub)


class IdGen(object):
    def __init__(self):
        self.n = 0

    def __call__(self):
        self.n += 1
        return self.n


def gen_ops(rng, ids, depth, budget):
    ops = []
    for _ in range(rng.randint(1, 4)):
        if budget[0] <= 0:
            break
        budget[0] -= 1
        r = rng.random()
        if r < 0.4:
            op = {"k": "yield", "val": ids()}
            if rng.random() < 0.4:
                op["catch"] = rng.choice(list(CATCH))
                op["then"] = rng.choice(["continue", "continue", "reraise", "return", "raise_other"])
            ops.append(op)
        elif r < 0.6 and depth < 3:
            ops.append({"k": "act", "nid": ids(), "children": gen_ops(rng, ids, depth + 1, budget)})
        elif r < 0.75:
            ops.append({"k": "log", "nid": ids()})
        elif r < 0.87 and depth < 2:
            ops.append({"k": "sub", "how": rng.choice(["yield_from", "iterate"]), "decorated": rng.random() < 0.7,
                        "body": gen_ops(rng, ids, depth + 1, budget), "ret": ids()})
        elif r < 0.9 and depth < 2:
            # two nested decorated generators driven alternately, by hand, from inside this generator
            ops.append({"k": "inter", "bodies": [gen_ops(rng, ids, depth + 1, budget), gen_ops(rng, ids, depth + 1, budget)], "ret": ids()})
        elif r < 0.94:
            ops.append({"k": "return", "val": ids()})
            break
        else:
            ops.append({"k": "raise", "exc": rng.choice(["UserError", "ValueError", "KeyError"])})
            break
    return ops


class _Null(object):
    def __enter__(self):
        return self

    def __exit__(self, *a):
        return None


class Mon(object):
    had_tb = ()

    def __init__(self, decorated):
        self.had_tb = set()
        self._init(decorated)

    def _init(self, decorated):
        self.decorated = decorated
        self.trace = []
        self.problems = []
        self.probes = 0
        self.parent_of = {}  # nid -> parent nid or None
        self.action_nid = {}  # id(action) -> nid
        self.sent = {}

    def nid_of(self, action):
        if action is None:
            return None
        return self.action_nid.get(id(action), "?")

    def probe(self, expected, where):
        if not self.decorated:
            return
        self.probes += 1
        got = current_action()
        if got is not expected:
            if len(self.problems) < 6:
                self.problems.append("%s: current_action() is action nid %r, the generator's own context is nid %r" % (where, self.nid_of(got), self.nid_of(expected)))


def _yielded(val):
    """What a generator yields for op value `val`: mostly a plain tuple; sometimes an exception instance as ordinary data (a source
    reporting "exhausted" with the StopIteration it caught, a GeneratorExit/error object passed along), which is a value like any other."""
    if isinstance(val, int) and val % 6 == 1:
        k = (val // 6) % 4
        if k == 0:
            return StopIteration(("carried", val))
        if k == 1:
            return StopIteration()
        if k == 2:
            return GeneratorExit("as data %d" % val)
        return KeyError("as data %d" % val)
    return ("y", val)


def _norm_out(out):
    if isinstance(out, BaseException):
        return ("exception instance yielded as data", type(out).__name__, repr(out.args))
    return out


def make_genfunc(ops, mon, label, decorated, ret=None):
    """Build the generator function for `ops`. Its shadow stack starts with the action current at first resumption."""

    def run_ops(ops, stack):
        for op in ops:
            k = op["k"]
            if k == "yield":
                try:
                    got = yield _yielded(op["val"])
                    mon.trace.append((label, "recv", mon.sent.get(id(got), got) if isinstance(got, BaseException) else got))
                except BaseException as e:
                    cls = CATCH.get(op.get("catch"))
                    if cls is None or not isinstance(e, cls):
                        mon.probe(stack[-1], "%s after a throw at yield %s" % (label, op["val"]))
                        raise
                    mon.trace.append((label, "caught", mon.sent.get(id(e), type(e).__name__), _origin(e) if id(e) in mon.had_tb else None))
                    mon.probe(stack[-1], "%s after catching at yield %s" % (label, op["val"]))
                    then = op["then"]
                    if then == "reraise":
                        raise
                    if then == "return":
                        return ("r", op["val"])
                    if then == "raise_other":
                        raise excs.MidUserError("other %s" % op["val"])
                import sys as _sys
                # outside any handler of its own, a generator that was resumed normally (or has dealt with what was thrown in) sees
                # no exception in flight
                mon.trace.append((label, "exception in flight after yield", _sys.exc_info()[0] is not None))
                mon.probe(stack[-1], "%s after resuming from yield %s" % (label, op["val"]))
            elif k == "act":
                parent = stack[-1]
                # the undecorated reference run only provides the transparency trace: it must not touch eliot's context, since a
                # plain generator holding an action across a yield is the documented anti-pattern the decorator exists for
                with (start_action(action_type="gen:act", nid=op["nid"]) if mon.decorated else _Null()) as a:
                    mon.action_nid[id(a)] = op["nid"]
                    mon.parent_of[op["nid"]] = mon.nid_of(parent)
                    stack.append(a)
                    try:
                        mon.probe(a, "%s inside action %s" % (label, op["nid"]))
                        r = yield from run_ops(op["children"], stack)
                        if r is not None:
                            return r
                    finally:
                        stack.pop()
                mon.probe(stack[-1], "%s after leaving action %s" % (label, op["nid"]))
            elif k == "log":
                mon.parent_of[op["nid"]] = mon.nid_of(stack[-1])
                if mon.decorated:
                    log_message(message_type="gen:msg", nid=op["nid"])
            elif k == "sub":
                subf = make_genfunc(op["body"], mon, "%s.sub%s" % (label, op["ret"]), op["decorated"], ret=op["ret"])
                # a plain sub-generator shares this generator's context; a decorated one starts from it
                subf._shadow_base = stack[-1]
                if op["how"] == "yield_from":
                    r = yield from subf()
                    mon.trace.append((label, "subreturn", r))
                else:
                    it = subf()
                    try:
                        for item in it:
                            # driving a nested DECORATED generator must not change this generator's own current action
                            # (a plain nested generator shares this generator's context by design)
                            if op["decorated"]:
                                mon.probe(stack[-1], "%s after resuming a nested generator" % label)
                            yield item
                    finally:
                        it.close()  # deterministic finalisation (otherwise it depends on when the collector frees it)
                mon.probe(stack[-1], "%s after sub-generator" % label)
            elif k == "inter":
                subs = [make_genfunc(b, mon, "%s.i%s_%d" % (label, op["ret"], j), True, ret=None) for j, b in enumerate(op["bodies"])]
                for sf in subs:
                    sf._shadow_base = stack[-1]
                its = [sf() for sf in subs]
                live = list(its)
                try:
                    while live:
                        for it in list(live):
                            try:
                                item = next(it)
                            except StopIteration:
                                live.remove(it)
                                continue
                            mon.probe(stack[-1], "%s after resuming one of two interleaved nested generators" % label)
                            yield item
                            mon.probe(stack[-1], "%s between interleaved nested generators" % label)
                finally:
                    # close every nested generator deterministically even if closing one of them raises
                    err = None
                    for it in its:
                        try:
                            it.close()
                        except BaseException as e:
                            if err is None:
                                err = e
                    if err is not None:
                        raise err
            elif k == "return":
                return ("r", op["val"])
            elif k == "raise":
                e = EXC[op["exc"]]("from %s" % label)
                mon.sent[id(e)] = "raised-by-%s" % label
                mon._keep = getattr(mon, "_keep", []) + [e]
                mon.last_raised = e
                raise e
        return None

    def body():
        base = current_action()
        if mon.decorated:
            exp = getattr(body, "_expected_base", "unset")
            if exp != "unset" and base is not exp:
                mon.problems.append("%s: at first resumption current_action() is nid %r, the driver's action was nid %r" % (label, mon.nid_of(base), mon.nid_of(exp)))
        stack = [base]
        r = yield from run_ops(ops, stack)
        epi = getattr(body, "_epilogue", None)
        if r is None and epi is not None:
            # a yield written directly in the generator function (no `yield from` in between, which treats a thrown GeneratorExit
            # specially): what is thrown in here can be caught and answered with a return value or with another yield
            try:
                got = yield ("y", epi["val"])
                mon.trace.append((label, "recv", mon.sent.get(id(got), got) if isinstance(got, BaseException) else got))
            except BaseException as e:
                cls = CATCH.get(epi.get("catch"))
                if cls is None or not isinstance(e, cls):
                    raise
                mon.trace.append((label, "caught", mon.sent.get(id(e), type(e).__name__), _origin(e) if id(e) in mon.had_tb else None))
                mon.probe(base, "%s after catching at its last yield" % label)
                if epi["then"] == "reraise":
                    raise
                if epi["then"] == "return":
                    return ("r", epi["val"])
                if epi["then"] == "raise_other":
                    raise excs.MidUserError("other %s" % epi["val"])
                got = yield ("y2", epi["val"])
                mon.trace.append((label, "recv", mon.sent.get(id(got), got) if isinstance(got, BaseException) else got))
            mon.probe(base, "%s after its last yield" % label)
        mon.probe(base, "%s before returning" % label)
        if r is None and ret is not None:
            return ("r", ret)
        return r

    if decorated and mon.decorated:
        # what gets decorated is a generator function, or something that merely returns its generator: a functools.wraps pass-through
        # around it, an object whose __call__ does, a lambda
        kind = sum(map(ord, label)) % 4
        if kind == 1:
            import functools

            @functools.wraps(body)
            def target(*a, **kw):
                return body(*a, **kw)
        elif kind == 2:
            class _Factory(object):
                def __call__(self):
                    return body()
            target = _Factory()
        elif kind == 3:
            target = lambda: body()  # noqa: E731
        else:
            target = body
        wrapped = eliot_friendly_generator_function(target)

        def starter():
            # for nested decorated sub-generators the expected base is the enclosing generator's current top
            body._expected_base = getattr(starter, "_shadow_base", "unset")
            return wrapped()
        starter._body = body
        return starter

    def plain():
        return body()
    plain._body = body
    return plain


# --------------------------------------------------------------------------- one execution (decorated or not)


def execute(bodies, script, decorated, tape, create_ctxs=None, epilogues=None):
    mon = Mon(decorated)
    drv = []
    # surrounding driver actions
    for j in range(3):
        a = start_action(action_type="driver", nid=1000 + j)
        mon.action_nid[id(a)] = 1000 + j
        drv.append(a)
    gens = []
    funcs = []
    for gi, ops in enumerate(bodies):
        f = make_genfunc(ops, mon, "g%d" % gi, True)
        f._body._epilogue = epilogues[gi] if epilogues else None
        funcs.append(f)
        # the generator object may be created inside one action and first resumed inside another: what counts is the first resumption
        where = create_ctxs[gi] if create_ctxs else None
        gens.append(f() if where is None else drv[where].run(f))
    started = [False] * len(gens)
    sent_objs = {}

    def step(st):
        gi = st["g"]
        g = gens[gi]
        before = current_action()
        if not started[gi] and st["op"] == "next":  # send(non-None) to a just-created generator raises without running it
            funcs[gi]._body._expected_base = before
            started[gi] = True
        ev = None
        try:
            with warnings.catch_warnings():
                # (a third of the cases run with warnings turned into errors, as under python -W error)
                warnings.simplefilter("error" if STRICT_WARNINGS[0] else "ignore")
                if st["op"] == "next":
                    out = next(g)
                    ev = ("yielded", _norm_out(out))
                elif st["op"] == "send":
                    v = ("v", st["val"])
                    if st["val"] % 5 == 0:
                        # an exception instance sent as ordinary data must arrive as data, not be raised
                        v = ValueError("sent as data %d" % st["val"])
                        mon.sent[id(v)] = "data-exception-%d" % st["val"]
                        sent_objs[st["val"]] = v
                    out = g.send(v)
                    ev = ("yielded", _norm_out(out))
                elif st["op"] == "throw":
                    e = EXC[st["exc"]]("thrown %d" % st["val"])
                    mon.sent[id(e)] = "thrown-%d" % st["val"]
                    sent_objs[st["val"]] = e
                    if st["val"] % 2:
                        # an exception that was raised and caught elsewhere before being thrown in carries its traceback along
                        try:
                            _raise_it(e)
                        except BaseException:
                            pass
                        mon.had_tb.add(id(e))
                    out = g.throw(e)
                    ev = ("yielded", _norm_out(out))
                else:
                    g.close()
                    ev = ("closed",)
        except StopIteration as e:
            ev = ("stop", e.value)
        except BaseException as e:
            tag = mon.sent.get(id(e))
            if tag is None:
                tag = "foreign:" + type(e).__name__ + ":" + str(e)[:60]
            ctx = e.__context__
            ev = ("raised", tag, _origin(e) if id(e) in mon.had_tb else None,
                  None if ctx is None else mon.sent.get(id(ctx), "foreign:" + type(ctx).__name__))
        mon.trace.append(("driver", gi, st["op"], ev))
        mon.probes += 1
        if decorated and current_action() is not before:
            mon.problems.append("driver: after %s on g%d current_action() is nid %r, it was nid %r" % (st["op"], gi, mon.nid_of(current_action()), mon.nid_of(before)))

    for st in script:
        where = st["ctx"]
        if st["op"] == "finish_ctx":
            # a surrounding driver action ends while generators started inside it are suspended; they are resumed later on
            drv[where].finish()
            continue
        fn = (lambda st=st: step(st))
        if st.get("thread"):
            target = fn if where is None else (lambda fn=fn, where=where: drv[where].run(fn))
            t = threading.Thread(target=target)
            t.start()
            t.join()
        elif where is None:
            fn()
        else:
            drv[where].run(fn)
    for g in gens:
        try:
            g.close()
        except BaseException:
            pass
    for a in drv:
        a.finish()
    return mon


STRICT_WARNINGS = [False]


def one(seed, i, res):
    rng = random.Random("%s:C15:%d" % (seed, i))
    STRICT_WARNINGS[0] = i % 3 == 0
    ids = IdGen()
    ngen = rng.choice([1, 1, 2, 3, 4])
    bodies = [gen_ops(rng, ids, 0, [rng.choice([4, 8, 14])]) for _ in range(ngen)]
    script = []
    for s in range(rng.randint(3, 24)):
        r = rng.random()
        st = {"g": rng.randrange(ngen), "ctx": rng.choice([None, 0, 1, 2]), "thread": rng.random() < 0.15, "val": 5000 + s}
        if r < 0.06:
            st["op"] = "finish_ctx"
            st["ctx"] = rng.choice([0, 1, 2])
            st["thread"] = False
        elif r < 0.5:
            st["op"] = "next"
        elif r < 0.72:
            st["op"] = "send"
        elif r < 0.9:
            st["op"] = "throw"
            st["exc"] = rng.choice(THROWABLE)
        else:
            st["op"] = "close"
        script.append(st)
    tape = Tape()
    rec = Recorder(tape, "rec")
    add_destinations(rec)
    try:
        create_ctxs = [rng.choice([None, None, 0, 1, 2]) for _ in range(ngen)]
        epilogues = [({"val": ids(), "catch": rng.choice(list(CATCH) + [None]), "then": rng.choice(["continue", "return", "return", "reraise", "raise_other"])}
                      if rng.random() < 0.5 else None) for _ in range(ngen)]
        mon_u = execute(bodies, script, False, tape, create_ctxs, epilogues)
        mark = len(tape.entries)
        mon_d = execute(bodies, script, True, tape, create_ctxs, epilogues)
    finally:
        remove_destination(rec)
    problems = list(mon_d.problems)
    # ---- transparency differential
    tu, td = mon_u.trace, mon_d.trace
    if tu != td:
        j = next((k for k in range(min(len(tu), len(td))) if tu[k] != td[k]), min(len(tu), len(td)))
        problems.append("decorated generator is not transparent: event %d is %r, undecorated gives %r" % (
            j, td[j] if j < len(td) else None, tu[j] if j < len(tu) else None))
    # ---- tape: every in-generator action / message under its shadow parent
    msgs = [e["m"] for e in tape.entries[mark:] if e["k"] == "msg"]
    where = {}
    for m in msgs:
        nid = m.get("nid")
        if nid is None:
            continue
        if m.get("action_status") == "started":
            where[nid] = (m["task_uuid"], m["task_level"][:-1], "action")
        elif "message_type" in m:
            where[nid] = (m["task_uuid"], m["task_level"], "message")
    for nid, parent in mon_d.parent_of.items():
        if nid not in where:
            problems.append("node %s was executed but is not on the tape" % nid)
            continue
        uuid, lvl, kind = where[nid]
        own_parent_level = lvl[:-1]
        if parent is None:
            if own_parent_level != [] and not (kind == "message" and lvl == [1]):
                problems.append("node %s ran with no current action but was logged at %s" % (nid, lvl))
        elif parent == "?":
            pass
        else:
            if parent not in where:
                problems.append("parent %s of node %s is not on the tape" % (parent, nid))
                continue
            puuid, plvl, _ = where[parent]
            if uuid != puuid or own_parent_level != plvl:
                problems.append("node %s was logged under %s%s, its generator context is action nid %s at %s%s" % (nid, uuid[:6], own_parent_level, parent, puuid[:6], plvl))
    res["evals"] += 1
    c = res["counters"]
    c["context_probes"] = c.get("context_probes", 0) + mon_d.probes
    c["driver_steps"] = c.get("driver_steps", 0) + len(script)
    c["trace_events_compared"] = c.get("trace_events_compared", 0) + len(td)
    for st in script:
        d = c.setdefault("ops", {})
        d[st["op"]] = d.get(st["op"], 0) + 1
    kinds = set(ev[3][0] for ev in td if ev[0] == "driver")
    for k in kinds:
        res["sets"]["step_outcomes"].append(k)
    has_act = any(op["k"] in ("act", "sub", "inter") for b in bodies for op in b)
    ctxs = set(st["ctx"] for st in script)
    if has_act and (len(ctxs) >= 2 or any(st["op"] in ("throw", "close") for st in script)):
        res["nontrivial"].append(h([bodies, script]))
    if res.get("sample") is None and len(script) <= 8:
        res["sample"] = {"bodies": bodies, "script": script, "trace": td[:20]}
    mech = None
    if problems:
        res["violations"].append({"msg": problems[0], "mech": mech, "detail": {"case": i, "problems": problems[:6], "bodies": bodies, "script": script}})


def run_case(spec):
    import sys
    sys.unraisablehook = lambda *a: None  # abandoned generators finalised by the collector may raise; irrelevant here
    res = {"evals": 0, "nontrivial": [], "counters": {}, "violations": [], "sample": None, "sets": {"step_outcomes": []}}
    for i in range(spec["lo"], spec["hi"]):
        one(spec["seed"], i, res)
    return res


def finalize(agg, tier):
    c = agg["counters"]
    if c.get("context_probes", 0) < 5000:
        return "fewer than 5000 context probes"
    need = {"yielded", "stop", "raised", "closed"}
    if not need <= set(agg["sets"].get("step_outcomes", {})):
        return "not every step outcome kind was observed"
    return None
