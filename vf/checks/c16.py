"""C16 - loggers are safe under concurrent use (invariant under the logger's own lock + final-state alignment + torn-line checker)."""

from vf import sched

sched.install()  # before eliot is imported

import itertools
import json
import os
import random
import sys
import tempfile
import threading

import eliot
from eliot import Field, FileDestination, MemoryLogger, MessageType, write_traceback
from eliot import _output

from vf import excs
from vf.runner import h

ID = "C16"
LEVEL = "exploration"
RULE = ("part 'memory': 2-4 threads run short op lists (write with the thread's own serializer and tag, write_traceback, validate, "
        "serialize, flush_tracebacks, reset) on one MemoryLogger under the line-granular scheduler with LINE events on eliot/_output.py: "
        "for every priority order ALL schedules with one preemption at any statement boundary, plus sampled 2-3-preemption schedules. "
        "Oracle: at every release of the logger's own lock len(messages)==len(serializers) and every tracebackMessages entry is in "
        "messages; finally messages[i]/serializers[i] carry the same writer tag, each thread's retained messages are a suffix of what "
        "it wrote in order, serialize() results are aligned, no traceback is flushed twice, no call raised. part 'filesched': two or "
        "three threads call one FileDestination (recording file) under all 1-preemption schedules: every write is one complete line. "
        "Every eighth op-list set has one thread parked inside write() by an arbitrarily slow serializer (logical clock thread; a timed lock "
        "acquire in the code under test expires only when nothing else can run) or has serializers raising a non-Exception in the middle of write(). "
        "part 'loggersched': two threads make the first-ever writes of one MessageType through the production Logger to a registered "
        "destination while (odd cases) a third adds global fields, LINE events on _output.py and _validation.py, all 1-preemption schedules: each "
        "message delivered exactly once with every field serialized, nothing raised, nothing else delivered. part 'lockorder': a destination taking an application lock, one thread logging while it holds that lock, 1-2 others logging: "
        "no schedule deadlocks (the library holds no lock of its own around destination calls). part 'twodefaults' (fresh interpreter without orjson, so eliot encodes with the standard library's json as on PyPy): two "
        "FileDestinations with different json_default functions, one thread each, LINE events on eliot/json.py too, all 1-preemption schedules: every "
        "line is encoded by its own destination's default. part 'filestress': 8-16 OS-scheduled threads (switch interval 1e-6) write to one real file (buffered, unbuffered, text): "
        "every line one JSON object, multiset of (thread, seq) == written (per-thread order additionally for binary files). non-trivial = schedule whose "
        "preemption fired inside MemoryLogger/FileDestination code; distinct by interleaving hash. part 'rawthreads': the concurrent callers are threads "
        "started with _thread.start_new_thread (unknown to the threading module, like threads of a C extension or an embedding host) while the main "
        "thread idles: for every ordered pair of write / write_traceback / reset / validate / serialize / flush_tracebacks and every LINE event k in "
        "eliot/_output.py of A's call, A is parked after k (harness-side sys.settrace hook) and B makes its call; A goes on when B has returned or "
        "sits in a lock acquire; afterwards the same final-state oracle (pairing by writer tag, nothing lost or duplicated unless reset() was called, "
        "traceback list consistent with messages and flush results, serialize() aligned). part 'pipestress': one FileDestination on the write end of "
        "an OS pipe (buffered with lines several times the pipe's capacity; unbuffered with lines below PIPE_BUF), 3-5 threads, the reader starts "
        "draining in small pieces once the pipe is full: every line read is one complete message with its own padding, each (thread, seq) exactly once, per-thread order kept. "
        "part 'twologgers': two MemoryLoggers A and B in one schedule; a field serializer of a message written to A (or A's json_default) itself logs a message or a "
        "traceback to B while 1-2 other threads call B.write / write_traceback(B) / B.reset / B.flush_tracebacks / B.serialize / B.validate (and A); all "
        "1-preemption schedules for every priority order plus sampled 2-3-preemption ones; the invariant is evaluated at every release of EITHER logger's "
        "lock and the final-state oracle (pairing by writer tag, nothing lost or duplicated unless that logger was reset, traceback list consistent, "
        "serialize() aligned, no call raised) is applied to both loggers. part 'sigwait' (real OS threads, real locks, real signals; the forked child's "
        "main thread): a worker thread is parked inside write() / validate() / serialize() by a serializer waiting for an event, the main thread calls "
        "another method of the same logger and waits, a signal whose handler raises (SIGALRM from setitimer -> an application exception; SIGINT from "
        "pthread_kill or os.kill -> KeyboardInterrupt) arrives 50 ms later, the application catches it, a third thread calls the logger, then the worker "
        "is let go: no call other than the interrupted one raises, the final-state oracle holds, and when the interrupted call was a write() the third "
        "thread's write() does not take effect before the worker has left (scenarios in which the signal did not find the main thread waiting for the lock are counted, not judged)")
ASSUMPTIONS = ["switch points are statement boundaries and blocking primitives (CPython granularity)"]
EXHAUSTIVE_NOTE = "all one-preemption schedules (every priority order x every statement boundary) of each generated op list"
CASE_TIMEOUT = 900

OPS = ["write", "write", "write", "tb", "validate", "serialize", "flush", "reset"]


def plan(tier, seed):
    n = 32 if tier == "quick" else 400
    specs = [{"part": "memory", "seed": seed, "i": i, "tier": tier} for i in range(n)]
    # validate() against serialize(): ALL schedules with one preemption in each of the two threads, split over several specs
    nch = 8 if tier == "quick" else 16
    specs += [{"part": "memory2p", "seed": seed, "i": j, "tier": tier, "chunk": j, "nchunks": nch} for j in range(nch)]
    specs += [{"part": "filesched", "seed": seed, "i": i, "tier": tier} for i in range(8 if tier == "quick" else 60)]
    specs += [{"part": "loggersched", "seed": seed, "i": i, "tier": tier} for i in range(6 if tier == "quick" else 48)]
    specs += [{"part": "lockorder", "seed": seed, "i": i, "tier": tier} for i in range(2 if tier == "quick" else 4)]
    specs += [{"part": "twodefaults", "seed": seed, "i": 0, "tier": tier, "interpreter": "no_orjson"}]
    specs += [{"part": "filestress", "seed": seed, "i": i, "tier": tier} for i in range(6 if tier == "quick" else 36)]
    nraw = 4 if tier == "quick" else 11
    specs += [{"part": "rawthreads", "seed": seed, "i": j, "tier": tier, "chunk": j, "nchunks": nraw} for j in range(nraw)]
    specs += [{"part": "pipestress", "seed": seed, "i": i, "tier": tier} for i in range(3 if tier == "quick" else 9)]
    specs += [{"part": "twologgers", "seed": seed, "i": i, "tier": tier} for i in range(6 if tier == "quick" else 40)]
    specs += [{"part": "sigwait", "seed": seed, "i": i, "tier": tier} for i in range(3 if tier == "quick" else 12)]
    return specs


# --------------------------------------------------------------------------- memory logger


class Flushable(Exception):
    pass


def make_serializer(tag):
    mt = MessageType("w%d" % tag, [Field("seq", (lambda v, tag=tag: "t%d:%s" % (tag, v)), ""), Field("b", (lambda v, tag=tag: "t%d:%s" % (tag, v)), ""),
                                   Field.for_types("tag", [int], "")], "")
    return mt._serializer


class WorkerShutdown(BaseException):
    """Not an Exception: what a worker thread being shut down (SystemExit, KeyboardInterrupt) sees inside a serializer."""


def memory_run(plan_, nthreads, oplists, counters):
    logger = MemoryLogger()
    sers = [make_serializer(t) for t in range(nthreads)]
    release = [not any("write_slow" in o for o in oplists)]

    def slow(v):
        # a serializer that takes arbitrarily long (the 'clock' thread K, whose sleep outlasts every timeout in the code under test,
        # lets it go on): it runs inside the logger's lock, everybody else has to wait however long it takes
        if not release[0]:
            sched.wait_until(lambda: release[0])
        return "slow:%s" % (v,)

    def dying(v):
        raise WorkerShutdown("worker shut down inside a serializer")
    slow_ser = MessageType("wslow", [Field("seq", slow, ""), Field("b", slow, ""), Field.for_types("stag", [int], "")], "")._serializer
    dying_ser = MessageType("wdying", [Field("seq", dying, ""), Field("b", dying, ""), Field.for_types("stag", [int], "")], "")._serializer
    special = {100: slow_ser, 200: dying_ser}
    ser_tag = {id(s): t for t, s in enumerate(sers)}
    wrote = [[] for _ in range(nthreads)]
    results = [[] for _ in range(nthreads)]
    hook_problems = []
    hook_hits = [0]

    def hook(lock):
        if not any(v is lock for v in vars(logger).values()):
            return
        hook_hits[0] += 1
        if len(logger.messages) != len(logger.serializers):
            hook_problems.append("under the logger's lock: %d messages but %d serializers" % (len(logger.messages), len(logger.serializers)))
        ids = set(id(m) for m in logger.messages)
        for m in logger.tracebackMessages:
            if id(m) not in ids:
                hook_problems.append("under the logger's lock: a tracebackMessages entry is not in messages")
                break

    def worker(t):
        def run():
            seq = 0
            for op in oplists[t]:
                if op == "write":
                    m = {"tag": t, "seq": seq, "b": seq, "message_type": "w%d" % t, "task_uuid": "u", "task_level": [1], "timestamp": 1.0}
                    logger.write(m, sers[t])
                    wrote[t].append(seq)
                    seq += 1
                elif op == "write_invalid":
                    m = {"tag": t, "message_type": "w%d" % t, "task_uuid": "u", "task_level": [1], "timestamp": 1.0, "seq": seq, "b": seq, "undeclared": object()}
                    logger.write(m, sers[t])
                    wrote[t].append(seq)
                    seq += 1
                elif op == "write_slow":
                    m = {"seq": seq, "b": seq, "stag": 100, "message_type": "wslow", "task_uuid": "u", "task_level": [1], "timestamp": 1.0}
                    logger.write(m, slow_ser)
                    seq += 1
                elif op == "write_base":
                    m = {"seq": seq, "b": seq, "stag": 200, "message_type": "wdying", "task_uuid": "u", "task_level": [1], "timestamp": 1.0}
                    try:
                        logger.write(m, dying_ser)
                    except WorkerShutdown:
                        pass  # travels to the application, as any non-Exception does; the logger must stay consistent
                    seq += 1
                elif op == "tb":
                    try:
                        raise Flushable("t%d" % t)
                    except Flushable:
                        write_traceback(logger)
                    wrote[t].append("tb")
                elif op == "validate":
                    logger.validate()
                elif op == "validate_expect_error":
                    try:
                        logger.validate()
                    except (eliot.ValidationError, TypeError, KeyError):
                        pass  # legitimate verdict on the invalid message
                elif op == "serialize":
                    results[t].append(("serialize", logger.serialize()))
                elif op == "flush":
                    results[t].append(("flush", logger.flush_tracebacks(Flushable)))
                else:
                    logger.reset()
        return run

    sched.RELEASE_HOOKS[:] = [hook]
    workers = {"T%d" % t: worker(t) for t in range(nthreads)}
    if not release[0]:
        def clock():
            sched.sleep()
            release[0] = True
            sched.notify()
        workers["K"] = clock
    try:
        st, errs = sched.run_schedule(plan_, workers, timeout=60.0)
    finally:
        sched.RELEASE_HOOKS[:] = []
    problems = list(hook_problems[:3])
    for n, e in errs.items():
        problems.append("%s: a MemoryLogger call raised %r" % (n, e))
    if st["deadlock"]:
        problems.append("threads deadlocked inside the logger: %s" % st["deadlock"])
        return st, problems, hook_hits[0], False
    if st["aborted"]:
        return st, problems, hook_hits[0], True
    msgs, ss = logger.messages, logger.serializers
    if len(msgs) != len(ss):
        problems.append("finally %d messages but %d serializers" % (len(msgs), len(ss)))
    else:
        per = {}
        for m, s in zip(msgs, ss):
            if "tag" in m:
                if ser_tag.get(id(s)) != m["tag"]:
                    problems.append("message of thread %s is paired with the serializer of thread %s" % (m["tag"], ser_tag.get(id(s))))
                    break
                seq = m["seq"]
                if isinstance(seq, str):  # serialized in place by validate()
                    seq = int(seq.rsplit(":", 1)[1])
                per.setdefault(m["tag"], []).append(seq)
            elif "stag" in m:
                if s is not special.get(m["stag"]):
                    problems.append("a message is paired with another message's serializer")
            elif s is not eliot._traceback.TRACEBACK_MESSAGE._serializer:
                problems.append("traceback message paired with a foreign serializer")
        for t, seqs in per.items():
            plain = [x for x in wrote[t] if x != "tb"]
            if seqs and (seqs != plain[len(plain) - len(seqs):]):
                problems.append("thread %d wrote %s, logger retains %s (not a suffix: lost or re-ordered)" % (t, plain, seqs))
    tb_ids = set(id(m) for m in logger.tracebackMessages)
    if not tb_ids <= set(id(m) for m in msgs):
        problems.append("finally a tracebackMessages entry is not in messages")
    flushed = []
    for t in range(nthreads):
        for kind, r in results[t]:
            if kind == "serialize":
                for d in r:
                    if "tag" in d and (not str(d["seq"]).startswith("t%d:" % d["tag"]) or d["message_type"] != "w%d" % d["tag"]):
                        problems.append("serialize() applied the wrong serializer: %r" % (d,))
                        break
                    if "tag" in d and str(d["seq"]).count("t%d:" % d["tag"]) != str(d.get("b")).count("t%d:" % d["tag"]):
                        problems.append("serialize() returned a torn message (fields serialized a different number of times): %r" % (
                            {k: d.get(k) for k in ("tag", "seq", "b")},))
                        break
            else:
                flushed.extend(id(m) for m in r)
    if len(flushed) != len(set(flushed)):
        problems.append("a traceback message was returned by two flush_tracebacks calls")
    if set(flushed) & tb_ids:
        problems.append("a flushed traceback is still listed as unflushed")
    return st, problems, hook_hits[0], False


def run_memory2p(spec, res):
    """Two threads: A writes a message and calls serialize(); B calls validate() (in-place serialization, field by field).
    Every schedule with one preemption of A and one of B is executed."""
    nthreads = 2
    oplists = [["write", "serialize"], ["validate"]]
    c = res["counters"]
    order = ["T0", "T1"]
    st, problems, hits, aborted = memory_run({"order": order, "changes": []}, nthreads, oplists, c)
    ev = st["events"]
    plans = [{"order": order, "changes": [["T0", k0], ["T1", k1]]} for k0 in range(1, ev.get("T0", 0) + 1) for k1 in range(1, ev.get("T1", 0) + 1)]
    for j, p in enumerate(plans):
        if j % spec["nchunks"] != spec["chunk"]:
            continue
        st, problems, hits, aborted = memory_run(p, nthreads, oplists, c)
        res["evals"] += 1
        c["schedules_run"] = c.get("schedules_run", 0) + 1
        c["two_preemption_schedules_validate_vs_serialize"] = c.get("two_preemption_schedules_validate_vs_serialize", 0) + 1
        c["lock_hook_entries"] = c.get("lock_hook_entries", 0) + hits
        res["sets"]["interleavings"].append(sched.trace_hash(st))
        if len(st["fired"]) == 2:
            res["nontrivial"].append(sched.trace_hash(st))
        for nm, k, loc in st["fired"]:
            res["sets"]["preemption_lines"].append(loc)
        if aborted:
            res["inconclusive"] = "schedule abandoned: %s" % st["aborted"]
        if problems and len(res["violations"]) < 3:
            res["violations"].append({"msg": problems[0], "mech": None, "detail": {"part": "memory2p", "oplists": oplists, "plan": p, "problems": problems[:5]}})
            if len(res["violations"]) >= 3:
                return


def run_memory(spec, res):
    rng = random.Random("%s:C16:m:%d" % (spec["seed"], spec["i"]))
    MemoryLogger()  # the process owns further MemoryLogger objects, the first of which is never written to (each logger has a lock of its own)
    nthreads = rng.choice([2, 2, 3, 3, 4])
    # validate() serializes the stored messages in place (documented), so it is not idempotent and a serialized traceback
    # message cannot be serialized again: a run has either traceback ops or a single validate() call, never both
    r0 = rng.random()
    if r0 < 0.15:
        # validate() (which serializes the stored messages in place, field by field) against concurrent serialize() calls on a
        # logger that already holds messages
        oplists = [["write", "write", "validate"], ["write", "serialize", "serialize"]] + [["serialize", "write"]] * (nthreads - 2)
        r0 = 2.0
    slow_case = spec["i"] % 8 == 5
    if slow_case:
        # one thread sits inside write() for arbitrarily long (slow serializer, logical clock): the others must wait for it
        oplists = [["write_slow"], rng.choice([["write", "serialize"], ["write", "write"], ["write", "reset"], ["serialize", "write"]])] + [["write"]] * (nthreads - 2)
        r0 = 2.0
    elif spec["i"] % 8 == 6:
        # a non-Exception escaping a serializer in the middle of write(): the logger must stay consistent for everybody else
        pool = ["write", "write_base", "write_base", "serialize", "reset"]
        oplists = [[rng.choice(pool) for _ in range(rng.randint(1, 3))] for _ in range(nthreads)]
        oplists[0][0] = "write_base"
        oplists[-1].append("write")
        r0 = 2.0
    if r0 == 2.0:
        pass
    elif r0 < 0.12 + 0.15:
        # a validate() that is expected to raise (an invalid message was written) must leave the logger usable for everybody
        pool = ["write", "write_invalid", "validate_expect_error", "reset", "write"]
        oplists = [[rng.choice(pool) for _ in range(rng.randint(2, 3))] for _ in range(nthreads)]
        oplists[0][0] = "write_invalid"
        oplists[-1][0] = "validate_expect_error"
    elif r0 < 0.3 + 0.15:
        # messages that fail validation at write time take the error-recording path of write(); serialize()/validate() would
        # legitimately raise for them, so those ops are left out of such runs
        pool = ["write", "write_invalid", "write_invalid", "tb", "flush", "reset"]
        oplists = [[rng.choice(pool) for _ in range(rng.randint(1, 3))] for _ in range(nthreads)]
    elif r0 < 0.6 + 0.15:
        pool = [o for o in OPS if o != "validate"]
        oplists = [[rng.choice(pool) for _ in range(rng.randint(1, 3))] for _ in range(nthreads)]
    else:
        pool = [o for o in OPS if o not in ("validate", "tb", "flush")]
        oplists = [[rng.choice(pool) for _ in range(rng.randint(1, 3))] for _ in range(nthreads)]
        t = rng.randrange(nthreads)
        oplists[t][rng.randrange(len(oplists[t]))] = "validate"
    if not any(("write" in o or "write_invalid" in o) for o in oplists):
        oplists[(0 if "validate" not in oplists[0] or len(oplists[0]) > 1 else 1) % nthreads].append("write")
    names = ["T%d" % t for t in range(nthreads)]
    orders = list(itertools.permutations(names)) if nthreads <= 3 else [tuple(rng.sample(names, nthreads)) for _ in range(6)]
    if slow_case:
        orders = [tuple(o) + ("K",) for o in orders]  # the clock has the lowest priority
        names = names + ["K"]
    c = res["counters"]
    if slow_case:
        c["oplists_with_a_slow_lock_holder"] = c.get("oplists_with_a_slow_lock_holder", 0) + 1
    if any("write_base" in o for o in oplists):
        c["oplists_with_a_non_exception_inside_write"] = c.get("oplists_with_a_non_exception_inside_write", 0) + 1
    inside = 0

    def execute(plan_, label):
        nonlocal inside
        st, problems, hits, aborted = memory_run(plan_, nthreads, oplists, c)
        res["evals"] += 1
        c["schedules_run"] = c.get("schedules_run", 0) + 1
        c["lock_hook_entries"] = c.get("lock_hook_entries", 0) + hits
        c["scheduler_steps"] = c.get("scheduler_steps", 0) + st["steps"]
        res["sets"]["interleavings"].append(sched.trace_hash(st))
        for nm, k, loc in st["fired"]:
            res["sets"]["preemption_lines"].append(loc)
            inside += 1
        if st["fired"]:
            res["nontrivial"].append(sched.trace_hash(st))
        if aborted:
            res["inconclusive"] = "schedule abandoned: %s" % st["aborted"]
        if problems and len(res["violations"]) < 3:
            res["violations"].append({"msg": problems[0], "mech": None,
                                      "detail": {"part": "memory", "oplists": oplists, "plan": plan_, "problems": problems[:5], "label": label}})
        return st

    for order in orders:
        base = execute({"order": list(order), "changes": []}, "baseline")
        for p in sched.one_preemption_plans(list(order), base["events"]):
            execute(p, "1-preemption")
            if len(res["violations"]) >= 3:
                return
    nsample = 40 if spec["tier"] == "quick" else 400
    base_events = base["events"]
    for p in sched.sampled_plans(rng, names, base_events, nsample):
        execute(p, "sampled")
    c["oplists_explored_exhaustively_1p"] = c.get("oplists_explored_exhaustively_1p", 0) + 1
    if spec["i"] % 12 == 0:
        res["sample"] = {"part": "memory", "threads": nthreads, "oplists": oplists, "baseline_events": base_events, "example_trace": base["trace"][:12]}


# --------------------------------------------------------------------------- file destination under the scheduler


class SharedRecordingFile(object):
    def __init__(self):
        self.ops = []

    def write(self, data):
        if not isinstance(data, bytes):
            raise TypeError("bytes required")
        self.ops.append(("write", data))

    def flush(self):
        self.ops.append(("flush", None))


def check_lines(chunks, expected, problems, require_order=True):
    """chunks: the data in the order it reached the file; expected: {thread: [seq...]} written."""
    data = b"".join(chunks)
    lines = data.split(b"\n")
    if lines[-1] != b"":
        problems.append("file does not end with a newline (torn tail %r)" % lines[-1][:60])
    got = {}
    for ln in lines[:-1]:
        try:
            m = json.loads(ln.decode("utf-8"))
            if not isinstance(m, dict):
                raise ValueError("not an object")
        except Exception as e:
            problems.append("torn or merged line %r (%r)" % (ln[:80], e))
            return
        got.setdefault(m["t"], []).append(m["seq"])
    for t, seqs in expected.items():
        g = got.get(t, [])
        if sorted(g) != sorted(seqs):
            missing = sorted(set(seqs) - set(g))
            dup = sorted(x for x in set(g) if g.count(x) > 1)
            problems.append("thread %s wrote %d lines, file has %d for it: dropped %s, duplicated %s" % (t, len(seqs), len(g), missing[:5], dup[:5]))
            return
        if g != seqs and require_order:
            i = next(i for i in range(len(g)) if g[i] != seqs[i])
            problems.append("thread %s's lines are all present exactly once but out of order in the file: position %d holds seq %s" % (t, i, g[i]))
            return
    for t in got:
        if t not in expected:
            problems.append("line of unknown writer %r" % (t,))


def run_filesched(spec, res):
    rng = random.Random("%s:C16:fs:%d" % (spec["seed"], spec["i"]))
    nthreads = rng.choice([2, 2, 3])
    nmsg = rng.choice([1, 2])
    names = ["T%d" % t for t in range(nthreads)]
    c = res["counters"]

    def execute(plan_):
        f = SharedRecordingFile()
        dest = FileDestination(file=f)

        def worker(t):
            def run():
                for s in range(nmsg):
                    dest({"t": t, "seq": s, "pad": "x" * 20})
            return run
        st, errs = sched.run_schedule(plan_, {"T%d" % t: worker(t) for t in range(nthreads)}, timeout=60.0)
        problems = ["%s raised %r" % (n, e) for n, e in errs.items()]
        writes = [o[1] for o in f.ops if o[0] == "write" and o[1] != b""]
        for w in writes:
            if not w.endswith(b"\n") or b"\n" in w[:-1]:
                problems.append("a write call carried %r, not exactly one complete line" % (w[:60],))
                break
        check_lines(writes, {t: list(range(nmsg)) for t in range(nthreads)}, problems)
        res["evals"] += 1
        c["file_schedules_run"] = c.get("file_schedules_run", 0) + 1
        res["sets"]["interleavings"].append(sched.trace_hash(st))
        for nm, k, loc in st["fired"]:
            res["sets"]["preemption_lines"].append(loc)
        if st["fired"]:
            res["nontrivial"].append(sched.trace_hash(st))
        if st["deadlock"]:
            problems.append("threads deadlocked inside the file destination: %s" % st["deadlock"])
        elif st["aborted"]:
            res["inconclusive"] = "schedule abandoned: %s" % st["aborted"]
        if problems and len(res["violations"]) < 3:
            res["violations"].append({"msg": problems[0], "mech": None, "detail": {"part": "filesched", "plan": plan_, "problems": problems[:5]}})
        return st

    for order in itertools.permutations(names):
        base = execute({"order": list(order), "changes": []})
        for p in sched.one_preemption_plans(list(order), base["events"]):
            execute(p)
    for p in sched.sampled_plans(rng, names, base["events"], 30 if spec["tier"] == "quick" else 300):
        execute(p)


# --------------------------------------------------------------------------- destination and application share a lock


def run_lockorder(spec, res):
    """A destination that takes an application lock (re-entrant), one thread that logs while holding that lock, another that
    just logs: the library holds no lock of its own while it calls destinations, so no schedule deadlocks."""
    from eliot import add_destinations, remove_destination, log_message
    names = ["T0", "T1"] + (["T2"] if spec["i"] % 2 else [])
    c = res["counters"]

    def execute(plan_):
        U = sched.SchedLock(True)
        got = []

        def dest(m):
            with U:
                got.append(m.get("n"))
        add_destinations(dest)

        def holder():
            with U:
                log_message(message_type="lo:m", n="holder-1")
                log_message(message_type="lo:m", n="holder-2")

        def plain(k):
            def run():
                log_message(message_type="lo:m", n="plain-%d" % k)
            return run
        workers = {"T0": holder, "T1": plain(1)}
        if "T2" in names:
            workers["T2"] = plain(2)
        try:
            st, errs = sched.run_schedule(plan_, workers, timeout=60.0)
        finally:
            remove_destination(dest)
        problems = ["%s raised %r" % (n, e) for n, e in errs.items()]
        if st["deadlock"]:
            problems.append("a thread logging while it holds an application lock and a destination that takes that lock deadlocked: %s" % st["deadlock"])
        elif st["aborted"]:
            res["inconclusive"] = "schedule abandoned: %s" % st["aborted"]
        else:
            want = sorted(["holder-1", "holder-2"] + ["plain-%d" % k for k in range(1, len(names))])
            if sorted(got) != want:
                problems.append("delivered %s, logged %s" % (sorted(got), want))
        res["evals"] += 1
        c["lock_order_schedules_run"] = c.get("lock_order_schedules_run", 0) + 1
        res["sets"]["interleavings"].append(sched.trace_hash(st))
        for nm, k, loc in st["fired"]:
            res["sets"]["preemption_lines"].append(loc)
        if st["fired"]:
            res["nontrivial"].append(sched.trace_hash(st))
        if problems and len(res["violations"]) < 3:
            res["violations"].append({"msg": problems[0], "mech": None, "detail": {"part": "lockorder", "plan": plan_, "problems": problems[:4]}})
        return st

    for order in itertools.permutations(names):
        base = execute({"order": list(order), "changes": []})
        for p in sched.one_preemption_plans(list(order), base["events"]):
            execute(p)
            if len(res["violations"]) >= 3:
                return


# --------------------------------------------------------------------------- two encoders at once (interpreter without orjson)


class Wrapped(object):
    def __init__(self, v):
        self.v = v


def run_twodefaults(spec, res):
    """Two file destinations with DIFFERENT json_default functions are written concurrently, one thread each, in an interpreter
    where eliot encodes with the standard library's json (no orjson, as on PyPy); LINE events on eliot/json.py as well: every line
    is encoded with its own destination's default function."""
    import eliot.json as ejson
    if not ("orjson" in sys.modules and sys.modules["orjson"] is None):
        res["inconclusive"] = "not started in an interpreter without orjson"
        return
    sched.instrument([ejson])
    c = res["counters"]

    def default_w(o):
        if isinstance(o, Wrapped):
            return {"wrapped": o.v}
        return ejson.json_default(o)
    names = ["T0", "T1"]
    nmsg = 2

    def execute(plan_):
        f0, f1 = SharedRecordingFile(), SharedRecordingFile()
        d0 = FileDestination(file=f0, json_default=default_w)
        d1 = FileDestination(file=f1)

        def w0():
            for s_ in range(nmsg):
                d0({"t": 0, "seq": s_, "v": Wrapped(s_)})

        def w1():
            for s_ in range(nmsg):
                d1({"t": 1, "seq": s_, "v": {s_}})
        st, errs = sched.run_schedule(plan_, {"T0": w0, "T1": w1}, timeout=60.0)
        problems = ["%s raised %r" % (n, e) for n, e in errs.items()]
        # afterwards both destinations are used once more, one after the other (whatever the overlap left behind must not matter)
        try:
            d0({"t": 0, "seq": nmsg, "v": Wrapped(nmsg)})
            d1({"t": 1, "seq": nmsg, "v": {nmsg}})
        except BaseException as e:
            problems.append("a write after the concurrent phase raised %r" % (e,))
        for t, f, want in ((0, f0, lambda s_: {"wrapped": s_}), (1, f1, lambda s_: [s_])):
            lines = [json.loads(o[1].decode("utf-8")) for o in f.ops if o[0] == "write" and o[1]]
            if [(m.get("t"), m.get("seq")) for m in lines] != [(t, s_) for s_ in range(nmsg + 1)] and not problems:
                problems.append("destination %d holds %s" % (t, [(m.get("t"), m.get("seq")) for m in lines]))
            for m in lines:
                if m.get("v") != want(m.get("seq")):
                    problems.append("destination %d encoded a value as %r: another destination's json_default was used" % (t, m.get("v")))
        res["evals"] += 1
        c["two_default_schedules_run"] = c.get("two_default_schedules_run", 0) + 1
        res["sets"]["interleavings"].append(sched.trace_hash(st))
        for nm, k, loc in st["fired"]:
            res["sets"]["preemption_lines"].append(loc)
        if st["fired"]:
            res["nontrivial"].append(sched.trace_hash(st))
        if st["deadlock"]:
            problems.append("threads deadlocked: %s" % st["deadlock"])
        elif st["aborted"]:
            res["inconclusive"] = "schedule abandoned: %s" % st["aborted"]
        if problems and len(res["violations"]) < 3:
            res["violations"].append({"msg": problems[0], "mech": None, "detail": {"part": "twodefaults", "plan": plan_, "problems": problems[:5]}})
        return st

    for order in itertools.permutations(names):
        base = execute({"order": list(order), "changes": []})
        for p in sched.one_preemption_plans(list(order), base["events"]):
            execute(p)
            if len(res["violations"]) >= 3:
                return


# --------------------------------------------------------------------------- the production Logger under the scheduler


def run_loggersched(spec, res):
    """Two writer threads log typed messages of one MessageType that nobody has used before through the production Logger to
    the registered destinations while (odd cases) a third thread adds global fields: every message is delivered exactly once,
    intact and serialized, nothing raises, nothing else is delivered."""
    from eliot import Logger, add_destinations, remove_destination, add_global_fields
    rng = random.Random("%s:C16:lg:%d" % (spec["seed"], spec["i"]))
    with_g = spec["i"] % 2 == 1
    nmsg = rng.choice([1, 2])
    style = ["log", "logger.write", "call.write"][spec["i"] % 3]
    names = ["T0", "T1"] + (["G"] if with_g else [])
    c = res["counters"]
    dests = Logger._destinations
    run_no = [0]

    def execute(plan_):
        run_no[0] += 1
        dests._globalFields = {"g0": 0}
        got = []
        add_destinations(got.append)
        logger = Logger()
        mt = MessageType("c16:typed%d" % run_no[0], [Field("t", (lambda v: "s:%s" % (v,)), ""), Field("seq", (lambda v: "s:%s" % (v,)), ""),
                                                     Field("v", (lambda v: "s:%s" % (v,)), "")], "")

        def writer(t):
            def run():
                for s_ in range(nmsg):
                    if style == "log":
                        mt.log(t=t, seq=s_, v=7)
                    elif style == "call.write":
                        mt(t=t, seq=s_, v=7).write(logger)
                    else:
                        logger.write({"t": t, "seq": s_, "v": 7, "message_type": mt.message_type, "task_uuid": "u", "task_level": [1], "timestamp": 1.0},
                                     mt._serializer)
            return run

        def globals_adder():
            add_global_fields(**{"k%d_a" % run_no[0]: 1})
            add_global_fields(**{"k%d_b" % run_no[0]: 2})
        workers = {"T0": writer(0), "T1": writer(1)}
        if with_g:
            workers["G"] = globals_adder
        try:
            st, errs = sched.run_schedule(plan_, workers, timeout=60.0)
        finally:
            remove_destination(got.append)
        problems = ["%s: the call raised %r" % (n, e) for n, e in errs.items()]
        seen = {}
        for m in got:
            if not isinstance(m, dict) or m.get("message_type") != mt.message_type:
                problems.append("a message nobody logged was delivered: %r" % ({k: m.get(k) for k in ("message_type", "reason", "exception")} if isinstance(m, dict) else m,))
                continue
            key = (m.get("t"), m.get("seq"))
            seen[key] = seen.get(key, 0) + 1
            if m.get("v") != "s:7" or not str(m.get("t")).startswith("s:") or not str(m.get("seq")).startswith("s:"):
                problems.append("message delivered with fields not serialized (torn): %r" % ({k: m.get(k) for k in ("t", "seq", "v")},))
            if "g0" not in m:
                problems.append("message delivered without the global field set before the threads started")
        for t in (0, 1):
            for s_ in range(nmsg):
                n = seen.get(("s:%d" % t, "s:%d" % s_), 0)
                if n != 1:
                    problems.append("message (thread %d, seq %d) was delivered %d times" % (t, s_, n))
        res["evals"] += 1
        c["logger_schedules_run"] = c.get("logger_schedules_run", 0) + 1
        c["logger_messages_checked"] = c.get("logger_messages_checked", 0) + len(got)
        res["sets"]["interleavings"].append(sched.trace_hash(st))
        for nm, k, loc in st["fired"]:
            res["sets"]["preemption_lines"].append(loc)
        if st["fired"]:
            res["nontrivial"].append(sched.trace_hash(st))
        if st["deadlock"]:
            problems.append("threads deadlocked inside the logger: %s" % st["deadlock"])
        elif st["aborted"]:
            res["inconclusive"] = "schedule abandoned: %s" % st["aborted"]
        if problems and len(res["violations"]) < 3:
            res["violations"].append({"msg": problems[0], "mech": None, "detail": {"part": "loggersched", "plan": plan_, "style": style,
                                                                                   "global_fields_thread": with_g, "problems": problems[:5]}})
        return st

    for order in itertools.permutations(names):
        base = execute({"order": list(order), "changes": []})
        for p in sched.one_preemption_plans(list(order), base["events"]):
            execute(p)
            if len(res["violations"]) >= 3:
                return
    for p in sched.sampled_plans(rng, names, base["events"], 30 if spec["tier"] == "quick" else 300):
        execute(p)


# --------------------------------------------------------------------------- file stress with OS scheduling


def run_filestress(spec, res):
    rng = random.Random("%s:C16:st:%d" % (spec["seed"], spec["i"]))
    mode = ["ab", "ab0", "a"][spec["i"] % 3]
    nthreads = rng.choice([8, 12, 16])
    per = 2000 // nthreads * (1 if spec["tier"] == "quick" else 10)
    fd, path = tempfile.mkstemp(prefix="vf-c16-")
    os.close(fd)
    old = sys.getswitchinterval()
    sys.setswitchinterval(1e-6)
    try:
        if mode == "ab":
            f = open(path, "ab")
        elif mode == "ab0":
            f = open(path, "ab", buffering=0)
        else:
            f = open(path, "a", encoding="utf-8")
        dest = FileDestination(file=f)
        errors = []
        start = threading.Event()

        def worker(t):
            start.wait()
            try:
                for s in range(per):
                    dest({"t": t, "seq": s, "pad": "é" * (s % 40)})
            except BaseException as e:
                errors.append(e)
        ths = [sched._real_Thread(target=worker, args=(t,)) for t in range(nthreads)]
        for t in ths:
            t.start()
        start.set()
        for t in ths:
            t.join()
        f.close()
        with open(path, "rb") as rf:
            raw = rf.read()
    finally:
        sys.setswitchinterval(old)
        os.unlink(path)
    problems = ["a writer raised %r" % (e,) for e in errors[:2]]
    # Exactly-once and intact is what the property states. Order inside the file is not judged here: with a text-mode file
    # CPython's TextIOWrapper (not eliot) may let a thread's later line overtake its earlier one under contention, observed
    # as "all present exactly once, out of order" in 1 of 12 thorough runs with 16 threads.
    check_lines([raw], {t: list(range(per)) for t in range(nthreads)}, problems, require_order=(mode != "a"))
    res["evals"] += 1
    c = res["counters"]
    c["stress_lines_checked"] = c.get("stress_lines_checked", 0) + nthreads * per
    c["stress_runs"] = c.get("stress_runs", 0) + 1
    res["nontrivial"].append(h(["stress", spec["i"], mode, nthreads]))
    if problems:
        res["violations"].append({"msg": problems[0], "mech": None, "detail": {"part": "filestress", "mode": mode, "threads": nthreads, "problems": problems[:5]}})


# --------------------------------------------------------------------------- threads the threading module does not know about


RAW_OPS = ["write", "tb", "reset", "validate", "serialize", "flush"]


def raw_scenarios():
    """(op of the parked thread A, op of thread B). validate() serializes the stored messages in place, so a scenario has at most
    one validate() and then no traceback messages (see run_memory)."""
    out = []
    for a in RAW_OPS:
        for b in RAW_OPS:
            if (a, b).count("validate") > 1 or ("validate" in (a, b) and "tb" in (a, b)):
                continue
            out.append((a, b))
    return out


def _blocked_on_a_lock(frame):
    # the innermost Python frame of a thread that sits in a C-level lock acquire made through the scheduler-aware lock class
    # (which is what code inside the eliot package gets from threading.Lock() in this process)
    return frame.f_code is sched.SchedLock._acquire_real.__code__


def raw_run(ops, prep, k):
    """ops[0] is run by raw thread A (started with _thread.start_new_thread, so threading.active_count() and threading.enumerate()
    do not see it), which is parked by a harness-side sys.settrace hook after its k-th LINE event in eliot/_output.py (k == 0:
    never, the LINE events are just counted); while it is parked the other raw threads run ops[1:]. A goes on when the others have
    finished or are all blocked acquiring a lock. The main thread idles. Returns (info, problems)."""
    import _thread
    import time
    logger = MemoryLogger()
    MAIN = 9
    tags = list(range(len(ops))) + [MAIN]
    sers = {t: make_serializer(t) for t in tags}
    ser_tag = {id(s_): t for t, s_ in sers.items()}
    wrote = {t: [] for t in tags}
    seqs = {t: 0 for t in tags}
    tbs = {t: 0 for t in tags}
    results = []
    errors = []
    info = {"lines": 0, "parked": False, "parked_at": None, "others_finished_while_parked": False, "others_blocked_on_a_lock": False,
            "inside_memorylogger_method": False, "park_timeout": False, "threads_known_to_threading": None}
    out_file = _output.__file__

    def do(op, t):
        if op == "write":
            q = seqs[t]
            seqs[t] += 1
            m = {"tag": t, "seq": q, "b": q, "message_type": "w%d" % t, "task_uuid": "u", "task_level": [1], "timestamp": 1.0}
            logger.write(m, sers[t])
            wrote[t].append(q)
        elif op == "tb":
            try:
                raise Flushable("t%d" % t)
            except Flushable:
                write_traceback(logger)
            tbs[t] += 1
        elif op == "validate":
            logger.validate()
        elif op == "serialize":
            results.append(("serialize", logger.serialize()))
        elif op == "flush":
            results.append(("flush", logger.flush_tracebacks(Flushable)))
        else:
            logger.reset()

    for op in prep:
        do(op, MAIN)

    others = [{"op": op, "tag": i + 1, "ident": None, "done": False, "go": _thread.allocate_lock(), "fin": _thread.allocate_lock()}
              for i, op in enumerate(ops[1:])]
    a_fin = _thread.allocate_lock()
    a_fin.acquire()
    for o in others:
        o["go"].acquire()
        o["fin"].acquire()

    def park(frame):
        info["parked"] = True
        info["parked_at"] = "%s:%d" % (os.path.basename(frame.f_code.co_filename), frame.f_lineno)
        f = frame
        while f is not None:
            if f.f_code.co_filename == out_file and getattr(f.f_code, "co_qualname", "").startswith("MemoryLogger."):
                info["inside_memorylogger_method"] = True
            f = f.f_back
        info["threads_known_to_threading"] = threading.active_count()
        for o in others:
            o["go"].release()
        deadline = time.monotonic() + 2.0
        stuck = 0
        while True:
            if all(o["done"] for o in others):
                info["others_finished_while_parked"] = True
                return
            frames = sys._current_frames()
            all_blocked = True
            for o in others:
                if o["done"]:
                    continue
                fr = frames.get(o["ident"])
                if fr is None or not _blocked_on_a_lock(fr):
                    all_blocked = False
            del frames
            stuck = stuck + 1 if all_blocked else 0
            if stuck >= 3:
                # the others wait for a lock (late arrivals are harmless: they then simply run after or alongside A)
                info["others_blocked_on_a_lock"] = True
                return
            if time.monotonic() > deadline:
                info["park_timeout"] = True
                return
            time.sleep(0.0005)

    def local_tracer(frame, event, arg):
        if event == "line":
            info["lines"] += 1
            if info["lines"] == k:
                park(frame)
        return local_tracer

    def global_tracer(frame, event, arg):
        if frame.f_code.co_filename == out_file:
            return local_tracer
        return None

    def thread_a():
        try:
            sys.settrace(global_tracer)
            try:
                do(ops[0], 0)
            finally:
                sys.settrace(None)
        except BaseException as e:
            errors.append("thread A (%s): %r" % (ops[0], e))
        finally:
            a_fin.release()

    def thread_o(o):
        try:
            o["ident"] = _thread.get_ident()
            o["go"].acquire()
            if info["parked"]:
                do(o["op"], o["tag"])
        except BaseException as e:
            errors.append("thread %d (%s): %r" % (o["tag"], o["op"], e))
        finally:
            o["done"] = True
            o["fin"].release()

    for o in others:
        _thread.start_new_thread(thread_o, (o,))
    t0 = time.monotonic()
    while any(o["ident"] is None for o in others) and time.monotonic() - t0 < 20:
        time.sleep(0.0005)
    _thread.start_new_thread(thread_a, ())
    finished = a_fin.acquire(True, 60)
    if not info["parked"]:
        for o in others:
            o["go"].release()  # k == 0 or never reached: the others just end
    for o in others:
        finished = o["fin"].acquire(True, 60) and finished
    if not finished:
        return info, None  # inconclusive: a raw thread did not come back
    problems = list(errors)
    # quiet again: two more writes and a serialize() by the main thread
    try:
        do("write", MAIN)
        do("write", MAIN)
        final = logger.serialize()
    except BaseException as e:
        problems.append("after the threads ended a MemoryLogger call raised %r" % (e,))
        final = None
    reset_used = "reset" in ops
    msgs, ss = logger.messages, logger.serializers
    tb_ser = eliot._traceback.TRACEBACK_MESSAGE._serializer
    if len(msgs) != len(ss):
        problems.append("finally %d messages but %d serializers" % (len(msgs), len(ss)))
    if len(set(id(m) for m in msgs)) != len(msgs):
        problems.append("a message is recorded twice")
    per = {}
    tb_in_msgs = []
    for m, s_ in zip(msgs, ss):
        if "tag" in m:
            if ser_tag.get(id(s_)) != m["tag"]:
                problems.append("message of thread %s is paired with %s" % (
                    m["tag"], "the serializer of thread %s" % ser_tag[id(s_)] if id(s_) in ser_tag else "a traceback's serializer"))
                break
            q = m["seq"]
            if isinstance(q, str):  # serialized in place by validate()
                q = int(q.rsplit(":", 1)[1])
            per.setdefault(m["tag"], []).append(q)
        else:
            tb_in_msgs.append(id(m))
            if s_ is not tb_ser:
                problems.append("a traceback message is paired with the serializer of thread %s" % (ser_tag.get(id(s_)),))
                break
    for t in tags:
        got = per.get(t, [])
        if reset_used:
            if got and got != wrote[t][len(wrote[t]) - len(got):]:
                problems.append("thread %d wrote %s, logger retains %s (not a suffix: lost, duplicated or re-ordered)" % (t, wrote[t], got))
        elif got != wrote[t]:
            problems.append("thread %d wrote %s and nobody called reset(), logger retains %s" % (t, wrote[t], got))
    listed = [id(m) for m in logger.tracebackMessages]
    flushed = [id(m) for kind, r in results if kind == "flush" for m in r]
    if len(set(listed)) != len(listed):
        problems.append("a traceback is listed twice in tracebackMessages")
    if not set(listed) <= set(tb_in_msgs):
        problems.append("finally a tracebackMessages entry is not in messages")
    if len(set(flushed)) != len(flushed):
        problems.append("a traceback message was returned by two flush_tracebacks calls")
    if set(flushed) & set(listed):
        problems.append("a flushed traceback is still listed as unflushed")
    if not reset_used:
        if len(tb_in_msgs) != sum(tbs.values()):
            problems.append("%d tracebacks written and nobody called reset(), %d in messages" % (sum(tbs.values()), len(tb_in_msgs)))
        if set(listed) | set(flushed) != set(tb_in_msgs):
            problems.append("%d traceback messages recorded, nobody called reset(), but only %d are listed as unflushed or were returned by "
                            "flush_tracebacks" % (len(tb_in_msgs), len(set(listed) | set(flushed))))
    for kind, r in results + ([("serialize", final)] if final is not None else []):
        if kind != "serialize":
            continue
        for d in r:
            if "tag" in d and (not str(d["seq"]).startswith("t%d:" % d["tag"]) or d["message_type"] != "w%d" % d["tag"]):
                problems.append("serialize() applied the wrong serializer: %r" % ({k_: d.get(k_) for k_ in ("tag", "seq", "b", "message_type")},))
                break
            if "tag" in d and str(d["seq"]).count("t%d:" % d["tag"]) != str(d.get("b")).count("t%d:" % d["tag"]):
                problems.append("serialize() returned a torn message (fields serialized a different number of times): %r" % (
                    {k_: d.get(k_) for k_ in ("tag", "seq", "b")},))
                break
    if final is not None and len(final) != len(msgs):
        problems.append("serialize() returned %d messages, the logger holds %d" % (len(final), len(msgs)))
    return info, problems


def run_rawthreads(spec, res):
    """Concurrent callers that are NOT threading.Thread objects (threads of a C extension or of an embedding host look like this):
    for every line k of the MemoryLogger call made by raw thread A, A is parked there and raw thread B (thorough: also C) makes
    its call; the main thread idles."""
    rng = random.Random("%s:C16:raw:%d" % (spec["seed"], spec["i"]))
    c = res["counters"]
    scen = raw_scenarios()
    mine = [sc for j, sc in enumerate(scen) if j % spec["nchunks"] == spec["chunk"]]
    for a, b in mine:
        plain = "validate" in (a, b)
        preps = [["write", "write"] if plain else ["write", "tb", "write"]]
        if spec["tier"] != "quick":
            preps += [[], ["write"] * 3 if plain else ["tb", "write", "tb"]]
        for prep in preps:
            variants = [(a, b)]
            if spec["tier"] != "quick":
                third = [o for o in RAW_OPS if not ((o == "validate" and ("validate" in (a, b) or "tb" in (a, b))) or (o == "tb" and plain))]
                variants.append((a, b, rng.choice(third)))
            for ops in variants:
                if "validate" in ops and "tb" in prep:
                    continue
                info, problems = raw_run(ops, prep, 0)
                if problems is None:
                    res["inconclusive"] = "rawthreads: a thread did not finish"
                    return
                n = info["lines"]
                c["raw_thread_line_events_counted"] = c.get("raw_thread_line_events_counted", 0) + n
                for k in range(1, n + 1):
                    info, problems = raw_run(ops, prep, k)
                    res["evals"] += 1
                    if problems is None:
                        res["inconclusive"] = "rawthreads: a thread did not finish"
                        return
                    if not info["parked"]:
                        continue
                    c["raw_thread_parks"] = c.get("raw_thread_parks", 0) + 1
                    for key in ("others_finished_while_parked", "others_blocked_on_a_lock", "inside_memorylogger_method", "park_timeout"):
                        if info[key]:
                            c["raw_parks_" + key] = c.get("raw_parks_" + key, 0) + 1
                    if info["inside_memorylogger_method"]:
                        res["nontrivial"].append(h(["raw", ops, prep, k]))
                        res["sets"]["preemption_lines"].append("raw " + info["parked_at"])
                    if problems and len(res["violations"]) < 3:
                        res["violations"].append({"msg": "raw threads: " + problems[0], "mech": None,
                                                  "detail": {"part": "rawthreads", "ops": list(ops), "prep": prep, "parked_after_line_event": k,
                                                             "info": info, "problems": problems[:5]}})
                        if len(res["violations"]) >= 3:
                            return
    if spec["chunk"] == 0 and mine:
        res["sample"] = {"part": "rawthreads", "scenarios": len(scen), "example": {"A": mine[0][0], "B": mine[0][1]}}


# --------------------------------------------------------------------------- file destination on a pipe that is full


def run_pipestress(spec, res):
    """One FileDestination on the write end of an OS pipe (binary, buffered or unbuffered), 3-5 OS-scheduled threads writing while
    the reader thread starts to drain (in small pieces) only once the pipe is full, so that the writers block in the middle of
    their lines. Unbuffered: every line fits into PIPE_BUF (one write(2) each, which POSIX makes atomic on a pipe); buffered:
    lines several times the pipe's capacity."""
    import array
    import fcntl
    import select
    import termios
    import time
    rng = random.Random("%s:C16:pipe:%d" % (spec["seed"], spec["i"]))
    c = res["counters"]
    rounds = 6 if spec["tier"] == "quick" else 40
    pipe_buf = getattr(select, "PIPE_BUF", 512)
    for rnd in range(rounds):
        unbuffered = (spec["i"] + rnd) % 3 == 2
        nthreads = rng.choice([3, 3, 4, 5])
        per = rng.choice([2, 3]) if not unbuffered else rng.choice([4, 8])
        rfd, wfd = os.pipe()
        cap = 65536
        try:
            if (rng.random() < 0.75 or unbuffered) and hasattr(fcntl, "F_SETPIPE_SZ"):
                fcntl.fcntl(wfd, fcntl.F_SETPIPE_SZ, 4096)
            if hasattr(fcntl, "F_GETPIPE_SZ"):
                cap = fcntl.fcntl(wfd, fcntl.F_GETPIPE_SZ)
        except OSError:
            pass
        # every sixth round: an unbuffered file (a raw FileIO) AND lines larger than PIPE_BUF - one write(2) per line that the kernel
        # completes piecewise while other writers are blocked next to it (recorded finding, see KNOWN_FINDINGS.json)
        unbuffered_big = unbuffered and (spec["i"] + rnd) % 6 == 5
        if unbuffered and not unbuffered_big:
            def size(t, q):
                return (pipe_buf - 200) - 37 * ((t + q) % 5)
            per = max(per, cap // (pipe_buf - 400) // nthreads + 2)  # more than the pipe holds
        else:
            big = rng.choice([3, 5, 8]) * cap if cap <= 8192 else rng.choice([2, 4]) * cap

            def size(t, q, big=big):
                return big + 1013 * ((t + 2 * q) % 4)
        minline = min(size(t, q) for t in range(nthreads) for q in range(per))
        f = open(wfd, "wb", buffering=0) if unbuffered else open(wfd, "wb")
        dest = FileDestination(file=f)
        chunks = []
        errors = []
        saw_full = [False]
        stop = [False]

        def reader():
            try:
                buf = array.array("i", [0])
                t0 = time.monotonic()
                while time.monotonic() - t0 < 5.0 and not stop[0]:
                    fcntl.ioctl(rfd, termios.FIONREAD, buf)
                    if buf[0] > cap - minline:  # no room for another line: whoever writes now has to wait in the middle of it
                        saw_full[0] = True
                        break
                    time.sleep(0.0005)
                piece = rng.choice([512, 1024, 4096])
                while True:
                    b = os.read(rfd, piece)
                    if not b:
                        return
                    chunks.append(b)
            except BaseException as e:
                errors.append("reader: %r" % (e,))

        start = threading.Event()

        def writer(t):
            start.wait()
            try:
                for q in range(per):
                    dest({"t": t, "seq": q, "pad": chr(97 + t) * size(t, q)})
            except BaseException as e:
                errors.append("writer %d raised %r" % (t, e))
        rt = sched._real_Thread(target=reader, daemon=True)
        ws = [sched._real_Thread(target=writer, args=(t,), daemon=True) for t in range(nthreads)]
        rt.start()
        for w in ws:
            w.start()
        start.set()
        hung = False
        for w in ws:
            w.join(120)
            hung = hung or w.is_alive()
        if hung:
            res["inconclusive"] = "pipestress: a writer did not come back"
            os.close(rfd)  # the blocked writers get EPIPE
            return
        stop[0] = True
        f.close()
        rt.join(120)
        if rt.is_alive():
            res["inconclusive"] = "pipestress: the reader did not see the end of the pipe"
            return
        os.close(rfd)
        problems = list(errors[:3])
        data = b"".join(chunks)
        lines = data.split(b"\n")
        if lines[-1] != b"":
            problems.append("the output does not end with a newline (torn tail %r)" % (lines[-1][:60],))
        got = {}
        for no, ln in enumerate(lines[:-1]):
            try:
                m = json.loads(ln.decode("utf-8"))
                t, q, pad = m["t"], m["seq"], m["pad"]
                if not (isinstance(t, int) and isinstance(q, int) and 0 <= t < nthreads and 0 <= q < per):
                    raise ValueError("unknown writer/seq")
            except Exception as e:
                problems.append("line %d of %d is torn or merged: %r ... %r (%s)" % (no, len(lines) - 1, ln[:50], ln[-30:], str(e)[:80]))
                break
            if pad != chr(97 + t) * size(t, q):
                problems.append("line %d (thread %d, seq %d) is not what was written: pad has %d characters %s, written %d" % (
                    no, t, q, len(pad), sorted(set(pad))[:4], size(t, q)))
                break
            got.setdefault(t, []).append(q)
        else:
            for t in range(nthreads):
                g = got.get(t, [])
                if sorted(g) != list(range(per)):
                    problems.append("thread %d wrote %d lines, the pipe delivered seqs %s (dropped or duplicated)" % (t, per, g))
                elif g != list(range(per)):
                    problems.append("thread %d's lines are all present but out of order: %s" % (t, g))
        res["evals"] += 1
        c["pipe_rounds"] = c.get("pipe_rounds", 0) + 1
        c["pipe_lines_checked"] = c.get("pipe_lines_checked", 0) + nthreads * per
        if saw_full[0]:
            c["pipe_rounds_with_writers_blocked_on_a_full_pipe"] = c.get("pipe_rounds_with_writers_blocked_on_a_full_pipe", 0) + 1
            res["nontrivial"].append(h(["pipe", spec["i"], rnd, unbuffered, nthreads, cap]))
        if problems and len(res["violations"]) < 3:
            mech = None
            if unbuffered_big and not errors and all(("torn" in p_ or "not what was written" in p_ or "does not end with a newline" in p_) for p_ in problems):
                mech = "unbuffered-file-line-over-pipe-buf"
            res["violations"].append({"msg": "pipe: " + problems[0], "mech": mech,
                                      "detail": {"part": "pipestress", "unbuffered": unbuffered, "line_over_pipe_buf": (not unbuffered) or unbuffered_big, "threads": nthreads, "lines_per_thread": per,
                                                 "pipe_capacity": cap, "smallest_line": minline, "problems": problems[:5]}})
            if len(res["violations"]) >= 3:
                return


# --------------------------------------------------------------------------- two loggers, one logging from inside the other


def make_tagged_serializer(tag, before_seq=None):
    """Serializer of the messages stamped `tag` (message type 'w<tag>'): fields seq and b come out as 't<tag>:<value>'. With
    before_seq the serializer of field seq first calls it (a serializer that itself logs)."""
    def ser_seq(v):
        if before_seq is not None:
            before_seq()
        return "t%d:%s" % (tag, v)
    mt = MessageType("w%d" % tag, [Field("seq", ser_seq, ""), Field("b", (lambda v: "t%d:%s" % (tag, v)), ""), Field.for_types("tag", [int], "")], "")
    return mt._serializer


def _seq_of(m):
    q = m["seq"]
    if isinstance(q, str):  # serialized in place by validate()
        q = int(q.rsplit(":", 1)[1])
    return q


def judge_logger(name, logger, expected_ser, wrote, tbs_written, results, reset_used, problems):
    """Final state of one MemoryLogger after all threads ended. expected_ser(message) -> the serializer object that message was
    written with; wrote: {tag: [seq, ...]} in the order the write() calls returned; results: [("serialize"|"flush", result)]."""
    msgs, ss = logger.messages, logger.serializers
    tb_ser = eliot._traceback.TRACEBACK_MESSAGE._serializer
    if len(msgs) != len(ss):
        problems.append("%s: finally %d messages but %d serializers" % (name, len(msgs), len(ss)))
    if len(set(id(m) for m in msgs)) != len(msgs):
        problems.append("%s: a message is recorded twice" % name)
    per = {}
    tb_in_msgs = []
    for i, (m, s_) in enumerate(zip(msgs, ss)):
        if "tag" in m:
            if s_ is not expected_ser(m):
                problems.append("%s: messages[%d] (writer tag %s) is paired with %s, not with the serializer it was written with" % (
                    name, i, m["tag"], "the traceback serializer" if s_ is tb_ser else "no serializer" if s_ is None else "another message's serializer"))
                break
            per.setdefault(m["tag"], []).append(_seq_of(m))
        else:
            tb_in_msgs.append(id(m))
            if s_ is not tb_ser:
                problems.append("%s: messages[%d] is a traceback message paired with %s" % (name, i, "no serializer" if s_ is None else "a writer's serializer"))
                break
    for tag in sorted(set(wrote) | set(per)):
        w, got = wrote.get(tag, []), per.get(tag, [])
        if reset_used:
            if got and got != w[len(w) - len(got):]:
                problems.append("%s: writer %s wrote %s, logger retains %s (not a suffix: lost, duplicated or re-ordered)" % (name, tag, w, got))
        elif got != w:
            problems.append("%s: writer %s wrote %s and nobody called reset(), logger retains %s" % (name, tag, w, got))
    listed = [id(m) for m in logger.tracebackMessages]
    flushed = [id(m) for kind, r in results if kind == "flush" for m in r]
    if len(set(listed)) != len(listed):
        problems.append("%s: a traceback is listed twice in tracebackMessages" % name)
    if not set(listed) <= set(tb_in_msgs):
        problems.append("%s: finally a tracebackMessages entry is not in messages" % name)
    if len(set(flushed)) != len(flushed):
        problems.append("%s: a traceback message was returned by two flush_tracebacks calls" % name)
    if set(flushed) & set(listed):
        problems.append("%s: a flushed traceback is still listed as unflushed" % name)
    if not reset_used:
        if len(tb_in_msgs) != tbs_written:
            problems.append("%s: %d tracebacks written and nobody called reset(), %d in messages" % (name, tbs_written, len(tb_in_msgs)))
        if set(listed) | set(flushed) != set(tb_in_msgs):
            problems.append("%s: %d traceback messages recorded, nobody called reset(), but only %d are listed as unflushed or were returned by "
                            "flush_tracebacks" % (name, len(tb_in_msgs), len(set(listed) | set(flushed))))
    for kind, r in results:
        if kind != "serialize":
            continue
        for d in r:
            if "tag" not in d or "untyped" in d:
                continue
            pre = "t%d:" % d["tag"]
            if not str(d["seq"]).startswith(pre) or d["message_type"] != "w%d" % d["tag"]:
                problems.append("%s: serialize() applied the wrong serializer: %r" % (name, {k_: d.get(k_) for k_ in ("tag", "seq", "b", "message_type")}))
                break
            if str(d["seq"]).count(pre) != str(d.get("b")).count(pre):
                problems.append("%s: serialize() returned a torn message (fields serialized a different number of times): %r" % (
                    name, {k_: d.get(k_) for k_ in ("tag", "seq", "b")}))
                break


NEST, UNTYPED = 50, 70  # tag offsets: messages whose serializer logs to the other logger / untyped messages encoded through json_default


def two_run(plan_, cfg):
    """Loggers A and B. 'A.write_nest' writes to A a message whose field serializer (carrier 'field') or whose logger's json_default
    (carrier 'json_default') itself logs to B - a plain write or a write_traceback, stamped with the calling thread's tag - while
    the other threads call B (and A). Locks are only ever taken in the order A, B: nothing that runs under B's lock logs to A."""
    oplists = cfg["ops"]
    nthreads = len(oplists)
    nested_kind, carrier = cfg["nested"], cfg["carrier"]
    tl = threading.local()
    stats = {"nested": 0}
    wrote = {"A": {}, "B": {}}
    seqs = {}
    tbs = {"A": 0, "B": 0}
    results = {"A": [], "B": []}

    def plain_write(L, lg, t):
        q = seqs.get((L, t), 0)
        seqs[(L, t)] = q + 1
        m = {"tag": t, "seq": q, "b": q, "message_type": "w%d" % t, "task_uuid": "u", "task_level": [1], "timestamp": 1.0}
        lg.write(m, sers[t])
        wrote[L].setdefault(t, []).append(q)

    def log_tb(L, lg, t):
        try:
            raise Flushable("t%d" % t)
        except Flushable:
            write_traceback(lg)
        tbs[L] += 1

    def nested_log():
        t = tl.t
        if nested_kind == "write":
            plain_write("B", B, t)
        else:
            log_tb("B", B, t)
        stats["nested"] += 1

    def jd(o):
        if isinstance(o, Wrapped):
            nested_log()
            return {"wrapped": o.v}
        raise TypeError("not JSON serializable: %r" % (type(o),))

    sers = {t: make_tagged_serializer(t) for t in range(nthreads)}
    nest = {t: make_tagged_serializer(NEST + t, nested_log) for t in range(nthreads)}
    by_tag = dict(sers)
    by_tag.update({NEST + t: s_ for t, s_ in nest.items()})
    A = MemoryLogger(json_default=jd) if carrier == "json_default" else MemoryLogger()
    B = MemoryLogger()
    loggers = {"A": A, "B": B}

    def expected_ser(m):
        return None if "untyped" in m else by_tag.get(m["tag"])

    hook_problems = []
    hook_hits = {"A": 0, "B": 0}

    def hook(lock):
        for L, lg in loggers.items():
            if any(v is lock for v in vars(lg).values()):
                hook_hits[L] += 1
                if len(lg.messages) != len(lg.serializers):
                    hook_problems.append("under logger %s's lock: %d messages but %d serializers" % (L, len(lg.messages), len(lg.serializers)))
                ids = set(id(m) for m in lg.messages)
                if any(id(m) not in ids for m in lg.tracebackMessages):
                    hook_problems.append("under logger %s's lock: a tracebackMessages entry is not in messages" % L)

    def do(op, t):
        L, kind = op.split(".")
        lg = loggers[L]
        if kind == "write":
            plain_write(L, lg, t)
        elif kind == "write_nest":
            if carrier == "field":
                tag = NEST + t
                q = seqs.get((L, tag), 0)
                seqs[(L, tag)] = q + 1
                m = {"tag": tag, "seq": q, "b": q, "message_type": "w%d" % tag, "task_uuid": "u", "task_level": [1], "timestamp": 1.0}
                lg.write(m, nest[t])
            else:
                tag = UNTYPED + t
                q = seqs.get((L, tag), 0)
                seqs[(L, tag)] = q + 1
                m = {"tag": tag, "untyped": 1, "seq": q, "b": q, "obj": Wrapped(q), "message_type": "u%d" % t, "task_uuid": "u", "task_level": [1], "timestamp": 1.0}
                lg.write(m, None)
            wrote[L].setdefault(tag, []).append(q)
        elif kind == "tb":
            log_tb(L, lg, t)
        elif kind == "validate":
            lg.validate()
        elif kind == "serialize":
            results[L].append(("serialize", lg.serialize()))
        elif kind == "flush":
            results[L].append(("flush", lg.flush_tracebacks(Flushable)))
        else:
            lg.reset()

    def worker(t):
        def run():
            tl.t = t
            for op in oplists[t]:
                do(op, t)
        return run

    sched.RELEASE_HOOKS[:] = [hook]
    try:
        st, errs = sched.run_schedule(plan_, {"T%d" % t: worker(t) for t in range(nthreads)}, timeout=60.0)
    finally:
        sched.RELEASE_HOOKS[:] = []
    problems = list(hook_problems[:3])
    for n, e in errs.items():
        problems.append("%s: a MemoryLogger call raised %r" % (n, e))
    info = {"hook_hits": hook_hits, "nested": stats["nested"], "aborted": False,
            "nester_waited_for_a_lock": any(b[1] == "lock" for b in st["blocked"])}
    if st["deadlock"]:
        problems.append("threads deadlocked inside the loggers: %s" % st["deadlock"])
        return st, problems, info
    if st["aborted"]:
        info["aborted"] = True
        return st, problems, info
    for L in ("A", "B"):
        judge_logger("logger " + L, loggers[L], expected_ser, wrote[L], tbs[L], results[L], any(op == L + ".reset" for o in oplists for op in o), problems)
    return st, problems, info


def run_twologgers(spec, res):
    rng = random.Random("%s:C16:two:%d" % (spec["seed"], spec["i"]))
    i = spec["i"]
    nested = "tb" if i % 2 else "write"
    carrier = "json_default" if i % 4 == 3 else "field"
    nthreads = 3 if i % 3 == 2 else 2
    b_validate = nested == "write" and rng.random() < 0.35
    pool_b = ["B.write", "B.reset", "B.serialize"] if b_validate else ["B.write", "B.write", "B.tb", "B.flush", "B.reset", "B.serialize"]
    quick = spec["tier"] == "quick"
    t0 = ["A.write_nest"] * (1 if quick or i % 3 == 0 else rng.choice([1, 1, 2]))
    if rng.random() < 0.5:
        t0.insert(rng.randrange(len(t0) + 1), rng.choice(["A.serialize", "A.validate", "B.write"]))
    t1 = [rng.choice(pool_b) for _ in range(rng.randint(1, 2 if quick else 3))]
    if b_validate:
        t1[rng.randrange(len(t1))] = "B.validate"
    elif not any(o in ("B.write", "B.tb") for o in t1):
        t1[0] = rng.choice(["B.write", "B.tb"])
    oplists = [t0, t1]
    if nthreads == 3:
        pool2 = pool_b + ["A.write", "A.reset"] + ([] if "A.validate" in t0 else ["A.serialize"])
        oplists.append([rng.choice(pool2) for _ in range(rng.randint(1, 2))])
    if carrier == "json_default":
        # A then holds messages written without a serializer, for which MemoryLogger.serialize() raises AttributeError in a single
        # thread as well (nothing to do with concurrency): such runs validate() A instead, at most once
        seen = False
        for o in oplists:
            for j, op in enumerate(o):
                if op in ("A.serialize", "A.validate"):
                    o[j] = "A.write" if seen else "A.validate"
                    seen = True
    cfg = {"nested": nested, "carrier": carrier, "ops": oplists}
    names = ["T%d" % t for t in range(nthreads)]
    c = res["counters"]

    def execute(plan_, label):
        st, problems, info = two_run(plan_, cfg)
        res["evals"] += 1
        c["two_logger_schedules_run"] = c.get("two_logger_schedules_run", 0) + 1
        c["two_logger_lock_hook_entries_A"] = c.get("two_logger_lock_hook_entries_A", 0) + info["hook_hits"]["A"]
        c["two_logger_lock_hook_entries_B"] = c.get("two_logger_lock_hook_entries_B", 0) + info["hook_hits"]["B"]
        c["two_logger_nested_logs_to_B"] = c.get("two_logger_nested_logs_to_B", 0) + info["nested"]
        if info["nester_waited_for_a_lock"]:
            c["two_logger_schedules_with_a_thread_waiting_for_a_lock"] = c.get("two_logger_schedules_with_a_thread_waiting_for_a_lock", 0) + 1
        res["sets"]["interleavings"].append(sched.trace_hash(st))
        for nm, k, loc in st["fired"]:
            res["sets"]["preemption_lines"].append(loc)
        if st["fired"]:
            res["nontrivial"].append(sched.trace_hash(st))
        if info["aborted"]:
            res["inconclusive"] = "schedule abandoned: %s" % st["aborted"]
        if problems and len(res["violations"]) < 3:
            res["violations"].append({"msg": "two loggers (a %s of a message written to A logs a %s to B): %s" % (
                "field serializer" if carrier == "field" else "json_default", "message" if nested == "write" else "traceback", problems[0]), "mech": None,
                "detail": {"part": "twologgers", "config": cfg, "plan": plan_, "problems": problems[:5], "label": label}})
        return st

    orders = list(itertools.permutations(names))
    if quick and len(orders) > 2:
        orders = rng.sample(orders, 3)
    for order in orders:
        base = execute({"order": list(order), "changes": []}, "baseline")
        for p in sched.one_preemption_plans(list(order), base["events"]):
            execute(p, "1-preemption")
            if len(res["violations"]) >= 3:
                return
    for p in sched.sampled_plans(rng, names, base["events"], 30 if quick else 300):
        execute(p, "sampled")
        if len(res["violations"]) >= 3:
            return
    c["two_logger_configs_explored_exhaustively_1p"] = c.get("two_logger_configs_explored_exhaustively_1p", 0) + 1
    if i == 0:
        res["sample"] = {"part": "twologgers", "config": cfg, "baseline_events": base["events"]}


# --------------------------------------------------------------------------- a waiter interrupted by a signal


class DeadlineExpired(Exception):
    """What an application's SIGALRM handler raises (the classic 'give up after n seconds' idiom)."""


SIG_MODES = ["alarm", "sigint_thread", "sigint_process", "alarm"]
SIG_WORKER_OPS = ["write", "write", "validate", "serialize"]
SIG_MAIN_OPS = ["write", "write", "tb", "serialize", "flush", "reset", "write", "validate"]
SIG_GRACE = 0.05  # real time between the main thread announcing its call and the signal


def sig_scenario(worker_op, main_op, third_ops, mode):
    """Real OS threads and real locks (no schedule is active). A worker thread is parked inside a MemoryLogger method by a field
    serializer that waits for an event; the main thread calls another method of the same logger and has to wait; a signal whose
    handler raises arrives while it waits; the application catches that exception; a third thread then calls the logger while the
    worker is still parked inside; then the worker is let go. Returns (info, problems); problems is None if not judged."""
    import signal
    import time
    info = {"reached": False, "why_not": None, "third_returned_while_worker_inside": False, "third_blocked_on_a_lock": False,
            "handler_ran": False, "handler_in_lock_acquire": False, "park_timeout": False}
    signum = signal.SIGALRM if mode == "alarm" else signal.SIGINT
    logger = MemoryLogger()
    W, M, T, P = 0, 1, 2, 3  # writer tags: worker, main thread, third thread, preparation
    gate = {"armed": False}
    inside, release = threading.Event(), threading.Event()

    def park():
        if gate["armed"]:
            gate["armed"] = False  # only the first caller (the worker) is parked
            inside.set()
            release.wait(15)

    sers = {t: make_tagged_serializer(t) for t in (M, T, P)}
    sers[W] = make_tagged_serializer(W, park)
    wrote = {}
    seqs = {}
    tbs = [0]
    results = []
    errors = []

    def do(op, t):
        if op == "write":
            q = seqs.get(t, 0)
            seqs[t] = q + 1
            m = {"tag": t, "seq": q, "b": q, "message_type": "w%d" % t, "task_uuid": "u", "task_level": [1], "timestamp": 1.0}
            logger.write(m, sers[t])
            wrote.setdefault(t, []).append(q)
        elif op == "tb":
            try:
                raise Flushable("t%d" % t)
            except Flushable:
                write_traceback(logger)
            tbs[0] += 1
        elif op == "validate":
            logger.validate()
        elif op == "serialize":
            results.append(("serialize", logger.serialize()))
        elif op == "flush":
            results.append(("flush", logger.flush_tracebacks(Flushable)))
        else:
            logger.reset()

    def handler(sig, frame):
        info["handler_ran"] = True
        info["handler_in_lock_acquire"] = frame is not None and _blocked_on_a_lock(frame)
        if sig == signal.SIGINT:
            signal.default_int_handler(sig, frame)  # raises KeyboardInterrupt, as Ctrl-C does
        raise DeadlineExpired("alarm")

    # quiet preparation by the main thread
    plain = "validate" in (worker_op, main_op)  # validate() serializes in place: no traceback messages then (see run_memory)
    for op in (["write", "write"] if plain else ["write", "tb", "write"]):
        do(op, P)
    if worker_op != "write":
        do("write", W)  # the stored message whose serializer will park the worker inside validate() / serialize()
    gate["armed"] = True

    def thread_body(ops, t):
        def run():
            signal.pthread_sigmask(signal.SIG_BLOCK, {signal.SIGALRM, signal.SIGINT})  # signals are the main thread's business
            for op in ops:
                try:
                    do(op, t)
                except BaseException as e:
                    errors.append("%s thread: its %s() call raised %r" % ("worker" if t == W else "third", op, e))
        return run

    old = signal.signal(signum, handler)
    worker = sched._real_Thread(target=thread_body([worker_op], W), daemon=True)
    third = sched._real_Thread(target=thread_body(third_ops, T), daemon=True)
    helper = None
    interrupted = None
    try:
        worker.start()
        if not inside.wait(10):
            info["why_not"] = "the worker never reached its serializer"
            release.set()
            worker.join(30)
            return info, None
        about, cancel = threading.Event(), threading.Event()
        if mode != "alarm":
            main_ident = threading.main_thread().ident
            pid = os.getpid()

            def send():
                signal.pthread_sigmask(signal.SIG_BLOCK, {signal.SIGALRM, signal.SIGINT})
                about.wait(10)
                if cancel.wait(SIG_GRACE):
                    return
                if mode == "sigint_thread":
                    signal.pthread_kill(main_ident, signal.SIGINT)
                else:
                    os.kill(pid, signal.SIGINT)
            helper = sched._real_Thread(target=send, daemon=True)
            helper.start()
        try:
            try:
                if mode == "alarm":
                    signal.setitimer(signal.ITIMER_REAL, SIG_GRACE)
                about.set()
                do(main_op, M)  # has to wait for the worker; the handler's exception comes out of this call
            finally:
                signal.setitimer(signal.ITIMER_REAL, 0)
                cancel.set()
                if helper is not None:
                    helper.join(10)
                    for _ in range(20):  # a signal sent a moment ago is handled here, not later
                        if info["handler_ran"]:
                            break
                        time.sleep(0.001)
        except (KeyboardInterrupt, DeadlineExpired) as e:
            interrupted = e  # the application handles it and carries on
        signal.signal(signum, signal.SIG_IGN if signum == signal.SIGINT else (lambda *a: None))
        if interrupted is None:
            info["why_not"] = "the main thread's call was not interrupted (it did not have to wait)"
        elif not info["handler_in_lock_acquire"]:
            info["why_not"] = "the signal arrived before the main thread was waiting for the lock"
        else:
            info["reached"] = True
        if not info["reached"]:
            release.set()
            worker.join(30)
            return info, None
        # the third thread calls the logger while the worker is still inside
        third.start()
        deadline = time.monotonic() + 2.0
        stuck = 0
        while True:
            if not third.is_alive():
                info["third_returned_while_worker_inside"] = True
                break
            fr = sys._current_frames().get(third.ident)
            stuck = stuck + 1 if (fr is not None and _blocked_on_a_lock(fr)) else 0
            del fr
            if stuck >= 3:
                info["third_blocked_on_a_lock"] = True
                break
            if time.monotonic() > deadline:
                info["park_timeout"] = True
                break
            time.sleep(0.0005)
        worker_inside = worker.is_alive() and not release.is_set()
        release.set()
        worker.join(30)
        third.join(30)
        if worker.is_alive() or third.is_alive():
            info["why_not"] = "a thread did not come back"
            info["reached"] = False
            return info, None
    finally:
        release.set()
        signal.setitimer(signal.ITIMER_REAL, 0)
        signal.signal(signum, old)
    problems = list(errors)
    what = "after the main thread's %s() on the same logger was interrupted by a signal (%s) while it waited for the worker inside %s()" % (
        main_op, type(interrupted).__name__, worker_op)
    problems = [p_ + " " + what for p_ in problems]
    if main_op == "write" and third_ops[0] == "write" and worker_inside and info["third_returned_while_worker_inside"]:
        # the main thread's identical call had to wait for the worker a moment earlier
        problems.append("the third thread's write() took effect while the worker thread was still inside %s(), although the main thread's write() "
                        "had to wait for it: the logger was open to other threads %s" % (worker_op, what))
    if worker_op == "write" and main_op == "write" and third_ops[0] == "write" and len(logger.messages) == len(logger.serializers):
        pos = {}
        for i_, m in enumerate(logger.messages):
            if m.get("tag") in (W, T):
                pos.setdefault(m["tag"], i_)
        if W in pos and T in pos and pos[T] < pos[W]:
            problems.append("the third thread's message (written while the worker was inside write()) is recorded before the worker's message " + what)
    # quiet again
    try:
        do("write", M)
        results.append(("serialize", logger.serialize()))
        if not plain:
            results.append(("flush", logger.flush_tracebacks(Flushable)))
    except BaseException as e:
        problems.append("after the threads ended a MemoryLogger call raised %r" % (e,))
    reset_used = main_op == "reset" or "reset" in third_ops  # (whether an interrupted reset() took effect is not judged)
    judge_logger("logger", logger, lambda m: sers.get(m["tag"]), wrote, tbs[0], results, reset_used, problems)
    return info, problems


def run_sigwait(spec, res):
    import signal
    c = res["counters"]
    if threading.current_thread() is not threading.main_thread() or not hasattr(signal, "setitimer") or not hasattr(signal, "pthread_kill"):
        res["inconclusive"] = "sigwait: the case does not run in the main thread of its process (signals cannot be handled here)"
        return
    if sched.ACTIVE is not None:
        res["inconclusive"] = "sigwait: a schedule is active"
        return
    rng = random.Random("%s:C16:sig:%d" % (spec["seed"], spec["i"]))
    n = 16 if spec["tier"] == "quick" else 40
    for j in range(n):
        k = spec["i"] * n + j
        worker_op = SIG_WORKER_OPS[k % len(SIG_WORKER_OPS)]
        main_op = SIG_MAIN_OPS[(k // 2 + rng.randrange(2)) % len(SIG_MAIN_OPS)]
        if main_op == "validate" and worker_op == "validate":
            main_op = "write"
        plain = "validate" in (worker_op, main_op)
        third_ops = ["write"] + ([] if rng.random() < 0.5 else [rng.choice(["write", "serialize"] if plain else ["write", "tb", "serialize", "flush"])])
        mode = SIG_MODES[(k + k // len(SIG_MODES)) % len(SIG_MODES)]
        info, problems = sig_scenario(worker_op, main_op, third_ops, mode)
        res["evals"] += 1
        c["signal_scenarios_run"] = c.get("signal_scenarios_run", 0) + 1
        if not info["reached"]:
            key = "signal_scenarios_not_reached"
            c.setdefault(key, {})
            c[key][info["why_not"] or "?"] = c[key].get(info["why_not"] or "?", 0) + 1
            if info["why_not"] == "a thread did not come back":
                res["inconclusive"] = "sigwait: a thread did not come back"
                return
            continue
        c["signal_scenarios_main_thread_interrupted_while_waiting_for_the_lock"] = c.get("signal_scenarios_main_thread_interrupted_while_waiting_for_the_lock", 0) + 1
        for key in ("third_returned_while_worker_inside", "third_blocked_on_a_lock", "park_timeout"):
            if info[key]:
                c["signal_scenarios_" + key] = c.get("signal_scenarios_" + key, 0) + 1
        c.setdefault("signal_modes_reached", {})
        c["signal_modes_reached"][mode] = c["signal_modes_reached"].get(mode, 0) + 1
        res["nontrivial"].append(h(["sig", worker_op, main_op, third_ops, mode]))
        if problems and len(res["violations"]) < 3:
            res["violations"].append({"msg": "interrupted waiter: " + problems[0], "mech": None,
                                      "detail": {"part": "sigwait", "worker_op": worker_op, "main_op": main_op, "third_ops": third_ops, "signal": mode,
                                                 "info": info, "problems": problems[:5]}})
            if len(res["violations"]) >= 3:
                return
    if spec["i"] == 0:
        res["sample"] = {"part": "sigwait", "example": {"worker_inside": worker_op, "main_thread_calls": main_op, "third_thread": third_ops, "signal": mode}}


def run_case(spec):
    res = {"evals": 0, "nontrivial": [], "counters": {}, "violations": [], "sample": None, "sets": {"interleavings": [], "preemption_lines": []}}
    if spec["part"] == "filestress":
        run_filestress(spec, res)
        return res
    if spec["part"] == "rawthreads":
        run_rawthreads(spec, res)  # no scheduler, no sys.monitoring: the harness parks a raw thread with sys.settrace
        return res
    if spec["part"] == "pipestress":
        run_pipestress(spec, res)
        return res
    if spec["part"] == "twodefaults":
        sched.instrument([_output])
        run_twodefaults(spec, res)
        return res
    if spec["part"] == "sigwait":
        run_sigwait(spec, res)  # real threads, real locks, real signals
        return res
    from eliot import _validation
    # 'twologgers': every third case has LINE events in _validation.py too (the nested logging multiplies the events per schedule)
    both = spec["part"] in ("memory", "memory2p", "loggersched", "lockorder") or (spec["part"] == "twologgers" and spec["i"] % 3 == 0)
    # (thorough tier: switch points also between a call instruction and the use of its result, inside a line)
    n = sched.instrument([_output, _validation] if both else [_output], post_call=(spec.get("tier") == "thorough"))
    res["counters"]["code_objects_instrumented"] = n
    if spec["part"] == "memory2p":
        run_memory2p(spec, res)
    elif spec["part"] == "memory":
        run_memory(spec, res)
    elif spec["part"] == "loggersched":
        run_loggersched(spec, res)
    elif spec["part"] == "lockorder":
        run_lockorder(spec, res)
    elif spec["part"] == "twologgers":
        run_twologgers(spec, res)
    else:
        run_filesched(spec, res)
    return res


def finalize(agg, tier):
    c = agg["counters"]
    if c.get("lock_hook_entries", 0) == 0:
        return "the invariant hook under the MemoryLogger lock was never entered"
    if c.get("schedules_run", 0) < 1000 or c.get("file_schedules_run", 0) < 100:
        return "too few schedules executed"
    lines = agg["sets"].get("preemption_lines", {})
    if not any(l.startswith("_output.py") for l in lines):
        return "no preemption landed inside eliot/_output.py"
    if c.get("raw_parks_inside_memorylogger_method", 0) == 0:
        return "no raw (non-threading) thread was parked inside a MemoryLogger method while another one called the logger"
    if c.get("pipe_rounds_with_writers_blocked_on_a_full_pipe", 0) == 0:
        return "no round in which the threads writing to a pipe had to wait for the reader"
    if c.get("two_logger_schedules_run", 0) == 0 or c.get("two_logger_nested_logs_to_B", 0) == 0 or c.get("two_logger_lock_hook_entries_B", 0) == 0:
        return "no schedule in which a serializer of a message written to one MemoryLogger logged to a second one"
    if c.get("signal_scenarios_main_thread_interrupted_while_waiting_for_the_lock", 0) == 0:
        return "no scenario in which a signal interrupted the main thread while it waited for a thread inside a MemoryLogger method"
    return None
